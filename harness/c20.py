"""C20 — each feedback call is recorded once, truthfully, and rendered from its fields."""
import copy
import gc
import inspect
import itertools
import json
import os
import string
import sys

from common import VERIF, CorrResult, Failure, run_check, use_repo

use_repo()

import feedbackcore_common as fc                          # noqa: E402
from translate_formatting import translate                # noqa: E402

THEOREMS = ["Pedal.FeedbackCore." + t for t in [
    "c20_recorded_exactly_once", "c20_delayed_not_recorded", "c20_delayed_recorded_on_handle",
    "c20_recorded_exactly_once_history", "c20_right_list_iff_condition", "c20_bool_is_outcome",
    "c20_error_path", "c20_condition_raises", "c20_message_raises", "c20_triggered_has_message",
    "c20_message_derivation", "c20_untriggered_message", "c20_format_dispatch_exact", "c20_available_callable",
    "c20_format_dispatch_longest", "c20_format_plain", "c20_format_applies", "c20_override_restored",
    "c20_clear_restores"]]

NOTES = [
    "what a formatter method returns and what str.__format__ does with the remaining spec are CPython / formatter "
    "behaviour: an Oracle parameter of the model, universally quantified in the theorems, filled in the "
    "correspondence by calling the real primitives (two-phase: the model names the calls, the harness evaluates them)",
    "templates are split into segments by CPython's string.Formatter().parse (the template grammar is CPython's); "
    "nested replacement fields and positional fields are outside the modelled subset and not generated",
    "the outcome of an instructor-written condition / _get_message (truthy, falsy, raises X; returns text/None, raises X) "
    "is an input of the model; conditions that mutate the object are not modelled (real tool feedbacks are checked "
    "black-box against the property instead)",
    "class hierarchies are given by their MRO (as computed by CPython); the model's lookup walks that list",
    "Report hooks on pedal.report.add_feedback, non-Exception BaseExceptions, the `location` keyword and tuple-valued "
    "justifications are not modelled",
    "c20_triggered_has_message needs the class's own _get_message (if any) not to return None",
]

BASES_PLAIN = ["Feedback", "FeedbackResponse", "set_correct", "system_error"]
BASES_MSG = ["gently", "explain", "compliment", "guidance"]          # their __init__ wants message or message_template
FIELD_NAMES = ["a", "b", "c", "name", "line"]
VALUES = ["x", "hello\nworld", "<b>&", "", "__init__", 3, -1, None, [1, 2], {"obj": {"line": 7}}, "a.py"]
SPECS = ["", "", "", "name", "line", "filename", "python_code", "python_expression", "python_value", "exception",
         "traceback", "frame", "inputs", "output", "table", ">8", "^7name", "5:name", "x:name", "08.3f", "shout",
         "8shout", "e", "code", "namex", "file", "_value"]
LITS = ["", "The ", " is ", " {{x}} ", "line:", "\n", "<i>"]
STRS = ["", "", "text"]            # every optional string is tried empty as well as absent
EXCS = ["KeyError", "ValueError", "TypeError", "ZeroDivisionError", "AttributeError", "RuntimeError"]
# a condition may return any object: its truthiness decides; None, 0, "", [] are falsy-but-different
CONDS = (["default"] * 4 + ["true", "false", "truthy", "falsy", "val:0", "val:1", 'val:""', 'val:"x"', "val:[]", "val:[0]",
                            "val:null", "val:{}", "val:0.0"] + ["raise:" + e for e in EXCS[:3]])
MSGS = ["default"] * 6 + ["ret:custom text", "ret:", "retnone", "raise:ValueError", "raise:KeyError"]
ACTIVATES = [True, True, False, False, 0, 1, "", "yes", None, [], [0]]


def gen_template(rng, names):
    parts = []
    for _ in range(rng.randint(0, 3)):
        parts.append(rng.choice(LITS))
        r = rng.random()
        name = rng.choice(names) if r < 0.95 else "missing"
        acc = ""
        if rng.random() < 0.12:
            acc = rng.choice([".line", "[0]", ".nope", "[9]"])
        conv = "!r" if rng.random() < 0.06 else ("!s" if rng.random() < 0.03 else "")
        spec = rng.choice(SPECS)
        parts.append("{%s%s%s%s}" % (name, acc, conv, (":" + spec) if spec else ""))
    parts.append(rng.choice(LITS))
    return "".join(parts)


def gen_class(rng, idx, prior):
    base = rng.choice(BASES_PLAIN + BASES_MSG + prior + prior)
    attrs = {}
    if rng.random() < 0.35:
        attrs["title"] = rng.choice(["Title %d" % idx, None, ""])
    if rng.random() < 0.15:
        attrs["message"] = rng.choice(["class message", "", ""])
    if rng.random() < 0.5:
        attrs["message_template"] = gen_template(rng, FIELD_NAMES)
    if rng.random() < 0.15:
        attrs["else_message"] = rng.choice(["class else", ""])
    if rng.random() < 0.2:
        attrs["else_message_template"] = gen_template(rng, FIELD_NAMES)
    if rng.random() < 0.12:
        attrs["justification"] = rng.choice(["because", ""])
    if rng.random() < 0.12:
        attrs["justification_template"] = gen_template(rng, FIELD_NAMES)
    if rng.random() < 0.2:
        attrs["constant_fields"] = {rng.choice(FIELD_NAMES): rng.choice(VALUES) for _ in range(rng.randint(0, 2))}
    if rng.random() < 0.15:
        attrs["field_names"] = rng.sample(FIELD_NAMES, rng.randint(0, 2))
    return {"name": "U%d" % idx, "base": base, "attrs": attrs, "cond": rng.choice(CONDS), "msg": rng.choice(MSGS)}


def gen_kw(rng, cls_name, case):
    kw = {}
    needs_msg = cls_name in BASES_MSG or _root_base(case, cls_name) in BASES_MSG
    r = rng.random()
    if r < 0.3 or (needs_msg and r < 0.55):
        kw["message"] = rng.choice(["explicit message", "", "", "msg {a}"])
    if rng.random() < 0.35 or (needs_msg and "message" not in kw):
        kw["message_template"] = gen_template(rng, FIELD_NAMES)
    if rng.random() < 0.15:
        kw["else_message"] = rng.choice(["else text", ""])
    if rng.random() < 0.15:
        kw["else_message_template"] = gen_template(rng, FIELD_NAMES)
    if rng.random() < 0.2:
        kw["label"] = rng.choice(["my_label", "other", ""])
    if rng.random() < 0.2:
        kw["title"] = rng.choice(["My Title", ""])
    if rng.random() < 0.1:
        kw["justification"] = rng.choice(["why", ""])
    if rng.random() < 0.35:
        kw["fields"] = {n: rng.choice(VALUES) for n in rng.sample(FIELD_NAMES, rng.randint(0, 3))}
    for n in FIELD_NAMES:
        if rng.random() < 0.75:
            kw[n] = rng.choice(VALUES)
    if rng.random() < 0.1:
        kw["field_names"] = rng.sample(FIELD_NAMES, rng.randint(0, 2))
    if rng.random() < 0.45:
        kw["activate"] = rng.choice(ACTIVATES)
    if rng.random() < 0.1:
        kw["delay_condition"] = True
    return kw


def _root_base(case, name):
    decl = {c["name"]: c for c in case.get("classes", [])}
    while name in decl:
        name = decl[name]["base"]
    return name


def gen_scenario(rng):
    """multi-step histories: override on a base, then on a class below it, use, clear, use again, override again"""
    case = {"classes": [], "ops": [], "report": rng.choice(["main", "main", "other"])}
    chain = rng.choice([["runtime_error", "type_error"], ["runtime_error", "name_error"], ["gently", "U0"],
                        ["Feedback", "gently"], ["Feedback", "U0", "U1"], ["explain", "U0", "U1"]])
    prev = chain[0]
    for n in chain[1:]:
        if n.startswith("U"):
            attrs = {}
            if rng.random() < 0.5:
                attrs[rng.choice(["title", "message_template", "else_message"])] = rng.choice(["own", "", "own {a}"])
            case["classes"].append({"name": n, "base": prev, "attrs": attrs, "cond": "default", "msg": "default"})
        prev = n
    creat = [c for c in chain if c not in ("runtime_error", "type_error", "name_error")]
    attrs = ["title", "message_template", "else_message", "message"]

    def use():
        for c in creat:
            if rng.random() < 0.7:
                kw = {"a": rng.choice(VALUES)}
                if c in BASES_MSG or _root_base(case, c) in BASES_MSG:
                    kw["message_template"] = rng.choice(["kw {a}", ""])
                if rng.random() < 0.4:
                    kw["activate"] = rng.choice([False, 0, ""])
                case["ops"].append({"op": "new", "cls": c, "kw": kw})
        for c in chain:
            case["ops"].append({"op": "probe", "cls": c, "attr": rng.choice(attrs)})

    for _ in range(rng.randint(1, 3)):
        order = list(chain)
        if rng.random() < 0.4:
            rng.shuffle(order)
        for c in order:
            if rng.random() < 0.75:
                a = rng.choice(attrs)
                v = rng.choice(["OV1", "OV2 {a}", "", None])
                fields = {a: v}
                if rng.random() < 0.15:
                    fields["nonexistent_attr"] = 1
                case["ops"].append({"op": "override", "cls": c, "fields": fields})
        use()
        case["ops"].append({"op": "clear"})
        use()
    return case


def gen_case(rng, override_heavy=False):
    if override_heavy and rng.random() < 0.6:
        return gen_scenario(rng)
    case = {"classes": [], "ops": [], "report": rng.choice(["main", "main", "main", "other"])}
    prior = []
    for i in range(rng.randint(0, 3)):
        c = gen_class(rng, i, prior)
        case["classes"].append(c)
        prior.append(c["name"])
    if rng.random() < 0.4:
        case["classes"].append({"name": "G0", "base": "FeedbackGroup", "group": True, "attrs": {},
                                "cond": rng.choice(["default", "default", "false"]), "msg": "default"})
    groups = [c["name"] for c in case["classes"] if c.get("group")]
    creatable = BASES_PLAIN + BASES_MSG + prior * 3
    ov_targets = ["gently", "explain", "runtime_error", "type_error", "name_error", "Feedback", "set_correct"] + prior * 2
    if rng.random() < 0.5:
        case["ops"].append({"op": "setformatter", "name": rng.choice(list(fc.FORMATTERS))})
    created, delayed, group_objs, open_groups = 0, [], [], []
    n = rng.randint(2, 9) if not override_heavy else rng.randint(4, 10)
    for _ in range(n):
        r = rng.random()
        if override_heavy:
            r = 0.62 + 0.38 * r if rng.random() < 0.7 else r
        if r < 0.62:
            if groups and rng.random() < 0.25:
                cls = rng.choice(groups)
                kw = {"message": "group"}
                if rng.random() < 0.3:
                    kw["activate"] = False
                case["ops"].append({"op": "new", "cls": cls, "kw": kw})
                group_objs.append(created)
                created += 1
                continue
            cls = rng.choice(creatable)
            kw = gen_kw(rng, cls, case)
            op = {"op": "new", "cls": cls, "kw": kw}
            if (cls in BASES_MSG or _root_base(case, cls) in BASES_MSG) and "message" in kw and rng.random() < 0.5:
                op["args"] = [kw.pop("message")]          # gently("text") as well as gently(message="text")
            pr = rng.random()
            if pr < 0.15:
                op["parent"] = {"scalar": rng.choice([3, "section", 0])}
            elif pr < 0.35 and group_objs:
                op["parent"] = {"group": rng.choice(group_objs)}
            case["ops"].append(op)
            if kw.get("delay_condition"):
                delayed.append(created)
            created += 1
        elif r < 0.68:
            if delayed:
                case["ops"].append({"op": "handle", "target": delayed.pop(0)})
        elif r < 0.84:
            t = rng.choice(ov_targets)
            fields = {}
            for a in rng.sample(["title", "title", "message_template", "else_message", "priority", "muted", "message",
                                 "nonexistent_attr"], rng.randint(1, 2)):
                if a == "message_template":
                    fields[a] = gen_template(rng, FIELD_NAMES)
                elif a == "muted":
                    fields[a] = rng.choice([True, False])
                elif a == "nonexistent_attr":
                    if rng.random() < 0.3:
                        fields[a] = "boom"
                else:
                    fields[a] = rng.choice(["OV-" + a, "ov2", None, ""])
            if fields:
                case["ops"].append({"op": "override", "cls": t, "fields": fields})
        elif r < 0.92:
            case["ops"].append({"op": "clear"})
            group_objs, open_groups, delayed = [], [], []
            for t in rng.sample(ov_targets, 2):
                case["ops"].append({"op": "probe", "cls": t, "attr": rng.choice(["title", "message_template", "else_message"])})
        else:
            if open_groups and rng.random() < 0.5:
                case["ops"].append({"op": "stop", "parent": open_groups.pop()})
            else:
                p = {"scalar": rng.choice([1, 2, "sec"])} if not group_objs or rng.random() < 0.6 else {"group": rng.choice(group_objs)}
                open_groups.append(p)
                case["ops"].append({"op": "start", "parent": p})
    case["ops"].append({"op": "clear"})
    for t in ["runtime_error", "type_error", "gently"] + prior:
        case["ops"].append({"op": "probe", "cls": t, "attr": "title"})
    return case


CORPUS_INLINE = [
    # base then subclass overridden (design_probes/t6.py)
    {"classes": [], "ops": [{"op": "override", "cls": "runtime_error", "fields": {"title": "X"}},
                            {"op": "override", "cls": "type_error", "fields": {"title": "Y"}}, {"op": "clear"},
                            {"op": "probe", "cls": "runtime_error", "attr": "title"},
                            {"op": "probe", "cls": "type_error", "attr": "title"}]},
    # subclass that only inherits the attribute
    {"classes": [{"name": "U0", "base": "gently", "attrs": {}, "cond": "default", "msg": "default"}],
     "ops": [{"op": "override", "cls": "gently", "fields": {"title": "X"}},
             {"op": "override", "cls": "U0", "fields": {"title": "Y"}}, {"op": "clear"},
             {"op": "probe", "cls": "U0", "attr": "title"}, {"op": "probe", "cls": "gently", "attr": "title"},
             {"op": "override", "cls": "gently", "fields": {"title": "Z"}}, {"op": "probe", "cls": "U0", "attr": "title"},
             {"op": "clear"}]},
    # override failing half-way
    {"classes": [], "ops": [{"op": "override", "cls": "gently", "fields": {"title": "A", "nonexistent_attr": 1}},
                            {"op": "clear"}, {"op": "probe", "cls": "gently", "attr": "title"}]},
    # untriggered feedback under a plain section label (int / str parent, current group)
    {"classes": [], "ops": [{"op": "new", "cls": "Feedback", "kw": {"activate": False}, "parent": {"scalar": 3}},
                            {"op": "new", "cls": "gently", "args": ["m"], "kw": {"activate": False}, "parent": {"scalar": "s"}},
                            {"op": "start", "parent": {"scalar": 5}},
                            {"op": "new", "cls": "gently", "args": ["m"], "kw": {"activate": False}}, {"op": "clear"}]},
    # design_probes/t14.py
    {"classes": [{"name": "U0", "base": "Feedback", "attrs": {}, "cond": "raise:KeyError", "msg": "default"},
                 {"name": "U1", "base": "Feedback", "attrs": {"message_template": "{nope}"}, "cond": "default", "msg": "default"}],
     "ops": [{"op": "new", "cls": "U0", "kw": {}}, {"op": "new", "cls": "U1", "kw": {}},
             {"op": "new", "cls": "U1", "kw": {"activate": False}},
             {"op": "new", "cls": "Feedback", "kw": {"message_template": "L{line:line} {name:name} {v}", "fields": {"line": 3, "name": "x", "v": [1]}}},
             {"op": "new", "cls": "Feedback", "kw": {"message_template": "{a}", "a": 5}},
             {"op": "new", "cls": "Feedback", "kw": {"delay_condition": True}}, {"op": "handle", "target": 5},
             {"op": "clear"}]},
]


def corpus_cases():
    out = list(CORPUS_INLINE)
    d = os.path.join(VERIF, "corpus", "C20")
    if os.path.isdir(d):
        for name in sorted(os.listdir(d)):
            if name.endswith(".json"):
                with open(os.path.join(d, name)) as fh:
                    out.append(json.load(fh))
    return out


def small_scope_cases():
    """every keyword mix over a reduced alphabet, one construction per session (thorough tier)"""
    out = []
    for message, mt, cmt, em, emt, cond, msg, act, parent, delay in itertools.product(
            [None, "m", ""], [None, "T {x:name}", "{missing}"], [None, "C {x}"], [None, "e"], [None, "E{x}"],
            ["default", "true", "false", "raise:KeyError"], ["default", "ret:r", "retnone", "raise:ValueError"],
            [True, False], [None, {"scalar": 3}, {"group": 0}], [False, True]):
        attrs = {}
        if cmt is not None:
            attrs["message_template"] = cmt
        kw = {"x": "v"}
        for k, v in (("message", message), ("message_template", mt), ("else_message", em), ("else_message_template", emt)):
            if v is not None:
                kw[k] = v
        if not act:
            kw["activate"] = False
        if delay:
            kw["delay_condition"] = True
        ops = [{"op": "new", "cls": "G0", "kw": {"message": "g"}}]
        op = {"op": "new", "cls": "U0", "kw": kw}
        if parent is not None:
            op["parent"] = parent
        ops.append(op)
        if delay:
            ops.append({"op": "handle", "target": 1})
        out.append({"classes": [{"name": "G0", "base": "FeedbackGroup", "group": True, "attrs": {}, "cond": "default", "msg": "default"},
                                {"name": "U0", "base": "Feedback", "attrs": attrs, "cond": cond, "msg": msg}],
                    "ops": ops})
    return out


# ---------------------------------------------------------------------------------------------
# the property oracle (written from the C20 statement; does not use the model)

def spec_render(template, fields, formatter):
    """'the template with each field substituted through the report's formatter for its declared format'"""
    out = []
    for lit, field, spec, conv in string.Formatter().parse(template):
        out.append(lit)
        if field is None:
            continue
        i = min([j for j, ch in enumerate(field) if ch in ".["] + [len(field)])
        value = fc.resolve_accessor(fields[field[:i]], field[i:])
        spec = spec or ""
        if conv:
            out.append(format({"r": repr, "s": str, "a": ascii}[conv](value), spec))
            continue
        declared = [n for n in formatter.available if spec.endswith(n)]
        if declared:
            n = max(declared, key=len)                   # the declared format is the most specific listed name
            rest = spec[:len(spec) - len(n)]
            if rest.endswith(":"):
                rest = rest[:-1]
            out.append(format(getattr(formatter, n)(value), rest))
        else:
            out.append(format(str(value), spec))
    return "".join(out)


class View:
    """What the C20 statement needs to know about one call, computed from the case description only."""

    def __init__(self, sess, op):
        case = sess.case
        decl = {c["name"]: c for c in case.get("classes", [])}
        cls = sess.classes[op["cls"]]
        kw = dict(op.get("kw", {}))
        # positional arguments of the convenience wrappers, by their signature
        if op.get("args"):
            params = [p for p in inspect.signature(cls.__init__).parameters.values()][1:]
            for p, v in zip(params, op["args"]):
                kw[p.name] = v
        if op["cls"] == "give_partial" or fc.base_classes().get(_root_base(case, op["cls"])) is fc.commands.give_partial:
            kw.pop("value", None)
        self.kw = kw
        self.delay = bool(kw.get("delay_condition"))
        self.activate = kw.get("activate", True)
        ck = mk = "default"
        name = op["cls"]
        while name in decl:
            if ck == "default" and decl[name].get("cond", "default") != "default":
                ck = decl[name]["cond"]
            if mk == "default" and decl[name].get("msg", "default") != "default":
                mk = decl[name]["msg"]
            name = decl[name]["base"]
        self.cond, self.msg = ck, mk
        self.cls = cls

    def attr(self, sess, name):
        """keyword if given, else the class attribute as it is NOW (overrides included)"""
        v = self.kw.get(name)
        return v if v is not None else getattr(self.cls, name, None)


def expected_fields(sess, view):
    fields = {}
    for k, v in (view.kw.get("fields") or {}).items():
        fields[k] = sess.values.make(v)[1]
    cf = getattr(view.cls, "constant_fields", None)
    if cf:
        fields.update(cf)
    extras = {k: v for k, v in view.kw.items() if k not in fc._INIT_NAMED}
    names = view.attr(sess, "field_names")
    if names:
        for n in names:
            fields[n] = sess.values.make(extras[n])[1] if n in extras else None
    for k, v in extras.items():
        fields[k] = sess.values.make(v)[1]
    return fields


def expected_outcome(sess, view, formatter, class_attrs):
    """-> dict(raise_=cls name or None, held=bool, message=..., else_=...) per the statement.
    `class_attrs(name)` gives the class attribute at the time of the call."""
    fields = expected_fields(sess, view)
    res = {"raise_": None, "held": False, "message": None, "fields": fields}
    if view.cond.startswith("raise:"):
        res["raise_"] = view.cond[6:]
        return res
    held = fc.cond_truth(view.cond, view.activate)
    res["held"] = held

    def pick(explicit_name, template_name, default):
        v = view.kw.get(explicit_name)
        if v is None:
            v = class_attrs(explicit_name)
        if v is not None:
            return v
        t = view.kw.get(template_name)
        if t is None:
            t = class_attrs(template_name)
        if t is not None:
            return spec_render(t, fields, formatter)
        return default
    try:
        # the justification is derived first and can fail too
        j = view.kw.get("justification")
        if j is None:
            j = class_attrs("justification")
        jt = class_attrs("justification_template")
        if j is None and jt is not None:
            spec_render(jt, fields, formatter)
        if held:
            if view.msg == "default":
                res["message"] = pick("message", "message_template", sess.classes["Feedback"].DEFAULT_FEEDBACK_MESSAGE)
            elif view.msg.startswith("raise:"):
                raise getattr(__import__("builtins"), view.msg[6:])()
            elif view.msg == "retnone":
                res["message"] = None
            else:
                res["message"] = view.msg[4:]
        else:
            res["message"] = pick("else_message", "else_message_template", sess.classes["Feedback"].DEFAULT_ELSE_MESSAGE)
    except Exception as e:      # noqa: BLE001
        res["raise_"] = type(e).__name__
        res["held"] = False
    return res


class OracleSession(fc.Session):
    """Runs the real session, judging every step against the statement as it goes."""

    def __init__(self, case):
        super().__init__(case)
        self.problems = []      # (signature, text)

    def run_op(self, op):
        k = op["op"]
        if k in ("new", "handle"):
            if k == "new":
                view = View(self, op)
            else:
                view = self.views.get(op["target"])
            cls_attrs = (lambda name, c=view.cls: getattr(c, name, None)) if view else None
            formatter = self.report.format
            exp = None
            if view is not None and (k == "handle" or not view.delay):
                try:
                    exp = expected_outcome(self, view, formatter, cls_attrs)
                except Exception as e:      # noqa: BLE001  (oracle cannot judge this call)
                    exp = None
                    self.unjudged = getattr(self, "unjudged", 0) + 1
        ob = super().run_op(op)
        if k == "new" and ob["kind"] == "fb":
            self.views = getattr(self, "views", {})
            self.views[ob["id"]] = view
        if k in ("new", "handle") and ob["kind"] == "fb":
            self.judge(op, ob, view, exp)
        if k == "clear" and ob.get("not_restored"):
            self.problems.append(({"kind": "override-not-restored"},
                                  "after clear(): %s differ from their original values" % ", ".join(ob["not_restored"])))
        return ob

    def judge(self, op, ob, view, exp):
        P = self.problems
        if view is None:
            return
        delayed_pending = op["op"] == "new" and view.delay
        total = ob["n_triggered"] + ob["n_untriggered"]
        prior = 0
        if op["op"] == "handle":
            prior = self.handled.get(op["target"], 0)
            self.handled[op["target"]] = prior + 1
        want = 0 if delayed_pending else 1 + prior
        if total != want:
            P.append(({"kind": "recorded-count", "got": min(total, 2), "want": min(want, 2)},
                      "object recorded %d times (triggered %d, untriggered %d), expected %d" % (
                          total, ob["n_triggered"], ob["n_untriggered"], want)))
            return
        if delayed_pending:
            if ob["met"]:
                P.append(({"kind": "delayed-truthy"}, "a delayed feedback is truthy before its condition ran"))
            return
        if prior == 0:
            if (ob["n_triggered"] == 1) != bool(ob["met"]):
                P.append(({"kind": "wrong-list", "bool": bool(ob["met"])},
                          "bool(feedback)=%s but triggered-list membership=%d" % (ob["met"], ob["n_triggered"])))
        if exp is None:
            return
        par = "scalar" if ob["parent"].startswith("PS") else ("group" if ob["parent"].startswith("PG") else "none")
        if ob["raised"] != exp["raise_"]:
            P.append(({"kind": "raise-mismatch", "got": ob["raised"], "want": exp["raise_"], "parent": par,
                       "held": exp["held"]},
                      "constructor raised %s, the statement says %s (condition held=%s, parent=%s)" % (
                          ob["raised"], exp["raise_"], exp["held"], par)))
            return
        if exp["raise_"] is not None:
            if ob["status"] != "error" or ob["met"] or ob["n_untriggered"] < 1:
                P.append(({"kind": "error-path"}, "raising call left status=%s bool=%s untriggered=%d" % (
                    ob["status"], ob["met"], ob["n_untriggered"])))
            return
        if bool(ob["met"]) != exp["held"]:
            P.append(({"kind": "truth-value", "got": bool(ob["met"]), "want": exp["held"]},
                      "bool(feedback)=%s but the condition %s" % (ob["met"], "held" if exp["held"] else "did not hold")))
            return
        if ob["message"] != exp["message"]:
            P.append(({"kind": "message", "held": exp["held"]},
                      "message %r, the statement says %r" % (ob["message"], exp["message"])))
        if exp["held"] and ob["message"] is None and view.msg != "retnone":
            P.append(({"kind": "triggered-without-message"}, "triggered feedback has message None"))
        exp_tokens = {k: self.values.token_of(v) for k, v in exp["fields"].items()}
        if exp_tokens != ob["fields"]:
            P.append(({"kind": "fields"}, "fields %r, the statement says %r" % (ob["fields"], exp_tokens)))

    def run(self):
        self.handled = {}
        self.views = {}
        obs, final = super().run()
        if final.get("stray"):
            self.problems.append(({"kind": "wrong-report"},
                                  "%d objects were recorded in MAIN_REPORT although every call named another report" % final["stray"]))
        # parent groups hear about each child once per condition check, with the right flag
        heard = {}
        for g, c, a in final["childlog"]:
            heard.setdefault((g, c), []).append(a)
        last = {}
        for ob in obs:
            if ob.get("kind") == "fb":
                last[ob["id"]] = ob
        for i, ob in last.items():
            view = self.views.get(i)
            if view is None or not ob["parent"].startswith("PG"):
                continue
            checks = (0 if view.delay else 1) + self.handled.get(i, 0)
            calls = heard.get((int(ob["parent"][2:]), i), [])
            if len(calls) != checks or (calls and calls[-1] != bool(ob["met"])):
                self.problems.append(({"kind": "group-callback"},
                                      "group %s heard %r about child %d (bool=%s, %d condition checks)" % (
                                          ob["parent"], calls, i, ob["met"], checks)))
        return obs, final


def judge_case(case, skipped=None):
    s = OracleSession(copy.deepcopy(case))
    s.build_classes()
    obs, final = s.run()
    if skipped is not None:
        skipped["oracle-could-not-judge-call"] = skipped.get("oracle-could-not-judge-call", 0) + getattr(s, "unjudged", 0)
        skipped["constructor-raised-before-Feedback.__init__"] = skipped.get(
            "constructor-raised-before-Feedback.__init__", 0) + sum(1 for o in obs if o.get("kind") == "noobj")
    return s.problems, obs


# ---------------------------------------------------------------------------------------------
# black-box check of REAL feedback calls made by pedal's tools while grading

REAL_SCRIPTS = [
    ("from pedal import *\nensure_function('f')\nprevent_operation('+')\nassert_equal(call('f', 2), 4)\nunit_test('f', (1, 2), (3, 6))\n",
     "def f(x):\n    return x + x\nprint(f(1))\n"),
    ("from pedal import *\nassert_output(student, 'hi')\nassert_has_variable(student, 'z')\nensure_literal(5)\nprevent_import('os')\n",
     "import os\ny = 1\nprint(undefined_name)\n"),
    ("from pedal import *\nverify()\n", "def f(:\n  pass\n"),
    ("from pedal import *\nfrom pedal.assertions.static import *\nensure_ast('For')\nprevent_ast('While', at_most=0)\nassert_equal(call('g'), 1)\n",
     "x = 0\nwhile x < 3:\n    x = x + 1\nunused = 5\ndef g():\n    return int('a')\n"),
    ("from pedal import *\nwith assert_group('grp'):\n    assert_equal(call('f', 1), 1)\n    assert_equal(call('f', 2), 3)\ncompliment('nice')\ngive_partial(.5)\n",
     "def f(x):\n    return x\n"),
]


def real_call_problems():
    """Every Feedback constructed while pedal grades a few real (script, submission) pairs: recorded exactly once
    in its own report, in the triggered list iff truthy, raising iff status error, triggered => message."""
    import argparse
    from pedal.command_line.modes import Bundle
    from pedal.core.submission import Submission
    from pedal.core.feedback import Feedback
    problems, n = [], 0
    orig = Feedback.__init__
    depth = []

    def spy(self, *a, **k):
        raised = None
        try:
            return orig(self, *a, **k)
        except Exception as e:      # noqa: BLE001
            raised = e
            raise
        finally:
            rep = getattr(self, "report", None)
            if rep is not None and "_status" in vars(self):
                calls.append((self, rep, raised, k.get("delay_condition", False)))

    for script, code in REAL_SCRIPTS:
        calls = []
        saved = fc.snapshot_class_state(fc.base_classes().values())
        Feedback.__init__ = spy
        try:
            cfg = argparse.Namespace(threaded=False, resolver="resolve")
            b = Bundle(cfg, script, Submission(main_file="answer.py", main_code=code, instructor_file="instructor.py"))
            b.environment = "standard"
            try:
                b.run_ics_bundle(resolver="resolve", skip_tifa=False, skip_run=False)
            except Exception:       # noqa: BLE001
                pass
            for o, rep, raised, delayed in calls:
                n += 1
                nt = sum(1 for f in rep.feedback if f is o)
                nu = sum(1 for f in rep.ignored_feedback if f is o)
                name = type(o).__name__
                status = vars(o).get("_status")
                if status == "delayed":
                    continue
                if nt + nu != 1:
                    problems.append(({"kind": "real-recorded-count", "cls": name}, "%s recorded %d+%d times" % (name, nt, nu)))
                elif (nt == 1) != bool(o):
                    problems.append(({"kind": "real-wrong-list", "cls": name}, "%s bool=%s triggered=%d" % (name, bool(o), nt)))
                elif (raised is not None) != (status == "error"):
                    problems.append(({"kind": "real-error-path", "cls": name}, "%s raised=%r status=%s" % (name, raised, status)))
                elif bool(o) and o.message is None:
                    problems.append(({"kind": "real-triggered-without-message", "cls": name}, "%s triggered, message None" % name))
        finally:
            Feedback.__init__ = orig
            fc.MAIN_REPORT.clear()
            fc.restore_class_state(saved)
    return problems, n


# ---------------------------------------------------------------------------------------------

def nontrivial(case, obs):
    kinds = set()
    for ob in obs:
        if ob.get("kind") == "fb":
            kinds.add(ob["status"])
    return len(kinds) >= 2 or any(o["op"] == "override" for o in case["ops"])


def correspond(rng, tier, driver):
    res = CorrResult()
    res.rule = ("sessions = corpus + seeded random (0-3 generated subclasses of Feedback / core commands / each other with "
                "class-level title/message/templates/constant_fields/field_names, custom condition "
                "(true/false/truthy/falsy/raising) and _get_message (text/None/raising); 2-10 ops: constructions with "
                "keyword mixes (message vs template vs neither, else_*, fields, extra keywords, field_names, activate, "
                "delay_condition + later _handle_condition, int/str/group parents, group stack), override() on base and "
                "derived classes incl. failing ones, clear(), 5 formatters incl. a user subclass extending `available`); "
                "real = pedal objects and MAIN_REPORT, model = Pedal.FeedbackCore session through driver_c20 with the "
                "oracle table filled by the real primitives; compared: id, bool, status, raised class, message, "
                "else/unused message, justification, title, label, parent, fields, both lists, group callbacks, class "
                "attribute probes; non-trivial = >=2 distinct statuses or an override in the session")
    n = 1200 if tier == "quick" else 8000
    cases = corpus_cases()
    for i in range(n):
        cases.append(gen_case(rng, override_heavy=(i % 5 == 4)))
    if tier == "thorough":
        cases += small_scope_cases()
    results = fc.run_sessions(driver, cases)
    for case, sess, obs, fin, mops, mfin, ntab in results:
        res.evaluations += 1
        res.count("oracle-entries", ntab)
        for ob in obs:
            if ob.get("kind") == "fb":
                res.count("status:" + str(ob["status"]))
                if ob["raised"]:
                    res.count("raised:" + ob["raised"])
            elif ob.get("kind") == "noobj":
                res.count("pre-init-raise")
        if nontrivial(case, obs):
            res.nontrivial.add(json.dumps(case, sort_keys=True, default=str))
        d = fc.compare(case, obs, fin, mops, mfin)
        if d:
            res.disagreements.append({"case": case, "real": [o for o in obs], "model": mops, "fields": d[:6]})
    res.samples = [c for c, *_ in results[-2:]]
    res.cases = cases
    # format dispatch alone: arbitrary specs against the generated table
    specs = set(SPECS)
    from pedal.core.formatting import Formatter
    for a in Formatter.available:
        specs.update([a, "x" + a, ">9" + a, "3:" + a, a + "x", a[1:], ":" + a])
    for _ in range(200 if tier == "quick" else 5000):
        specs.add("".join(rng.choice("abcdefilmnoprtuvxy_:>^<0123456789") for _ in range(rng.randint(0, 6)))
                  + rng.choice(["", ""] + list(Formatter.available)))
    specs = sorted(specs)
    answers = driver.ask(["dispatch gen " + fc.enc_str(s) for s in specs])
    for s, a in zip(specs, answers):
        res.evaluations += 1
        real = real_dispatch(s)
        head, kv = fc.parse_kv(a)
        model = ("plain",) if head == "plain" else ("fmt", fc.dec_str(kv["name"]), fc.dec_str(kv["rest"]))
        res.count("dispatch:" + model[0])
        if real != model:
            res.disagreements.append({"case": {"spec": s}, "real": real, "model": model, "fields": ["dispatch"]})
    return res


class _DispatchProbe:
    """a formatter object that records which method was selected and with which remaining spec"""

    def __init__(self):
        from pedal.core.formatting import Formatter
        self.available = Formatter.available
        self.seen = ("plain",)

    def __getattr__(self, name):
        probe = self

        def method(value):
            class R:
                def __format__(self_, rest):
                    probe.seen = ("fmt", name, rest)
                    return ""
            return R()
        return method


def real_dispatch(spec):
    probe = _DispatchProbe()
    try:
        format(fc.formatting.FeedbackFieldWrapper("k", "v", probe), spec)
    except ValueError:
        pass            # str.__format__ rejecting a plain spec: still the plain path
    return probe.seen


def shrink(case, sig):
    """greedy: drop ops (re-indexing object references) while the same signature is still produced"""
    def still(c):
        try:
            probs, _ = judge_case(c)
        except Exception:       # noqa: BLE001
            return False
        return any(fc_canon(p[0]) == fc_canon(sig) for p in probs)

    cur = copy.deepcopy(case)
    changed = True
    while changed:
        changed = False
        for i in range(len(cur["ops"]) - 1, -1, -1):
            cand = drop_op(cur, i)
            if cand is not None and still(cand):
                cur = cand
                changed = True
    used = {o["cls"] for o in cur["ops"] if "cls" in o}
    decl = {c["name"]: c for c in cur["classes"]}
    todo = list(used)
    while todo:
        n = todo.pop()
        if n in decl and decl[n]["base"] not in used:
            used.add(decl[n]["base"])
            todo.append(decl[n]["base"])
    cand = dict(cur, classes=[c for c in cur["classes"] if c["name"] in used])
    if still(cand):
        cur = cand
    return cur


def fc_canon(x):
    return json.dumps(x, sort_keys=True, default=str)


def drop_op(case, i):
    ops = case["ops"]
    k = sum(1 for o in ops[:i] if o["op"] == "new")
    is_new = ops[i]["op"] == "new"
    out = []
    for j, o in enumerate(ops):
        if j == i:
            continue
        o = copy.deepcopy(o)
        if is_new:
            if o["op"] == "handle":
                if o["target"] == k:
                    return None
                if o["target"] > k:
                    o["target"] -= 1
            p = o.get("parent")
            if p and "group" in p:
                if p["group"] == k:
                    return None
                if p["group"] > k:
                    p["group"] -= 1
        out.append(o)
    return dict(case, ops=out)


def search(rng, tier, broken, corr):
    failures = []
    info = {"rule": "real pedal vs the C20 statement (independent Python oracle: exactly-once by identity, list membership "
                    "vs bool, expected raise/truth value/message from the keywords and class attributes with the "
                    "declared format = most specific listed formatter, group callbacks, every class attribute back after "
                    "clear) on corpus + the correspondence sessions + seeded random sessions (+ every keyword mix over a "
                    "reduced alphabet in thorough); plus every Feedback constructed while pedal grades %d real "
                    "(script, submission) pairs, judged black-box" % len(REAL_SCRIPTS),
            "evaluations": 0, "distinct_nontrivial": 0, "samples": [], "skipped": {"session-crashed-the-harness": 0}}
    cases = list(getattr(corr, "cases", None) or corpus_cases())
    extra = (600 if tier == "quick" else 4000) * (3 if broken else 1)
    for i in range(extra):
        cases.append(gen_case(rng, override_heavy=(i % 3 == 0)))
    seen = {}
    for case in cases:
        try:
            probs, obs = judge_case(case, info["skipped"])
        except Exception as e:      # noqa: BLE001
            info["skipped"]["session-crashed-the-harness"] += 1
            info["last_harness_error"] = "%s: %s" % (type(e).__name__, e)
            continue
        if info["evaluations"] % 400 == 399:
            gc.collect()
        info["evaluations"] += 1
        if nontrivial(case, obs):
            info["distinct_nontrivial"] += 1
        for sig, text in probs:
            key = fc_canon(sig)
            if key not in seen:
                seen[key] = (sig, text, case)
    for key, (sig, text, case) in seen.items():
        small = shrink(case, sig)
        failures.append(Failure(sig, text, {"case": small}))
    rp, n = real_call_problems()
    info["real_calls_judged"] = n
    info["evaluations"] += n
    for sig, text in rp:
        if fc_canon(sig) not in seen:
            seen[fc_canon(sig)] = True
            failures.append(Failure(sig, text, {"real_scripts": True}))
    info["samples"] = cases[-2:]
    return failures, info


def replay(payload):
    rp = payload.get("replay", {})
    if "case" not in rp:
        print("replay: the failure came from the real-call stream; re-running it")
        for sig, text in real_call_problems()[0]:
            print("  ", sig, text)
        return 0
    case = rp["case"]
    print("case:", json.dumps(case, indent=1, default=str))
    probs, obs = judge_case(case)
    print("--- real pedal")
    for o in obs:
        print("  ", o)
    print("--- property oracle")
    for sig, text in probs:
        print("  PROBLEM", sig, text)
    if not probs:
        print("   (no problem on this tree)")
    from common import Driver
    d = Driver("driver_c20")
    if d.available:
        for c, sess, obs, fin, mops, mfin, nt in fc.run_sessions(d, [case]):
            print("--- model")
            for m in mops or []:
                print("  ", {k: v for k, v in m.items() if k != "calls"})
            print("--- differences:", fc.compare(c, obs, fin, mops, mfin))
    return 1 if probs else 0


if __name__ == "__main__":
    sys.exit(run_check("C20", proof_modules=["PedalProofs.C20"], theorems=THEOREMS, driver_exe="driver_c20",
                       translate=translate, correspond=correspond, search=search, replay=replay,
                       model_notes=NOTES, leanchecker_modules=["PedalProofs.C20"]))

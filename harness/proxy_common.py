"""
C16 shared Python side: the operation families of the property, operand universe (builtin values and
generated user classes), execution of one operation on raw values / on SandboxResult proxies with stdout
captured, the oracle ("same operation on the raw value"), signatures, and the tabulation of CPython's slot
behaviour that is sent to the Lean model as the type table of one request.
"""
import contextlib
import io
import json
import math
import operator

from common import use_repo

use_repo()
from pedal.sandbox import result as result_mod            # noqa: E402
from pedal.sandbox.result import SandboxResult             # noqa: E402

# --------------------------------------------------------------------------
# operations

ARITH = [  # (forward dunder, reflected dunder, function)
    ("__add__", "__radd__", operator.add), ("__sub__", "__rsub__", operator.sub),
    ("__mul__", "__rmul__", operator.mul), ("__matmul__", "__rmatmul__", operator.matmul),
    ("__truediv__", "__rtruediv__", operator.truediv), ("__floordiv__", "__rfloordiv__", operator.floordiv),
    ("__mod__", "__rmod__", operator.mod), ("__divmod__", "__rdivmod__", divmod),
    ("__pow__", "__rpow__", operator.pow), ("__lshift__", "__rlshift__", operator.lshift),
    ("__rshift__", "__rrshift__", operator.rshift), ("__and__", "__rand__", operator.and_),
    ("__xor__", "__rxor__", operator.xor), ("__or__", "__ror__", operator.or_),
]
CMP = [
    ("__lt__", "__gt__", operator.lt), ("__le__", "__ge__", operator.le), ("__gt__", "__lt__", operator.gt),
    ("__ge__", "__le__", operator.ge), ("__eq__", "__eq__", operator.eq), ("__ne__", "__ne__", operator.ne),
]
BINARY = {d: (rd, f) for d, rd, f in ARITH + CMP}
ARITH_NAMES = [d for d, _, _ in ARITH]
CMP_NAMES = [d for d, _, _ in CMP]

# Lean constructor names (PedalModel/Proxy.lean `BinOp`)
BINOP_LEAN = {"__add__": "add", "__sub__": "sub", "__mul__": "mul", "__matmul__": "matmul", "__truediv__": "truediv",
              "__floordiv__": "floordiv", "__mod__": "mod", "__divmod__": "divmod", "__pow__": "pow",
              "__lshift__": "lshift", "__rshift__": "rshift", "__and__": "and", "__xor__": "xor", "__or__": "or",
              "__lt__": "lt", "__le__": "le", "__gt__": "gt", "__ge__": "ge", "__eq__": "eq", "__ne__": "ne"}


CONV = {  # name -> (function, the chain of dunders CPython consults, in order)
    "neg": (operator.neg, ["__neg__"]), "pos": (operator.pos, ["__pos__"]), "abs": (abs, ["__abs__"]),
    "invert": (operator.invert, ["__invert__"]),
    "len": (len, ["__len__"]), "hash": (hash, ["__hash__"]), "bool": (bool, ["__bool__", "__len__"]),
    "str": (str, ["__str__"]), "repr": (repr, ["__repr__"]), "format": (lambda a: format(a, ""), ["__format__"]),
    "int": (int, ["__int__", "__index__", "__trunc__"]), "float": (float, ["__float__", "__index__"]),
    "complex": (complex, ["__complex__", "__float__", "__index__"]),
    "round": (round, ["__round__"]), "trunc": (math.trunc, ["__trunc__"]),
    "floor": (math.floor, ["__floor__", "__float__", "__index__"]),
    "ceil": (math.ceil, ["__ceil__", "__float__", "__index__"]),
    "index": (operator.index, ["__index__"]),
    "iter": (iter, ["__iter__"]),                 # iterator results are listed by `run`
    "reversed": (reversed, ["__reversed__"]),
}
UNARY_NAMES = ["neg", "pos", "abs", "invert"]
CONTAINER_CONV = ["len", "iter", "reversed"]
CONVERSION_NAMES = [c for c in CONV if c not in UNARY_NAMES and c not in CONTAINER_CONV]
CONV_DUNDERS = sorted({d for _, ds in CONV.values() for d in ds})

# container operations with an argument: the proxy is the container
CONTAINER2 = {"getitem": operator.getitem, "contains": lambda c, x: x in c}

# sampled-only extras (no Lean family of their own; see notes/C16.md)
EXTRA = {
    "round_n": lambda a, n: round(a, n),
    "format_spec": lambda a, s: format(a, s),
    "fstring": lambda a: f"{a}|{a!r}",
    "pow3": lambda a, b, c: pow(a, b, c),
    "sum": lambda a: sum(a),
    "sorted": lambda a: sorted(a),
}


# --------------------------------------------------------------------------
# operand universe

class ClassSpec:
    """A generated student class: name, base (name or None), dunders: {dunder: [(match, behaviour), ...]}
    match: a class name tested with isinstance(other, <class>) or '*' ; behaviour: ['val', k] | ['ni'] | ['raise', name]
    Unary dunders use only the '*' rule."""


EXC = {"TypeError": TypeError, "ValueError": ValueError, "ZeroDivisionError": ZeroDivisionError,
       "KeyError": KeyError, "RuntimeError": RuntimeError}
BUILTIN_CLASSES = {"int": int, "float": float, "bool": bool, "str": str, "list": list, "tuple": tuple, "dict": dict,
                   "set": set, "complex": complex, "NoneType": type(None), "object": object}


def build_classes(specs):
    """specs: list of {"name", "base", "dunders": {dunder: [[match, beh...], ...]}, "conv": {dunder: beh}}"""
    env = dict(BUILTIN_CLASSES)

    def make_binary(cname, dunder, rules):
        def method(self, other):
            for match, beh in rules:
                if match == "*" or isinstance(other, env[match]):
                    return act(beh, cname, dunder)
            return NotImplemented
        method.__name__ = dunder
        return method

    def make_unary(cname, dunder, beh):
        def method(self, *args):
            if dunder == "__getitem__" and args and type(args[0]) is int and not 0 <= args[0] < 2:
                raise IndexError("generated")      # keeps the old-style iteration protocol finite
            return act(beh, cname, dunder)
        method.__name__ = dunder
        return method

    def act(beh, cname, dunder):
        if beh[0] == "val":
            return beh[1]
        if beh[0] == "lit":
            return eval(beh[1], {"__builtins__": {}}, {})
        if beh[0] == "tag":
            return (cname, dunder, beh[1])
        if beh[0] == "ni":
            return NotImplemented
        if beh[0] == "raise":
            raise EXC[beh[1]]("generated")
        raise AssertionError(beh)

    for spec in specs:
        ns = {"__init__": lambda self, payload=0: setattr(self, "payload", payload),
              "__repr__": (lambda n: lambda self: "%s(%r)" % (n, self.payload))(spec["name"])}
        for dunder, rules in spec.get("dunders", {}).items():
            ns[dunder] = make_binary(spec["name"], dunder, [(r[0], r[1:]) for r in rules])
        for dunder, beh in spec.get("conv", {}).items():
            if beh == ["none"]:
                ns[dunder] = None
            else:
                ns[dunder] = make_unary(spec["name"], dunder, beh)
        base = env[spec["base"]] if spec.get("base") else object
        env[spec["name"]] = type(spec["name"], (base,), ns)
    return env


def build_value(vs, env):
    if vs["kind"] == "user":
        return env[vs["cls"]](vs.get("payload", 0))
    return eval(vs["expr"], {"__builtins__": {}}, {"set": set, "frozenset": frozenset})


BUILTIN_VALUES = [
    ("int", "3"), ("int", "0"), ("int", "-2"), ("int", "1"), ("int", "7"),
    ("float", "2.5"), ("float", "-0.5"), ("float", "3.0"), ("float", "0.0"),
    ("bool", "True"), ("bool", "False"),
    ("str", "'ab'"), ("str", "''"), ("str", "'%d'"), ("str", "'%s'"), ("str", "'%s %s'"), ("str", "'12'"), ("str", "'a'"),
    ("list", "[1, 2]"), ("list", "[]"), ("list", "['a', 3]"), ("list", "[3, 1, 2]"),
    ("tuple", "(1, 2)"), ("tuple", "()"), ("tuple", "(3,)"),
    ("dict", "{1: 2}"), ("dict", "{}"), ("dict", "{'a': 1}"),
    ("set", "{1, 2}"), ("set", "set()"), ("set", "{3}"),
    ("none", "None"),
    ("complex", "(1+2j)"), ("complex", "0j"),
]


def value_specs():
    return [{"kind": k, "expr": e} for k, e in BUILTIN_VALUES]


def gen_classes(rng):
    """A small random hierarchy of student classes with value / NotImplemented / raise behaviours."""
    names = ["A", "B", "C"]
    specs = []
    n = rng.choice([1, 2, 2, 3, 3])
    all_binary = ARITH_NAMES + [rd for _, rd, _ in ARITH] + CMP_NAMES
    for i in range(n):
        name = names[i]
        base = None
        if i > 0 and rng.random() < 0.6:
            base = rng.choice(names[:i])
        dunders = {}
        focus = rng.sample(ARITH, 2) + rng.sample(CMP, 1)
        chosen = set()
        for d, rd, _ in focus:
            for x in (d, rd):
                if rng.random() < 0.7:
                    chosen.add(x)
        for x in rng.sample(all_binary, rng.randint(0, 3)):
            chosen.add(x)
        for d in sorted(chosen):
            rules = []
            for m in rng.sample(names[:n] + ["int", "str", "list", "float"], rng.randint(0, 3)):
                rules.append([m] + gen_beh(rng, d))
            if rng.random() < 0.6:
                rules.append(["*"] + gen_beh(rng, d))
            dunders[d] = rules
        conv = {}
        for d in rng.sample(CONV_DUNDERS + ["__contains__", "__getitem__"], rng.randint(0, 5)):
            conv[d] = gen_conv_beh(rng, d)
        if rng.random() < 0.15:
            conv["__hash__"] = ["none"]
        specs.append({"name": name, "base": base, "dunders": dunders, "conv": conv})
    return specs


def gen_beh(rng, dunder):
    r = rng.random()
    if r < 0.55:
        if dunder in CMP_NAMES and rng.random() < 0.7:
            return ["val", rng.choice([True, False])]
        return rng.choice([["val", rng.randint(0, 9)], ["tag", rng.randint(0, 3)]])
    if r < 0.85:
        return ["ni"]
    return ["raise", rng.choice(sorted(EXC))]


GOOD_CONV = {"__len__": [0, 2, 5], "__hash__": [7, 12345], "__bool__": [True, False], "__str__": ["s", ""],
             "__repr__": ["r"], "__format__": ["f"], "__int__": [4, -1], "__index__": [3, 0], "__trunc__": [2],
             "__float__": [1.5, -2.25], "__complex__": [1j, 2 + 0j], "__round__": [1, 2.0], "__floor__": [1], "__ceil__": [2],
             "__neg__": [-1, "neg"], "__pos__": [1], "__abs__": [1, 2.5], "__invert__": [-2],
             "__contains__": [True, False, 0, "x"], "__getitem__": [1, "item"]}
BAD_CONV = [None, "bad", 1.5, -3, [1], 2]


def gen_conv_beh(rng, dunder):
    r = rng.random()
    if dunder in ("__iter__", "__reversed__"):
        return rng.choice([["iter", [1, 2]], ["iter", []], ["lit", "5"], ["raise", "TypeError"], ["ni"]])
    if r < 0.6:
        return ["lit", repr(rng.choice(GOOD_CONV[dunder]))]
    if r < 0.8:
        return ["lit", repr(rng.choice(BAD_CONV))]
    if r < 0.9:
        return ["ni"]
    return ["raise", rng.choice(sorted(EXC))]


# `iter` behaviour needs a real iterator
_orig_build_classes = build_classes


def build_classes(specs):     # noqa: F811
    specs2 = []
    iters = {}
    for s in specs:
        s2 = dict(s)
        conv = dict(s.get("conv", {}))
        for d, beh in list(conv.items()):
            if beh and beh[0] == "iter":
                iters[(s["name"], d)] = beh[1]
                del conv[d]
        s2["conv"] = conv
        specs2.append(s2)
    env = _orig_build_classes(specs2)
    for (cname, d), items in iters.items():
        setattr(env[cname], d, (lambda it: lambda self: iter(list(it)))(items))
    return env


# --------------------------------------------------------------------------
# running one operation

def unwrap(x):
    if type(x) is SandboxResult:
        return object.__getattribute__(x, "value")
    return x


def is_proxy(x):
    return type(x) is SandboxResult


def run(f, *args):
    """-> ('ok', result-unwrapped, was_wrapped, stdout) | ('exc', class name, None, stdout)"""
    buf = io.StringIO()
    try:
        with contextlib.redirect_stdout(buf):
            r = f(*args)
            wrapped = is_proxy(r)
            r = unwrap(r)
            if hasattr(type(r), "__next__"):
                r = ("iter", [unwrap(x) for x in r])
        return ("ok", r, wrapped, buf.getvalue())
    except RecursionError:
        return ("exc", "RecursionError", None, buf.getvalue())
    except Exception as e:       # noqa
        return ("exc", type(e).__name__, None, buf.getvalue())


def same_value(a, b):
    """Equality of results: same type and equal (NaN equal to NaN; user objects by identity or class+payload)."""
    if a is b:
        return True
    if type(a) is not type(b):
        return False
    try:
        if isinstance(a, float):
            return a == b or (a != a and b != b)
        if isinstance(a, complex):
            return a == b or (a != a and b != b)
        if isinstance(a, (list, tuple)):
            return len(a) == len(b) and all(same_value(x, y) for x, y in zip(a, b))
        if hasattr(a, "payload") and hasattr(b, "payload") and type(a).__module__ == type(b).__module__:
            return a.payload == b.payload
        return bool(a == b)
    except Exception:
        return False


def place(placement, l, r):
    if placement == "proxy-left":
        return SandboxResult(l), r
    if placement == "proxy-right":
        return l, SandboxResult(r)
    if placement == "both":
        return SandboxResult(l), SandboxResult(r)
    raise ValueError(placement)


PLACEMENTS = ["proxy-left", "proxy-right", "both"]


INFIX_SYMBOL = {"__add__": "+", "__sub__": "-", "__mul__": "*", "__matmul__": "@", "__truediv__": "/",
                "__floordiv__": "//", "__mod__": "%", "__pow__": "**", "__lshift__": "<<", "__rshift__": ">>",
                "__and__": "&", "__xor__": "^", "__or__": "|", "__lt__": "<", "__le__": "<=", "__gt__": ">",
                "__ge__": ">=", "__eq__": "==", "__ne__": "!="}
_INFIX_CACHE = {}


def infix_function(op):
    """The operator written as source text (`a + b`) rather than through the operator module."""
    if op not in _INFIX_CACHE:
        _INFIX_CACHE[op] = eval("lambda a, b: a %s b" % INFIX_SYMBOL[op]) if op in INFIX_SYMBOL else BINARY[op][1]
    return _INFIX_CACHE[op]


def case_function(case):
    fam, op = case["family"], case["op"]
    if fam in ("binary", "comparison"):
        if case.get("spelling") == "infix":
            return infix_function(op)
        return BINARY[op][1]
    if fam in ("unary", "conversion"):
        return CONV[op][0]
    if fam == "container":
        return CONV[op][0] if op in CONV else CONTAINER2[op]
    if fam == "isinstance":
        return isinstance
    if fam == "extra":
        return EXTRA[op]
    if fam == "len_fn":
        return result_mod.len
    raise ValueError(fam)


def case_operands(case):
    """-> env, raw args list, proxied args list"""
    env = build_classes(case.get("classes", []))
    fam = case["family"]
    if fam in ("binary", "comparison"):
        l, r = build_value(case["left"], env), build_value(case["right"], env)
        return env, [l, r], list(place(case["placement"], l, r))
    if fam in ("unary", "conversion") or (fam == "container" and case["op"] in CONV):
        v = build_value(case["left"], env)
        return env, [v], [SandboxResult(v)]
    if fam == "container":
        c, k = build_value(case["left"], env), build_value(case["right"], env)
        return env, [c, k], [SandboxResult(c), k]
    if fam == "isinstance":
        v = build_value(case["left"], env)
        c = env[case["cls"]]
        return env, [v, c], [SandboxResult(v), c]
    if fam == "extra":
        vals = [build_value(v, env) for v in case["args"]]
        prox = [SandboxResult(v) if i in case["proxied"] else v for i, v in enumerate(vals)]
        return env, vals, prox
    if fam == "len_fn":
        v = build_value(case["left"], env)
        if case["placement"] == "raw":
            return env, [v], [v]
        return env, [v], [SandboxResult(v)]
    raise ValueError(fam)


def run_case(case):
    """-> (real, got): outcomes on the raw operands and on the proxied operands."""
    f = case_function(case)
    _, raw, prox = case_operands(case)
    if case["family"] == "len_fn":
        real = run(len, *raw)
    else:
        real = run(f, *raw)
    got = run(f, *prox)       # same underlying objects: none of the listed operations mutates its operands
    return real, got


def oracle(case, real, got):
    """The property, read off its text.  None if it holds on this case, else (signature, what)."""
    why = None
    if got[3] != "":
        why = "writes to stdout: %r" % got[3][:40]
    elif real[0] == "ok":
        if got[0] != "ok":
            why = "raises %s where the raw value gives %r" % (got[1], real[1])
        elif got[1] is NotImplemented and real[1] is not NotImplemented:
            why = "hands back NotImplemented where the raw value gives %r" % (real[1],)
        elif not same_value(real[1], got[1]):
            why = "gives %r where the raw value gives %r" % (got[1], real[1])
    else:
        if got[0] == "ok":
            if got[1] is NotImplemented:
                why = "hands back NotImplemented where the raw value raises %s" % real[1]
            else:
                why = "succeeds with %r where the raw value raises %s" % (got[1], real[1])
    if why is None:
        return None
    return signature(case), "%s: %s" % (describe(case), why)


def kind_of(vs, case=None):
    if vs["kind"] != "user":
        return vs["kind"]
    return "user"


def signature(case):
    fam = case["family"]
    sig = {"op": case["op"]}
    if fam in ("binary", "comparison"):
        sig.update(left=kind_of(case["left"]), right=kind_of(case["right"]), placement=case["placement"])
        if case["left"]["kind"] == "user" and case["right"]["kind"] == "user" and case["placement"] == "proxy-right" \
                and subclass_reflected_first(case):
            sig = {"op": "binary", "cause": "subclass-reflected-first", "placement": "proxy-right"}
    elif fam == "extra":
        sig.update(args=[kind_of(a) for a in case["args"]], proxied=list(case["proxied"]))
    elif fam == "isinstance":
        sig.update(value=kind_of(case["left"]), cls=case["cls"] if case["cls"] in BUILTIN_CLASSES else "user")
    elif fam == "len_fn":
        sig.update(value=kind_of(case["left"]), placement=case["placement"])
    else:
        sig.update(value=kind_of(case["left"]))
        if "right" in case:
            sig.update(arg=kind_of(case["right"]))
    return sig


def subclass_reflected_first(case):
    """CPython tries the right operand's reflected method first when its class is a proper subclass of the left
    operand's class (and, for arithmetic, overrides the method).  A proxy on the right hides that relation."""
    env = build_classes(case.get("classes", []))
    cl, cr = env[case["left"]["cls"]], env[case["right"]["cls"]]
    if cl is cr or not issubclass(cr, cl):
        return False
    rd = BINARY[case["op"]][0]
    a, b = getattr(cr, rd, None), getattr(cl, rd, None)
    if a is None:
        return False
    return case["op"] in CMP_NAMES or a is not b


def describe(case):
    fam = case["family"]

    def show(vs):
        return vs["expr"] if vs["kind"] != "user" else "%s()" % vs["cls"]
    if fam in ("binary", "comparison"):
        l, r = show(case["left"]), show(case["right"])
        if case["placement"] in ("proxy-left", "both"):
            l = "P(%s)" % l
        if case["placement"] in ("proxy-right", "both"):
            r = "P(%s)" % r
        return "%s(%s, %s)" % (case["op"], l, r)
    if fam == "extra":
        return "%s(%s)" % (case["op"], ", ".join(("P(%s)" % show(a)) if i in case["proxied"] else show(a)
                                                 for i, a in enumerate(case["args"])))
    if fam == "isinstance":
        return "isinstance(P(%s), %s)" % (show(case["left"]), case["cls"])
    if fam == "len_fn":
        return "pedal.sandbox.result.len(%s)" % (show(case["left"]) if case["placement"] == "raw" else "P(%s)" % show(case["left"]))
    if "right" in case:
        return "%s(P(%s), %s)" % (case["op"], show(case["left"]), show(case["right"]))
    return "%s(P(%s))" % (case["op"], show(case["left"]))


def case_key(case):
    return json.dumps(case, sort_keys=True)

"""
C16 shared Python side: the operation families of the property, operand universe (builtin values and
generated user classes), execution of one operation on raw values / on SandboxResult proxies with stdout
captured, the oracle ("same operation on the raw value"), signatures, and the tabulation of CPython's slot
behaviour that is sent to the Lean model as the type table of one request.
"""
import contextlib
import io
import json
import math
import operator

from common import use_repo

use_repo()
from pedal.sandbox import result as result_mod            # noqa: E402
from pedal.sandbox.result import SandboxResult             # noqa: E402

# --------------------------------------------------------------------------
# operations

ARITH = [  # (forward dunder, reflected dunder, function)
    ("__add__", "__radd__", operator.add), ("__sub__", "__rsub__", operator.sub),
    ("__mul__", "__rmul__", operator.mul), ("__matmul__", "__rmatmul__", operator.matmul),
    ("__truediv__", "__rtruediv__", operator.truediv), ("__floordiv__", "__rfloordiv__", operator.floordiv),
    ("__mod__", "__rmod__", operator.mod), ("__divmod__", "__rdivmod__", divmod),
    ("__pow__", "__rpow__", operator.pow), ("__lshift__", "__rlshift__", operator.lshift),
    ("__rshift__", "__rrshift__", operator.rshift), ("__and__", "__rand__", operator.and_),
    ("__xor__", "__rxor__", operator.xor), ("__or__", "__ror__", operator.or_),
]
CMP = [
    ("__lt__", "__gt__", operator.lt), ("__le__", "__ge__", operator.le), ("__gt__", "__lt__", operator.gt),
    ("__ge__", "__le__", operator.ge), ("__eq__", "__eq__", operator.eq), ("__ne__", "__ne__", operator.ne),
]
BINARY = {d: (rd, f) for d, rd, f in ARITH + CMP}
ARITH_NAMES = [d for d, _, _ in ARITH]
CMP_NAMES = [d for d, _, _ in CMP]

# Lean constructor names (PedalModel/Proxy.lean `BinOp`)
BINOP_LEAN = {"__add__": "add", "__sub__": "sub", "__mul__": "mul", "__matmul__": "matmul", "__truediv__": "truediv",
              "__floordiv__": "floordiv", "__mod__": "mod", "__divmod__": "divmod", "__pow__": "pow",
              "__lshift__": "lshift", "__rshift__": "rshift", "__and__": "and", "__xor__": "xor", "__or__": "or",
              "__lt__": "lt", "__le__": "le", "__gt__": "gt", "__ge__": "ge", "__eq__": "eq", "__ne__": "ne"}


CONV = {  # name -> (function, the chain of dunders CPython consults, in order)
    "neg": (operator.neg, ["__neg__"]), "pos": (operator.pos, ["__pos__"]), "abs": (abs, ["__abs__"]),
    "invert": (operator.invert, ["__invert__"]),
    "len": (len, ["__len__"]), "hash": (hash, ["__hash__"]), "bool": (bool, ["__bool__", "__len__"]),
    "str": (str, ["__str__"]), "repr": (repr, ["__repr__"]), "format": (lambda a: format(a, ""), ["__format__"]),
    "int": (int, ["__int__", "__index__", "__trunc__"]), "float": (float, ["__float__", "__index__"]),
    "complex": (complex, ["__complex__", "__float__", "__index__"]),
    "round": (round, ["__round__"]), "trunc": (math.trunc, ["__trunc__"]),
    "floor": (math.floor, ["__floor__", "__float__", "__index__"]),
    "ceil": (math.ceil, ["__ceil__", "__float__", "__index__"]),
    "index": (operator.index, ["__index__"]),
    "iter": (iter, ["__iter__"]),                 # iterator results are listed by `run`
    "reversed": (reversed, ["__reversed__"]),
}
UNARY_NAMES = ["neg", "pos", "abs", "invert"]
CONTAINER_CONV = ["len", "iter", "reversed"]
CONVERSION_NAMES = [c for c in CONV if c not in UNARY_NAMES and c not in CONTAINER_CONV]
CONV_DUNDERS = sorted({d for _, ds in CONV.values() for d in ds})

# container operations with an argument: the proxy is the container
CONTAINER2 = {"getitem": operator.getitem, "contains": lambda c, x: x in c}

# sampled-only extras (no Lean family of their own; see notes/C16.md)
EXTRA = {
    "round_n": lambda a, n: round(a, n),
    "format_spec": lambda a, s: format(a, s),
    "fstring": lambda a: f"{a}|{a!r}",
    "pow3": lambda a, b, c: pow(a, b, c),
    "sum": lambda a: sum(a),
    "sorted": lambda a: sorted(a),
    "dict_lookup": lambda a, b: {b: 1}[a],          # hashing + equality: the proxy finds its value's entry
    "set_member": lambda a, b: a in {b},
}


# --------------------------------------------------------------------------
# operand universe

class ClassSpec:
    """A generated student class: name, base (name or None), dunders: {dunder: [(match, behaviour), ...]}
    match: a class name tested with isinstance(other, <class>) or '*' ; behaviour: ['val', k] | ['ni'] | ['raise', name]
    Unary dunders use only the '*' rule."""


EXC = {"TypeError": TypeError, "ValueError": ValueError, "ZeroDivisionError": ZeroDivisionError,
       "KeyError": KeyError, "RuntimeError": RuntimeError}
BUILTIN_CLASSES = {"int": int, "float": float, "bool": bool, "str": str, "list": list, "tuple": tuple, "dict": dict,
                   "set": set, "complex": complex, "NoneType": type(None), "object": object}


def build_classes(specs):
    """specs: list of {"name", "base", "dunders": {dunder: [[match, beh...], ...]}, "conv": {dunder: beh}}"""
    env = dict(BUILTIN_CLASSES)

    def make_binary(cname, dunder, rules):
        def method(self, other):
            for match, beh in rules:
                if match == "*" or isinstance(other, env[match]):
                    if beh[0] == "peer":
                        # the way a student's Card compares / adds: by a field of BOTH operands (duck typing)
                        return getattr(self, beh[1]) == getattr(other, beh[1])
                    return act(beh, cname, dunder)
            return NotImplemented
        method.__name__ = dunder
        return method

    def make_unary(cname, dunder, beh):
        def method(self, *args):
            if dunder == "__getitem__" and args and isinstance(args[0], int) and not 0 <= args[0] < 2:
                raise IndexError("generated")      # keeps the old-style iteration protocol finite
            return act(beh, cname, dunder)
        method.__name__ = dunder
        return method

    def act(beh, cname, dunder):
        if beh[0] == "val":
            return beh[1]
        if beh[0] == "lit":
            return eval(beh[1], {"__builtins__": {}}, {})
        if beh[0] == "tag":
            return (cname, dunder, beh[1])
        if beh[0] == "ni":
            return NotImplemented
        if beh[0] == "raise":
            raise EXC[beh[1]]("generated")
        raise AssertionError(beh)

    for spec in specs:
        ns = {"__init__": lambda self, payload=0: setattr(self, "payload", payload),
              "__repr__": (lambda n: lambda self: "%s(%r)" % (n, _payload_of(self)))(spec["name"])}
        for dunder, rules in spec.get("dunders", {}).items():
            ns[dunder] = make_binary(spec["name"], dunder, [(r[0], r[1:]) for r in rules])
        for dunder, beh in spec.get("conv", {}).items():
            if beh == ["none"]:
                ns[dunder] = None
            else:
                ns[dunder] = make_unary(spec["name"], dunder, beh)
        base = env[spec["base"]] if spec.get("base") else object
        if any(k in spec for k in ("shape", "attrs", "catch", "klass")):
            env[spec["name"]] = build_carrier(spec, ns, base, env)
        else:
            env[spec["name"]] = type(spec["name"], (base,), ns)
    return env


# --------------------------------------------------------------------------
# student classes whose instances carry attributes named like the proxy's own vocabulary ("carriers")
#   spec["attrs"]  [[name, how, expr], ...]   how: inst | cls | prop | meth      expr: a literal, or "@self"
#   spec["shape"]  object | slots | enum | intenum | strenum | namedtuple | dataclass | attrdict
#   spec["catch"]  {"kind": getattr | getattribute, "scope": all | public, "answer": zero|none|str|list|self|name,
#                   "miss": attr | key}    a class answering (almost) every attribute name
#   spec["klass"]  name of the class its instances claim as __class__

def _payload_of(obj):
    try:
        return object.__getattribute__(obj, "payload")
    except AttributeError:
        if isinstance(obj, dict):
            return dict.get(obj, "payload", "?")
        try:
            p = obj.payload
        except Exception:       # noqa
            return "?"
        return "self" if p is obj else p


def _decoy(expr, self):
    if expr == "@self":
        return self
    return eval(expr, {"__builtins__": {}}, {"set": set, "frozenset": frozenset})


def _catch_all(catch, kind_getattribute):
    answers = {"zero": lambda s, n: 0, "none": lambda s, n: None, "str": lambda s, n: "attr", "list": lambda s, n: [1, 2],
               "self": lambda s, n: s, "name": lambda s, n: n}
    answer = answers[catch["answer"]]
    miss = KeyError if catch.get("miss") == "key" else AttributeError

    def getattr_(self, name):
        if catch["scope"] == "public" and name.startswith("_"):
            raise miss(name)
        if name.startswith("__") and name.endswith("__") and catch["scope"] != "all":
            raise miss(name)
        return answer(self, name)

    def getattribute_(self, name):
        # protocol names (dunders) and the generated payload are answered normally: a class that lies about
        # __class__ / __dict__ is a different experiment (spec["klass"])
        if (name.startswith("__") and name.endswith("__")) or name == "payload":
            return object.__getattribute__(self, name)
        if catch["scope"] == "public" and name.startswith("_"):
            return object.__getattribute__(self, name)
        return answer(self, name)
    return getattribute_ if kind_getattribute else getattr_


def build_carrier(spec, ns, base, env):
    import collections
    import dataclasses
    import enum
    name, shape = spec["name"], spec.get("shape", "object")
    attrs = [tuple(a) for a in spec.get("attrs", [])]
    inst = [(n, e) for n, how, e in attrs if how == "inst"]
    for n, how, e in attrs:
        if how == "cls" and shape not in ("enum", "intenum", "strenum"):
            ns[n] = _decoy(e, None) if e != "@self" else None
        elif how == "prop" or (how == "cls" and shape in ("enum", "intenum", "strenum")):
            ns[n] = property((lambda ex: lambda self: _decoy(ex, self))(e))
        elif how == "meth":
            ns[n] = (lambda ex: lambda self, *a: _decoy(ex, self))(e)
    if spec.get("klass"):
        ns["__class__"] = property((lambda k: lambda self: env[k])(spec["klass"]))
    catch = spec.get("catch")
    if catch:
        ns["__getattribute__" if catch["kind"] == "getattribute" else "__getattr__"] = \
            _catch_all(catch, catch["kind"] == "getattribute")
    if shape in ("object", "slots"):
        def init(self, payload=0):
            object.__setattr__(self, "payload", payload)
            for n, e in inst:
                object.__setattr__(self, n, _decoy(e, self))
        ns["__init__"] = init
        if shape == "slots":
            ns["__slots__"] = tuple(["payload"] + [n for n, _ in inst])
            for n, _ in inst:
                ns.pop(n, None)
        return type(name, (base,), ns)
    if shape in ("enum", "intenum", "strenum"):
        ns.pop("__init__")
        bases = {"enum": (enum.Enum,), "intenum": (enum.IntEnum,), "strenum": (str, enum.Enum)}[shape]
        body = enum.EnumMeta.__prepare__(name, bases)
        for k, v in ns.items():
            body[k] = v
        body["payload"] = property(lambda self: self._value_ if shape != "strenum" else int(self._value_[1:]))
        for i in range(6):
            body["M%d" % i] = i if shape != "strenum" else "m%d" % i
        cls = enum.EnumMeta(name, bases, body)
        env.setdefault("__make__", {})[name] = (lambda c: lambda p: c._member_map_["M%d" % p])(cls)
        return cls
    if shape == "namedtuple":
        ns.pop("__init__")
        fields = ["payload"] + [n for n, _ in inst if not n.startswith("_")]
        for n, e in inst:
            if n.startswith("_"):           # not a legal field name: a class attribute instead
                ns[n] = _decoy(e, None) if e != "@self" else None
        tup = collections.namedtuple(name + "Fields", fields,
                                     defaults=[_decoy(e, None) if e != "@self" else None
                                               for n, e in inst if not n.startswith("_")])
        for f in fields:
            ns.pop(f, None)
        ns["__slots__"] = ()
        return type(name, (tup,) if base is object else (tup, base), ns)
    if shape == "dataclass":
        ns.pop("__init__")
        fields = [("payload", int, dataclasses.field(default=0))]
        for n, e in inst:
            ns.pop(n, None)
            fields.append((n, object, dataclasses.field(
                default_factory=(lambda ex: lambda: _decoy(ex, None) if ex != "@self" else None)(e))))
        opts = spec.get("dc", {})
        return dataclasses.make_dataclass(name, fields, bases=(base,), namespace=ns,
                                          frozen=bool(opts.get("frozen")), order=bool(opts.get("order")))
    if shape == "attrdict":
        miss = KeyError if (catch or {}).get("miss", spec.get("miss")) == "key" else AttributeError

        def init(self, payload=0):
            dict.__init__(self, payload=payload)
            for n, e in inst:
                self[n] = _decoy(e, self)

        fallback = ns.get("__getattr__")

        def getattr_(self, key):
            try:
                return self[key]
            except KeyError:
                if fallback is not None:
                    return fallback(self, key)
                raise miss(key)
        ns["__init__"] = init
        ns["__getattr__"] = getattr_
        return type(name, (dict,) if base is object else (base, dict), ns)
    raise ValueError(shape)


def build_value(vs, env):
    if vs["kind"] == "user":
        make = env.get("__make__", {}).get(vs["cls"]) or env[vs["cls"]]
        return make(vs.get("payload", 0))
    return eval(vs["expr"], {"__builtins__": {}}, {"set": set, "frozenset": frozenset})


BUILTIN_VALUES = [
    ("int", "3"), ("int", "0"), ("int", "-2"), ("int", "1"), ("int", "7"),
    ("float", "2.5"), ("float", "-0.5"), ("float", "3.0"), ("float", "0.0"),
    ("bool", "True"), ("bool", "False"),
    ("str", "'ab'"), ("str", "''"), ("str", "'%d'"), ("str", "'%s'"), ("str", "'%s %s'"), ("str", "'12'"), ("str", "'a'"),
    ("list", "[1, 2]"), ("list", "[]"), ("list", "['a', 3]"), ("list", "[3, 1, 2]"),
    ("tuple", "(1, 2)"), ("tuple", "()"), ("tuple", "(3,)"),
    ("dict", "{1: 2}"), ("dict", "{}"), ("dict", "{'a': 1}"),
    ("set", "{1, 2}"), ("set", "set()"), ("set", "{3}"),
    ("none", "None"),
    ("complex", "(1+2j)"), ("complex", "0j"),
]


def value_specs():
    return [{"kind": k, "expr": e} for k, e in BUILTIN_VALUES]


def gen_classes(rng):
    """A small random hierarchy of student classes with value / NotImplemented / raise behaviours."""
    names = ["A", "B", "C"]
    specs = []
    n = rng.choice([1, 2, 2, 3, 3])
    all_binary = ARITH_NAMES + [rd for _, rd, _ in ARITH] + CMP_NAMES
    for i in range(n):
        name = names[i]
        base = None
        if i > 0 and rng.random() < 0.6:
            base = rng.choice(names[:i])
        dunders = {}
        focus = rng.sample(ARITH, 2) + rng.sample(CMP, 1)
        chosen = set()
        for d, rd, _ in focus:
            for x in (d, rd):
                if rng.random() < 0.7:
                    chosen.add(x)
        for x in rng.sample(all_binary, rng.randint(0, 3)):
            chosen.add(x)
        for d in sorted(chosen):
            rules = []
            for m in rng.sample(names[:n] + ["int", "str", "list", "float"], rng.randint(0, 3)):
                rules.append([m] + gen_beh(rng, d))
            if rng.random() < 0.6:
                rules.append(["*"] + gen_beh(rng, d))
            dunders[d] = rules
        conv = {}
        for d in rng.sample(CONV_DUNDERS + ["__contains__", "__getitem__"], rng.randint(0, 5)):
            conv[d] = gen_conv_beh(rng, d)
        if rng.random() < 0.15:
            conv["__hash__"] = ["none"]
        specs.append({"name": name, "base": base, "dunders": dunders, "conv": conv})
    return specs


def gen_beh(rng, dunder):
    r = rng.random()
    if r < 0.55:
        if dunder in CMP_NAMES and rng.random() < 0.7:
            return ["val", rng.choice([True, False])]
        return rng.choice([["val", rng.randint(0, 9)], ["tag", rng.randint(0, 3)]])
    if r < 0.85:
        return ["ni"]
    return ["raise", rng.choice(sorted(EXC))]


GOOD_CONV = {"__len__": [0, 2, 5], "__hash__": [7, 12345], "__bool__": [True, False], "__str__": ["s", ""],
             "__repr__": ["r"], "__format__": ["f"], "__int__": [4, -1], "__index__": [3, 0], "__trunc__": [2],
             "__float__": [1.5, -2.25], "__complex__": [1j, 2 + 0j], "__round__": [1, 2.0], "__floor__": [1], "__ceil__": [2],
             "__neg__": [-1, "neg"], "__pos__": [1], "__abs__": [1, 2.5], "__invert__": [-2],
             "__contains__": [True, False, 0, "x"], "__getitem__": [1, "item"]}
BAD_CONV = [None, "bad", 1.5, -3, [1], 2]


def gen_conv_beh(rng, dunder):
    r = rng.random()
    if dunder in ("__iter__", "__reversed__"):
        return rng.choice([["iter", [1, 2]], ["iter", []], ["lit", "5"], ["raise", "TypeError"], ["ni"]])
    if r < 0.6:
        return ["lit", repr(rng.choice(GOOD_CONV[dunder]))]
    if r < 0.8:
        return ["lit", repr(rng.choice(BAD_CONV))]
    if r < 0.9:
        return ["ni"]
    return ["raise", rng.choice(sorted(EXC))]


# --- generators for carriers ------------------------------------------------------------------------------

DECOYS = ["0", "5", "-1", "2.5", "''", "'v'", "[1, 2]", "[]", "None", "(3,)", "{1: 2}", "True", "False", "@self"]
SHAPES = ["object", "slots", "namedtuple", "dataclass", "attrdict", "enum", "intenum", "strenum"]
HOWS = ["inst", "cls", "prop", "meth"]
SUNDER_RESERVED = lambda n: n.startswith("_") and n.endswith("_") and not n.startswith("__")      # noqa: E731


def vocabulary():
    from proxy_probe import proxy_vocabulary
    return proxy_vocabulary()


def legal_attr(shape, how, name):
    """Can a class of this shape carry `name` in this way?"""
    if shape in ("enum", "intenum", "strenum"):
        if how == "inst" or SUNDER_RESERVED(name) or name in ("mro", "payload") or (name.startswith("__") and name.endswith("__")):
            return False
    if shape == "slots" and how == "inst" and name.startswith("__") and not name.endswith("__"):
        return False            # name mangling inside __slots__
    if name == "payload":
        return False
    return _python_accepts(shape, how, name)


_ACCEPTS = {}


def _python_accepts(shape, how, name):
    """The rules above are a hand list; Python itself has the last word: a class of this shape that cannot be CREATED
    (or instantiated) with an attribute of this name - namedtuple / dataclass refuse a keyword, Enum refuses some
    reserved names - is not a class a student can write, so it is not generated (counted in COLLIDE_STATS, never a
    harness error).  Decided by building the minimal carrier once per (shape, how, name)."""
    key = (shape, how, name)
    if key not in _ACCEPTS:
        try:
            env = build_classes([{"name": "T", "base": None, "dunders": {}, "conv": {}, "shape": shape,
                                  "attrs": [[name, how, "0"]]}])
            build_value({"kind": "user", "cls": "T", "payload": 1}, env)
            _ACCEPTS[key] = None
        except (TypeError, ValueError, AttributeError, SyntaxError) as e:
            _ACCEPTS[key] = type(e).__name__
    if _ACCEPTS[key] is not None:
        COLLIDE_STATS["python-refuses:%s/%s/%s (%s)" % (shape, how, name, _ACCEPTS[key])] = 1
    return _ACCEPTS[key] is None


def rich_conv(rng, spec, p=0.6):
    """Give a generated class a good share of well-behaved conversion / container dunders (so that most of the
    operation battery SUCCEEDS on the real object and has to give the same answer through the proxy)."""
    for d, goods in GOOD_CONV.items():
        if d not in spec["conv"] and rng.random() < p:
            spec["conv"][d] = ["lit", repr(rng.choice(goods))]
    if "__iter__" not in spec["conv"] and rng.random() < p:
        spec["conv"]["__iter__"] = ["iter", [1, 2]]
    if "__eq__" not in spec["dunders"] and rng.random() < 0.3:
        # compares by class and payload, the way a student's Card does
        spec["dunders"]["__eq__"] = [[spec["name"], "val", True], ["*", "val", False]]
        spec["conv"].setdefault("__hash__", ["lit", "12345"])


def carrier_spec(rng, name, names, shape=None, how=None, catch=None, klass=None, base=None, peer=None):
    """One generated class carrying attributes called `names` (spelled `how`, or each at random)."""
    one = gen_classes(rng)[0]
    spec = {"name": name, "base": base, "dunders": one["dunders"], "conv": one["conv"], "shape": shape or "object"}
    for d in list(spec["dunders"]):         # rules naming classes that may not exist
        spec["dunders"][d] = [r for r in spec["dunders"][d] if r[0] in ("*", "int", "str", "list", "float", name)]
    rich_conv(rng, spec)
    attrs = []
    for n in names:
        h = how or rng.choice(HOWS)
        if not legal_attr(spec["shape"], h, n):
            h = next((x for x in ("prop", "meth", "cls") if legal_attr(spec["shape"], x, n)), None)
            if h is None:
                continue
        attrs.append([n, h, rng.choice(DECOYS)])
    spec["attrs"] = attrs
    peers = [a[0] for a in attrs if a[1] != "meth"] + (["value"] if spec["shape"] in ("enum", "intenum", "strenum") else [])
    if peers and peer is not False and (peer or rng.random() < 0.4):
        # some dunders read that attribute from the OTHER operand as well (Card.__eq__: self.value == other.value)
        for d in ["__eq__"] + rng.sample(ARITH_NAMES + CMP_NAMES + ["__radd__", "__rmul__"], 2):
            spec["dunders"][d] = [[name, "peer", rng.choice(peers)]] + [r for r in spec["dunders"].get(d, []) if r[0] != name]
        spec["conv"].setdefault("__hash__", ["lit", "12345"])
    if spec["shape"] == "dataclass":
        spec["dc"] = {"frozen": rng.random() < 0.3, "order": False}
        for d in ("__setattr__", "__delattr__"):
            spec["conv"].pop(d, None)
    if spec["shape"] == "attrdict":
        spec["miss"] = rng.choice(["attr", "key"])
    builtin_base = {"intenum": int, "strenum": str, "namedtuple": tuple, "attrdict": dict}.get(spec["shape"])
    if builtin_base is not None:
        # a subclass of a builtin keeps the builtin's own comparisons (a generated __gt__ that contradicts the
        # inherited C-level __lt__ only exercises the mirrored-comparison side condition, not this dimension) ...
        # ... and its own sequence / number slots: `StrSub() + proxy` asks str.__add__ (which RAISES for a foreign
        # operand) before the proxy's __radd__ as soon as StrSub defines __radd__ itself - CPython corners of builtin
        # subclasses, a dimension of their own (notes/C16.md section 7)
        partner = {}
        for f, rd, _ in ARITH:
            partner[f], partner[rd] = rd, f
        for d in list(spec["dunders"]):
            if (d in CMP_NAMES and d in vars(builtin_base)) or hasattr(builtin_base, d) or \
                    (d in partner and hasattr(builtin_base, partner[d])):
                del spec["dunders"][d]
    if builtin_base in (int, str):
        # ... and an int / str subclass the builtin's own conversions (CPython short-cuts exact-type checks such as
        # PyLong_Check before it looks at an overriding __index__: a dimension of its own, see notes/C16.md section 7)
        spec["conv"] = {}       # (complex('m1') / int('m1') parse the text and never look at __complex__ / __int__)
    if catch and spec["shape"] not in ("enum", "intenum", "strenum", "namedtuple", "dataclass"):
        spec["catch"] = catch       # (the enum / dataclass machinery itself probes attributes while the class is made)
    if klass:
        spec["klass"] = klass
    return spec


def answers_private(spec):
    """Does an instance of this class ANSWER (return something for) the proxy's reserved underscore names?  Such an
    object is, by the proxy's duck-typed design, not distinguishable from a proxy when it is a PLAIN operand."""
    if any(a[0].startswith("_") for a in spec.get("attrs", [])):
        return True
    c = spec.get("catch")
    if c and c["scope"] != "public":
        return True
    return False


def plain_safe(spec, rng=None):
    """The variant of a carrier class that may stand as a plain (unproxied) other operand: public colliding names only,
    a catch-all that does not answer underscore names (it raises AttributeError - or, like the dict.__getitem__ idiom,
    KeyError - for them)."""
    s2 = json.loads(json.dumps(spec))
    s2["attrs"] = [a for a in s2.get("attrs", []) if not a[0].startswith("_")]
    if s2.get("catch"):
        s2["catch"]["scope"] = "public"
    return s2


COLLIDE_STATS = {}


def _stat(key, n=1):
    COLLIDE_STATS[key] = COLLIDE_STATS.get(key, 0) + n


def collide_battery(rng, specs, subject, others, per_family):
    """The operation battery on proxies of `subject` (a value spec of a carrier class)."""
    out = []
    vals = value_specs()

    def pick_other():
        r = rng.random()
        if r < 0.5 and others:
            return rng.choice(others)
        if r < 0.7:
            return dict(subject, payload=rng.choice([0, 1, 2]))
        return rng.choice(vals)
    by_name = {s["name"]: s for s in specs}
    env = build_classes(specs)
    answers = {}

    def ok_plain(v):
        """may this value stand as a PLAIN operand?  not if it answers the proxy's reserved underscore names (measured
        on an instance: a generated __getitem__ behind an attribute-dict answers every name)"""
        if v["kind"] != "user":
            return True
        if v["cls"] not in answers:
            a = answers_private(by_name[v["cls"]])
            if not a:
                obj = build_value(v, env)
                for n in vocabulary()["private"]:
                    try:
                        getattr(obj, n)
                        a = True
                        break
                    except Exception:       # noqa
                        pass
            answers[v["cls"]] = a
        if answers[v["cls"]]:
            _stat("skipped: a PLAIN operand that answers the proxy's reserved underscore names")
        return not answers[v["cls"]]
    convs = list(CONV)
    for op in (convs if per_family is None else rng.sample(convs, min(per_family, len(convs)))):
        out.append({"family": _fam(op), "op": op, "left": subject, "classes": specs})
    binops = ARITH_NAMES + CMP_NAMES
    defined = [d for d in by_name[subject["cls"]]["dunders"]]
    chosen = list(CMP_NAMES) + [f for f, rd, _ in ARITH if f in defined or rd in defined] + rng.sample(ARITH_NAMES, 3)
    if per_family is not None:
        chosen = rng.sample(chosen, min(per_family, len(chosen)))
    for op in chosen:
        for plc in (PLACEMENTS if per_family is None else [rng.choice(PLACEMENTS)]):
            o = pick_other()
            l, r = (subject, o) if plc != "proxy-right" else (o, subject)
            if rng.random() < 0.25 and plc == "both":
                l, r = r, l
            # the side that stays plain must be a legitimate plain operand
            plain = r if plc == "proxy-left" else (l if plc == "proxy-right" else None)
            if plain is not None and not ok_plain(plain):
                continue
            if op == "__mod__" and (l["kind"] == "str" or (l["kind"] == "user" and by_name[l["cls"]].get("shape") == "strenum")):
                continue        # str % proxy: the open finding, exercised by the builtin cells
            out.append({"family": _fam(op), "op": op, "left": l, "right": r, "placement": plc, "classes": specs})
    for op in CONTAINER2:
        for k in ([{"kind": "int", "expr": "0"}, {"kind": "str", "expr": "'payload'"}, pick_other()]):
            if ok_plain(k):
                out.append({"family": "container", "op": op, "left": subject, "right": k, "classes": specs})
            if rng.random() < 0.5:
                out.append({"family": "container", "op": op, "left": subject, "right": k, "placement": "both",
                            "classes": specs})
    # a carrier as the needle / key of a proxied builtin container (plain, and a call() result itself)
    for kind, cont in (("list", "[1, 2]"), ("dict", "{1: 2}"), ("tuple", "(3,)")):
        if ok_plain(subject):
            out.append({"family": "container", "op": "contains", "left": {"kind": kind, "expr": cont},
                        "right": subject, "classes": specs})
        out.append({"family": "container", "op": "contains", "left": {"kind": kind, "expr": cont},
                    "right": subject, "placement": "both", "classes": specs})
    for c in [subject["cls"], "object", "int", "tuple", "dict", "str"]:
        out.append({"family": "isinstance", "op": "isinstance", "left": subject, "cls": c, "classes": specs})
    ex = [("fstring", [subject]), ("sum", [subject]), ("sorted", [subject]), ("dict_lookup", [subject, subject]),
          ("set_member", [subject, subject]),
          ("round_n", [subject, {"kind": "int", "expr": "1"}]), ("format_spec", [subject, {"kind": "str", "expr": "'>5'"}]),
          ("pow3", [subject, {"kind": "int", "expr": "2"}, {"kind": "int", "expr": "5"}])]
    sspec = by_name[subject["cls"]]
    if sspec.get("shape") in ("enum", "intenum", "strenum") and "__eq__" in sspec["dunders"]:
        # members are singletons: CPython's lookup finds the key by IDENTITY before it asks a (generated, possibly
        # irreflexive) __eq__ - no proxy can be identical to its value
        ex = [e for e in ex if e[0] not in ("dict_lookup", "set_member")]
    for op, args in (ex if per_family is None else rng.sample(ex, min(per_family, len(ex)))):
        out.append({"family": "extra", "op": op, "args": args, "proxied": [0], "classes": specs})
    out.append({"family": "len_fn", "op": "len_fn", "left": subject, "placement": "proxy", "classes": specs})
    if ok_plain(subject):
        out.append({"family": "len_fn", "op": "len_fn", "left": subject, "placement": "raw", "classes": specs})
    sspec = by_name[subject["cls"]]
    _stat("carrier:" + sspec.get("shape", "object") + (":catch-all" if sspec.get("catch") else "")
          + (":__class__" if sspec.get("klass") else ""))
    for a in sspec.get("attrs", []):
        _stat("how:" + a[1])
    _stat("cases", len(out))
    return out


def _fam(op):
    if op in ARITH_NAMES:
        return "binary"
    if op in CMP_NAMES:
        return "comparison"
    if op in UNARY_NAMES:
        return "unary"
    if op in CONTAINER_CONV or op in CONTAINER2:
        return "container"
    return "conversion"


CATCHES = [{"kind": k, "scope": sc, "answer": a, "miss": m}
           for k in ("getattr", "getattribute") for sc in ("all", "nodunder", "public")
           for a in ("zero", "none", "str", "list", "self", "name") for m in ("attr", "key")
           if not (k == "getattribute" and (sc == "all" or m == "key"))]


def collide_cases(rng, tier, budget=None):
    """Student values whose attribute names collide with the proxy's own vocabulary, under the whole battery.
    Systematic part: every tier-1 name x every way of carrying it (full battery for the public names, a sampled
    battery for the others), every variant / tier-2 name once; every catch-all; __class__ overrides; then random
    mixtures."""
    voc = vocabulary()
    out = []
    plainB = {"name": "B", "base": None, "dunders": {}, "conv": {}}

    def one(names, shape=None, how=None, catch=None, klass=None, full=False):
        a = carrier_spec(rng, "A", names, shape=shape, how=how, catch=catch, klass=klass)
        b = carrier_spec(rng, "B", [n for n in names if not n.startswith("_")][:2], shape=rng.choice(SHAPES[:4]))
        specs = [a, plain_safe(b)]
        subject = {"kind": "user", "cls": "A", "payload": rng.choice([0, 1, 2])}
        others = [{"kind": "user", "cls": "B", "payload": 1}]
        return collide_battery(rng, specs, subject, others, None if full else (4 if tier == "quick" else 10))
    thorough = tier != "quick"
    for n in voc["tier1"]:
        public = not n.startswith("_")
        for shape in SHAPES:
            for how in HOWS:
                if shape in ("namedtuple", "dataclass", "attrdict", "slots") and how != "inst" and not thorough:
                    continue
                if not legal_attr(shape, how, n):
                    continue
                out += one([n], shape=shape, how=how, full=public or thorough)
    # the enum shapes carry `value` / `name` (and _value_ / _name_) by themselves
    for shape in ("enum", "intenum", "strenum"):
        out += one([], shape=shape, full=True)
    for n in voc["variants"] + voc["tier2"]:
        for _ in range(3 if thorough else 1):
            out += one([n], shape=rng.choice(SHAPES))
    for c in CATCHES:
        out += one([], catch=c, shape=rng.choice(["object", "object", "attrdict"]) if c["kind"] == "getattr" else "object",
                   full=thorough or c["answer"] in ("zero", "self"))
    for k in ("int", "str", "object", "B", "list"):
        out += one(rng.sample(voc["tier1"], 1), klass=k, full=True)
    everything = voc["tier1"] + voc["variants"] + voc["tier2"]
    for _ in range(budget if budget is not None else (40 if tier == "quick" else 1500)):
        names = rng.sample(everything, rng.randint(1, 4))
        if rng.random() < 0.5:
            names.append(rng.choice([n for n in voc["tier1"] if not n.startswith("_")] or voc["tier1"]))
        out += one(sorted(set(names)), shape=rng.choice(SHAPES),
                   catch=rng.choice(CATCHES) if rng.random() < 0.15 else None,
                   klass=rng.choice(["int", "B", "object"]) if rng.random() < 0.05 else None)
    return out


# `iter` behaviour needs a real iterator
_orig_build_classes = build_classes


def build_classes(specs):     # noqa: F811
    specs2 = []
    iters = {}
    for s in specs:
        s2 = dict(s)
        conv = dict(s.get("conv", {}))
        for d, beh in list(conv.items()):
            if beh and beh[0] == "iter":
                iters[(s["name"], d)] = beh[1]
                del conv[d]
        s2["conv"] = conv
        specs2.append(s2)
    env = _orig_build_classes(specs2)
    for (cname, d), items in iters.items():
        setattr(env[cname], d, (lambda it: lambda self: iter(list(it)))(items))
    return env


# --------------------------------------------------------------------------
# running one operation

def unwrap(x):
    if type(x) is SandboxResult:
        return object.__getattribute__(x, "value")
    return x


def is_proxy(x):
    return type(x) is SandboxResult


def run(f, *args):
    """-> ('ok', result-unwrapped, was_wrapped, stdout) | ('exc', class name, None, stdout)"""
    buf = io.StringIO()
    try:
        with contextlib.redirect_stdout(buf):
            r = f(*args)
            wrapped = is_proxy(r)
            r = unwrap(r)
            if hasattr(type(r), "__next__"):
                r = ("iter", [unwrap(x) for x in r])
        return ("ok", r, wrapped, buf.getvalue())
    except RecursionError:
        return ("exc", "RecursionError", None, buf.getvalue())
    except Exception as e:       # noqa
        return ("exc", type(e).__name__, None, buf.getvalue())


def same_value(a, b):
    """Equality of results: same type and equal (NaN equal to NaN; user objects by identity or class+payload)."""
    if a is b:
        return True
    if type(a) is not type(b):
        return False
    try:
        if isinstance(a, float):
            return a == b or (a != a and b != b)
        if isinstance(a, complex):
            return a == b or (a != a and b != b)
        if isinstance(a, (list, tuple)):
            return len(a) == len(b) and all(same_value(x, y) for x, y in zip(a, b))
        if hasattr(a, "payload") and hasattr(b, "payload") and type(a).__module__ == type(b).__module__:
            return a.payload == b.payload
        return bool(a == b)
    except Exception:
        return False


def place(placement, l, r):
    if placement == "proxy-left":
        return SandboxResult(l), r
    if placement == "proxy-right":
        return l, SandboxResult(r)
    if placement == "both":
        return SandboxResult(l), SandboxResult(r)
    if placement == "same-proxy":           # the very same proxy object on both sides (only with case["same"])
        p = SandboxResult(l)
        return p, p
    raise ValueError(placement)


PLACEMENTS = ["proxy-left", "proxy-right", "both"]


INFIX_SYMBOL = {"__add__": "+", "__sub__": "-", "__mul__": "*", "__matmul__": "@", "__truediv__": "/",
                "__floordiv__": "//", "__mod__": "%", "__pow__": "**", "__lshift__": "<<", "__rshift__": ">>",
                "__and__": "&", "__xor__": "^", "__or__": "|", "__lt__": "<", "__le__": "<=", "__gt__": ">",
                "__ge__": ">=", "__eq__": "==", "__ne__": "!="}
_INFIX_CACHE = {}


def infix_function(op):
    """The operator written as source text (`a + b`) rather than through the operator module."""
    if op not in _INFIX_CACHE:
        _INFIX_CACHE[op] = eval("lambda a, b: a %s b" % INFIX_SYMBOL[op]) if op in INFIX_SYMBOL else BINARY[op][1]
    return _INFIX_CACHE[op]


def case_function(case):
    fam, op = case["family"], case["op"]
    if fam in ("binary", "comparison"):
        if case.get("spelling") == "infix":
            return infix_function(op)
        return BINARY[op][1]
    if fam in ("unary", "conversion"):
        return CONV[op][0]
    if fam == "container":
        return CONV[op][0] if op in CONV else CONTAINER2[op]
    if fam == "isinstance":
        return isinstance
    if fam == "extra":
        return EXTRA[op]
    if fam == "len_fn":
        return result_mod.len
    raise ValueError(fam)


def case_operands(case):
    """-> env, raw args list, proxied args list"""
    env = build_classes(case.get("classes", []))
    fam = case["family"]
    if fam in ("binary", "comparison"):
        l, r = build_value(case["left"], env), build_value(case["right"], env)
        if case.get("same"):
            r = l       # ONE object on both sides (x == x, x < x ...): identity shortcuts must not replace the object's own answer
        return env, [l, r], list(place(case["placement"], l, r))
    if fam in ("unary", "conversion") or (fam == "container" and case["op"] in CONV):
        v = build_value(case["left"], env)
        return env, [v], [SandboxResult(v)]
    if fam == "container":
        c, k = build_value(case["left"], env), build_value(case["right"], env)
        # placement "both": the key / needle is a call() result as well (search only; the model has no such request)
        return env, [c, k], [SandboxResult(c), SandboxResult(k) if case.get("placement") == "both" else k]
    if fam == "isinstance":
        v = build_value(case["left"], env)
        c = env[case["cls"]]
        return env, [v, c], [SandboxResult(v), c]
    if fam == "extra":
        vals = [build_value(v, env) for v in case["args"]]
        prox = [SandboxResult(v) if i in case["proxied"] else v for i, v in enumerate(vals)]
        return env, vals, prox
    if fam == "len_fn":
        v = build_value(case["left"], env)
        if case["placement"] == "raw":
            return env, [v], [v]
        return env, [v], [SandboxResult(v)]
    raise ValueError(fam)


def run_case(case):
    """-> (real, got): outcomes on the raw operands and on the proxied operands."""
    f = case_function(case)
    _, raw, prox = case_operands(case)
    if case["family"] == "len_fn":
        real = run(len, *raw)
    else:
        real = run(f, *raw)
    got = run(f, *prox)       # same underlying objects: none of the listed operations mutates its operands
    return real, got


def oracle(case, real, got):
    """The property, read off its text.  None if it holds on this case, else (signature, what)."""
    why = None
    if got[3] != "":
        why = "writes to stdout: %r" % got[3][:40]
    elif real[0] == "ok":
        if got[0] != "ok":
            why = "raises %s where the raw value gives %r" % (got[1], real[1])
        elif got[1] is NotImplemented and real[1] is not NotImplemented:
            why = "hands back NotImplemented where the raw value gives %r" % (real[1],)
        elif not same_value(real[1], got[1]):
            why = "gives %r where the raw value gives %r" % (got[1], real[1])
    else:
        if got[0] == "ok":
            if got[1] is NotImplemented:
                why = "hands back NotImplemented where the raw value raises %s" % real[1]
            else:
                why = "succeeds with %r where the raw value raises %s" % (got[1], real[1])
    if why is None:
        return None
    return signature(case), "%s: %s" % (describe(case), why)


def kind_of(vs, case=None):
    if vs["kind"] != "user":
        return vs["kind"]
    return "user"


def plain_operands(case):
    fam = case["family"]
    if fam in ("binary", "comparison"):
        return {"proxy-left": [case["right"]], "proxy-right": [case["left"]]}.get(case["placement"], [])
    if fam == "container" and "right" in case:
        return [case["right"]] if case.get("placement") != "both" else []
    if fam == "extra":
        return [a for i, a in enumerate(case["args"]) if i not in case["proxied"]]
    if fam == "len_fn" and case["placement"] == "raw":
        return [case["left"]]
    return []


_SHADOWED = None


def shadowed_names():
    """Attribute names for which `proxy.<name>` does NOT give (a proxy of) the wrapped object's own attribute of that
    name - measured on the tree under test."""
    global _SHADOWED
    if _SHADOWED is None:
        voc = vocabulary()
        out = set()
        for n in voc["tier1"] + voc["tier2"] + voc["variants"]:
            class Holder:
                pass
            sentinel = object()
            h = Holder()
            try:
                object.__setattr__(h, n, sentinel)
                if unwrap(getattr(SandboxResult(h), n)) is not sentinel:
                    out.add(n)
            except Exception:       # noqa
                out.add(n)
        _SHADOWED = out
    return _SHADOWED


def peer_reads(spec):
    """attribute names a class's dunders read from the OTHER operand"""
    names = {r[2] for rules in spec.get("dunders", {}).values() for r in rules if len(r) > 2 and r[1] == "peer"}
    if spec.get("shape") == "dataclass":        # the generated __eq__ compares the fields of both operands
        names |= {a[0] for a in spec.get("attrs", []) if a[1] == "inst"}
    return names


def proxied_operands(case):
    fam = case["family"]
    if fam in ("binary", "comparison"):
        return {"proxy-left": [case["left"]], "proxy-right": [case["right"]],
                "both": [case["left"], case["right"]]}[case["placement"]]
    if fam == "extra":
        return [a for i, a in enumerate(case["args"]) if i in case["proxied"]]
    if fam == "len_fn" and case["placement"] == "raw":
        return []
    if fam == "container" and case.get("placement") == "both":
        return [case["left"], case["right"]]
    return [case["left"]]


def structural_cause(case):
    """Narrow structural conditions under which a deviation has a cause of its own (each is one open finding, not a
    cell of the operator table):
      plain-operand-getattr-raises  a PLAIN operand whose class's __getattr__ raises something other than AttributeError
                                    for the proxy's reserved names (class AttrDict(dict): __getattr__ = dict.__getitem__)
      student-dunder-reads-shadowed-attribute   a PLAIN operand whose own (Python-level) dunder reads, from the proxied
                                    other operand, a public attribute the proxy keeps for itself (`value`):
                                    Card(3) == proxy(Card(3)) evaluates 3 == <the Card> inside Card.__eq__
      student-dunder-reads-dynamic-attribute    the same, for an attribute the proxied object's class provides through
                                    its own __getattr__ / __getattribute__ (the proxy forwards with
                                    object.__getattribute__, which skips them)
      value-overrides-__class__     a PROXIED value whose class answers __class__ with another class: isinstance()
                                    (also inside student dunders) sees only the claimed class, not the real one"""
    if not any(("catch" in s or s.get("shape") == "attrdict" or s.get("klass") or peer_reads(s))
               for s in case.get("classes", [])):
        return None
    env = build_classes(case["classes"])
    by_name = {s["name"]: s for s in case["classes"]}
    plain = plain_operands(case)
    proxied = proxied_operands(case)
    for v in proxied:
        if v["kind"] == "user" and by_name[v["cls"]].get("klass"):
            if case["family"] == "isinstance" and not issubclass(env[v["cls"]], env[case["cls"]]):
                continue        # only the REAL class is lost behind the proxy; the claimed one must still answer
            return "value-overrides-__class__"
    if proxied:
        reads = set()
        for v in plain:
            if v["kind"] == "user":
                reads |= peer_reads(by_name[v["cls"]])
        if any(n in shadowed_names() for n in reads):
            return "student-dunder-reads-shadowed-attribute"
        for v in proxied:
            if v["kind"] != "user":
                continue
            obj = build_value(v, env)
            for n in reads:
                a, b = run(getattr, obj, n), run(object.__getattribute__, obj, n)
                if a[0] != b[0] or (a[0] == "ok" and a[1] is not b[1] and not same_value(a[1], b[1])):
                    return "student-dunder-reads-dynamic-attribute"
    for v in plain:
        if v["kind"] != "user":
            continue
        obj = build_value(v, env)
        for n in vocabulary()["private"]:
            try:
                getattr(obj, n)
            except AttributeError:
                pass
            except Exception:       # noqa
                return "plain-operand-getattr-raises"
    return None


def signature(case):
    fam = case["family"]
    cause = structural_cause(case)
    if cause:
        return {"cause": cause}
    sig = {"op": case["op"]}
    if fam in ("binary", "comparison"):
        sig.update(left=kind_of(case["left"]), right=kind_of(case["right"]), placement=case["placement"])
        if case.get("same"):
            sig.update(same_object=True)
        if case["left"]["kind"] == "user" and case["right"]["kind"] == "user" and case["placement"] == "proxy-right" \
                and subclass_reflected_first(case):
            sig = {"op": "binary", "cause": "subclass-reflected-first", "placement": "proxy-right"}
    elif fam == "extra":
        sig.update(args=[kind_of(a) for a in case["args"]], proxied=list(case["proxied"]))
    elif fam == "isinstance":
        sig.update(value=kind_of(case["left"]), cls=case["cls"] if case["cls"] in BUILTIN_CLASSES else "user")
    elif fam == "len_fn":
        sig.update(value=kind_of(case["left"]), placement=case["placement"])
    else:
        sig.update(value=kind_of(case["left"]))
        if "right" in case:
            sig.update(arg=kind_of(case["right"]))
            if case.get("placement") == "both":
                sig.update(placement="both")
    return sig


def subclass_reflected_first(case):
    """CPython tries the right operand's reflected method first when its class is a proper subclass of the left
    operand's class (and, for arithmetic, overrides the method).  A proxy on the right hides that relation."""
    env = build_classes(case.get("classes", []))
    cl, cr = env[case["left"]["cls"]], env[case["right"]["cls"]]
    if cl is cr or not issubclass(cr, cl):
        return False
    rd = BINARY[case["op"]][0]
    a, b = getattr(cr, rd, None), getattr(cl, rd, None)
    if a is None:
        return False
    return case["op"] in CMP_NAMES or a is not b


def describe(case):
    fam = case["family"]

    def show(vs):
        return vs["expr"] if vs["kind"] != "user" else "%s()" % vs["cls"]
    if fam in ("binary", "comparison"):
        l, r = show(case["left"]), show(case["right"])
        if case["placement"] in ("proxy-left", "both"):
            l = "P(%s)" % l
        if case["placement"] in ("proxy-right", "both"):
            r = "P(%s)" % r
        return "%s(%s, %s)" % (case["op"], l, r)
    if fam == "extra":
        return "%s(%s)" % (case["op"], ", ".join(("P(%s)" % show(a)) if i in case["proxied"] else show(a)
                                                 for i, a in enumerate(case["args"])))
    if fam == "isinstance":
        return "isinstance(P(%s), %s)" % (show(case["left"]), case["cls"])
    if fam == "len_fn":
        return "pedal.sandbox.result.len(%s)" % (show(case["left"]) if case["placement"] == "raw" else "P(%s)" % show(case["left"]))
    if "right" in case:
        return "%s(P(%s), %s)" % (case["op"], show(case["left"]),
                                  ("P(%s)" if case.get("placement") == "both" else "%s") % show(case["right"]))
    return "%s(P(%s))" % (case["op"], show(case["left"]))


def case_key(case):
    return json.dumps(case, sort_keys=True)

"""
Shared machinery for every ./check Cxx run.

One run = translate -> prove (lake build + axiom audit + forbidden-token grep)
         -> correspond (real pedal vs the Lean model through the driver)
         -> search (real pedal vs the property's oracle, looking for a failing input)
         -> decide -> evidence.

Nothing here is property specific; property scripts (harness/cXX.py) supply
callbacks and call `run_check`.
"""
import argparse
import contextlib
import fcntl
import hashlib
import json
import os
import random
import re
import subprocess
import sys
import time
import traceback

VERIF = os.path.dirname(os.path.dirname(os.path.abspath(__file__)))
REPO = os.environ.get("VERIF_REPO", "/repo")
LEAN_DIR = os.path.join(VERIF, "lean")
BIN_DIR = os.path.join(LEAN_DIR, ".lake", "build", "bin")
GUARD = "PEDAL_EDU_PEDAL_VERIF"

ALLOWED_AXIOMS = {"propext", "Classical.choice", "Quot.sound"}
FORBIDDEN = re.compile(
    r"\bsorry\b|\badmit\b|^\s*axiom\s|native_decide|bv_decide|implemented_by|\bunsafe\s|maxHeartbeats\s+0\b")


def use_repo():
    """Make `import pedal` resolve to the tree under test (REPO), hooks enabled."""
    os.environ.setdefault(GUARD, "1")
    if REPO not in sys.path:
        sys.path.insert(0, REPO)
    import pedal  # noqa
    got = os.path.dirname(os.path.dirname(os.path.abspath(pedal.__file__)))
    if os.path.realpath(got) != os.path.realpath(REPO):
        raise RuntimeError("pedal imported from %s, expected %s" % (got, REPO))


# --------------------------------------------------------------------------
# wire encoding (see lean/PedalModel/Wire.lean)

def enc_str(s):
    return "x" + s.encode("utf-8").hex()


def enc_opt(s):
    return "-" if s is None else enc_str(s)


def enc_bool(b):
    return "1" if b else "0"


def dec_str(tok):
    assert tok.startswith("x"), tok
    return bytes.fromhex(tok[1:]).decode("utf-8")


def dec_opt(tok):
    return None if tok == "-" else dec_str(tok)


def parse_kv(line):
    """`ok a=1 b=x41` -> ('ok', {'a': '1', 'b': 'x41'})"""
    parts = line.strip().split(" ")
    head = parts[0]
    kv = {}
    for p in parts[1:]:
        if "=" in p:
            k, v = p.split("=", 1)
            kv[k] = v
    return head, kv


# --------------------------------------------------------------------------
# Lean side

@contextlib.contextmanager
def lake_lock():
    path = os.path.join(LEAN_DIR, ".lake.lock.verif")
    os.makedirs(LEAN_DIR, exist_ok=True)
    with open(path, "w") as fh:
        fcntl.flock(fh, fcntl.LOCK_EX)
        try:
            yield
        finally:
            fcntl.flock(fh, fcntl.LOCK_UN)


def write_if_changed(path, content):
    old = None
    if os.path.exists(path):
        with open(path, encoding="utf-8") as fh:
            old = fh.read()
    if old != content:
        os.makedirs(os.path.dirname(path), exist_ok=True)
        with open(path, "w", encoding="utf-8") as fh:
            fh.write(content)
        return True
    return False


def lake_build(targets, timeout=1500):
    """Returns (ok, log)."""
    with lake_lock():
        p = subprocess.run(["lake", "build"] + list(targets), cwd=LEAN_DIR,
                           capture_output=True, text=True, timeout=timeout)
    return p.returncode == 0, (p.stdout + p.stderr)


def lean_str(s):
    """A Lean string literal for s (ASCII-safe escapes)."""
    out = ['"']
    for ch in s:
        o = ord(ch)
        if ch == '"':
            out.append('\\"')
        elif ch == "\\":
            out.append("\\\\")
        elif ch == "\n":
            out.append("\\n")
        elif ch == "\t":
            out.append("\\t")
        elif 32 <= o < 127:
            out.append(ch)
        else:
            out.append("\\u{%x}" % o)
    out.append('"')
    return "".join(out)


def lean_list(items):
    return "[" + ", ".join(items) + "]"


def strip_lean_comments(src):
    # block comments (nested not handled beyond one level; good enough for a grep)
    src = re.sub(r"/-.*?-/", "", src, flags=re.S)
    src = re.sub(r"--.*", "", src)
    return src


def lean_module_file(mod):
    return os.path.join(LEAN_DIR, *mod.split(".")) + ".lean"


def module_closure(mods):
    """All project-local modules transitively imported by `mods`."""
    seen, todo = [], list(mods)
    while todo:
        m = todo.pop()
        if m in seen:
            continue
        f = lean_module_file(m)
        if not os.path.exists(f):
            continue
        seen.append(m)
        with open(f, encoding="utf-8") as fh:
            for line in fh:
                mm = re.match(r"\s*(?:public\s+)?import\s+([\w.]+)", line)
                if mm and mm.group(1).split(".")[0] in ("PedalModel", "PedalProofs", "PedalSpec"):
                    todo.append(mm.group(1))
    return sorted(seen)


def forbidden_hits(mods):
    hits = []
    for m in module_closure(mods):
        with open(lean_module_file(m), encoding="utf-8") as fh:
            src = strip_lean_comments(fh.read())
        for i, line in enumerate(src.splitlines(), 1):
            if FORBIDDEN.search(line):
                hits.append("%s:%d: %s" % (m, i, line.strip()[:120]))
    return hits


def audit_axioms(proof_module, theorems, timeout=600):
    """Run `#print axioms` for every theorem; returns dict name -> list of axioms,
    or name -> None when the theorem does not exist / did not compile."""
    body = "import %s\n" % proof_module + "".join("#print axioms %s\n" % t for t in theorems)
    path = os.path.join(LEAN_DIR, ".audit_%s_%d.lean" % (proof_module.replace(".", "_"), os.getpid()))
    with open(path, "w") as fh:
        fh.write(body)
    try:
        p = subprocess.run(["lake", "env", "lean", path], cwd=LEAN_DIR, capture_output=True,
                           text=True, timeout=timeout)
    finally:
        os.unlink(path)
    out = p.stdout + p.stderr
    res = {t: None for t in theorems}
    # messages look like: "'thm' depends on axioms: [propext, Quot.sound]" possibly multi-line,
    # or "'thm' does not depend on any axioms"
    flat = re.sub(r"\s+", " ", out)
    for t in theorems:
        m = re.search(r"'%s' depends on axioms: \[([^\]]*)\]" % re.escape(t), flat)
        if m:
            res[t] = [a.strip() for a in m.group(1).split(",") if a.strip()]
        elif re.search(r"'%s' does not depend on any axioms" % re.escape(t), flat):
            res[t] = []
    return res, out


class Driver:
    """Batch line protocol: write all requests, read all answers."""

    def __init__(self, exe):
        self.exe = exe
        self.path = os.path.join(BIN_DIR, exe)
        self.available = os.path.exists(self.path)

    def ask(self, lines, timeout=900):
        if not lines:
            return []
        data = "\n".join(lines) + "\n"
        assert all("\n" not in l for l in lines)
        p = subprocess.run([self.path], input=data, capture_output=True, text=True, timeout=timeout)
        if p.returncode != 0:
            raise RuntimeError("driver failed: " + p.stderr[-2000:])
        out = p.stdout.split("\n")
        if out and out[-1] == "":
            out.pop()
        if len(out) != len(lines):
            raise RuntimeError("driver answered %d lines for %d requests" % (len(out), len(lines)))
        return out


# --------------------------------------------------------------------------
# known findings

def load_known_findings(prop):
    path = os.path.join(VERIF, "KNOWN_FINDINGS.jsonl")
    res = []
    if os.path.exists(path):
        with open(path) as fh:
            for line in fh:
                line = line.strip()
                if not line or line.startswith("#"):
                    continue
                rec = json.loads(line)
                if rec.get("property") == prop and rec.get("status") == "open":
                    res.append(rec)
    return res


def canon(obj):
    return json.dumps(obj, sort_keys=True, default=str)


# --------------------------------------------------------------------------
# results

class Failure:
    """A concrete input on which the REAL code breaks the property."""

    def __init__(self, signature, what, replay):
        self.signature = signature      # small JSON-able dict identifying the root cause
        self.what = what                # one line of prose
        self.replay = replay            # JSON-able: enough to re-run it


class CorrResult:
    def __init__(self):
        self.evaluations = 0
        self.nontrivial = set()
        self.samples = []
        self.disagreements = []     # list of dicts {case, real, model}
        self.distribution = {}
        self.rule = ""
        self.skipped = None         # reason string if correspondence could not run

    def count(self, key, n=1):
        self.distribution[key] = self.distribution.get(key, 0) + n


def write_replay(prop, payload):
    os.makedirs(os.path.join(VERIF, "replays"), exist_ok=True)
    h = hashlib.sha1(canon(payload).encode()).hexdigest()[:12]
    rel = "replays/%s-%s.json" % (prop, h)
    with open(os.path.join(VERIF, rel), "w") as fh:
        json.dump(payload, fh, indent=1, sort_keys=True, default=str)
    return rel


def git_head(path):
    try:
        return subprocess.run(["git", "-C", path, "rev-parse", "--short", "HEAD"], capture_output=True,
                              text=True).stdout.strip()
    except Exception:
        return "?"


def std_args(argv=None):
    ap = argparse.ArgumentParser()
    ap.add_argument("--tier", default=os.environ.get("VERIF_TIER", "quick"), choices=["quick", "thorough"])
    ap.add_argument("--replay", default=None)
    ap.add_argument("--no-lean", action="store_true", help="debug: skip the Lean build (never used by MANIFEST)")
    return ap.parse_args(argv)


def get_seed():
    try:
        return int(os.environ.get("VERIF_SEED", "0"))
    except ValueError:
        return 0


def run_check(prop, *, proof_modules, theorems, driver_exe, translate=None, correspond=None, search=None,
              replay=None, refuted_full=None, unproved_full=None, model_notes=None, trusted_extra=None,
              level="proof", leanchecker_modules=None):
    """
    proof_modules : Lean modules holding this property's theorems (first one is imported by the audit).
    theorems      : fully qualified theorem names = the proof obligations.
    translate()   -> dict of info (e.g. generated file hashes); may raise -> translator broken.
    correspond(rng, tier, driver) -> CorrResult
    search(rng, tier, broken) -> (list[Failure], info dict)   (broken=True => larger budget)
    replay(path)  -> prints both sides for a stored replay.
    """
    args = std_args()
    seed = get_seed()
    t0 = time.time()
    if args.replay:
        if replay is None:
            print("no replay support for", prop)
            return 2
        with open(args.replay if os.path.isabs(args.replay) else os.path.join(VERIF, args.replay)) as fh:
            payload = json.load(fh)
        return replay(payload) or 0

    tier = args.tier
    rng = random.Random((seed << 8) ^ int(hashlib.sha1(prop.encode()).hexdigest()[:6], 16))
    broken = []          # list of (kind, detail) for proof/correspondence breakage
    info = {"repo_head": git_head(REPO), "verif_head": git_head(VERIF)}

    # 1. translate
    if translate is not None:
        try:
            info["translate"] = translate()
        except Exception as e:  # translator cannot read the source any more
            broken.append(("translator", "%s: %s" % (type(e).__name__, e)))
            info["translate_error"] = traceback.format_exc()[-1500:]

    # 2. prove
    axioms = {}
    discharged = 0
    build_log = ""
    if not args.no_lean:
        # the driver first: models may be fine while a proof is not
        ok_drv, drv_log = lake_build([driver_exe])
        if not ok_drv:
            broken.append(("model-build", "lake build %s failed" % driver_exe))
            info["driver_build_log_tail"] = drv_log[-3000:]
            try:
                os.unlink(os.path.join(BIN_DIR, driver_exe))
            except OSError:
                pass
        ok, build_log = lake_build(list(proof_modules))
        if not ok:
            failing = sorted(set(re.findall(r"error: (\S+?\.lean):\d+", build_log)))
            broken.append(("proof-build", "lake build failed in: %s" % (", ".join(failing) or "?")))
            info["build_log_tail"] = build_log[-3000:]
        hits = forbidden_hits(proof_modules)
        if hits:
            broken.append(("forbidden-token", "; ".join(hits[:5])))
        if ok:
            axioms, audit_out = audit_axioms(proof_modules[0], theorems)
            for t in theorems:
                ax = axioms.get(t)
                if ax is None:
                    broken.append(("theorem-missing", t))
                elif not set(ax) <= ALLOWED_AXIOMS:
                    broken.append(("axioms", "%s depends on %s" % (t, ax)))
                else:
                    discharged += 1
        if tier == "thorough" and ok and leanchecker_modules:
            try:
                p = subprocess.run(["lake", "env", "leanchecker"] + list(leanchecker_modules), cwd=LEAN_DIR,
                                   capture_output=True, text=True, timeout=1800)
                info["leanchecker"] = {"rc": p.returncode, "tail": (p.stdout + p.stderr)[-300:]}
                if p.returncode != 0:
                    broken.append(("leanchecker", (p.stdout + p.stderr)[-300:]))
            except subprocess.TimeoutExpired:
                info["leanchecker"] = {"rc": "timeout"}

    # 3. correspond
    corr = CorrResult()
    driver = Driver(driver_exe)
    if correspond is not None:
        if not driver.available:
            corr.skipped = "driver binary missing (model does not build)"
            broken.append(("correspondence", corr.skipped))
        else:
            try:
                corr = correspond(rng, tier, driver)
            except Exception as e:
                corr.skipped = "harness error: %s: %s" % (type(e).__name__, e)
                info["corr_error"] = traceback.format_exc()[-3000:]
                broken.append(("correspondence", corr.skipped))
        if corr.disagreements:
            broken.append(("correspondence", "%d of %d cases disagree" % (len(corr.disagreements), corr.evaluations)))

    # 4. search
    failures, sinfo = [], {}
    if search is not None:
        try:
            failures, sinfo = search(rng, tier, bool(broken), corr)
        except Exception as e:
            info["search_error"] = traceback.format_exc()[-3000:]
            broken.append(("search", "harness error: %s: %s" % (type(e).__name__, e)))

    # 5. decide
    known = load_known_findings(prop)
    known_sigs = {canon(k["signature"]): k for k in known}
    new, seen_known = [], {}
    for f in failures:
        k = known_sigs.get(canon(f.signature))
        if k is not None:
            seen_known.setdefault(canon(f.signature), (k, f))
        else:
            new.append(f)
    lines = []
    for sig, (k, f) in seen_known.items():
        lines.append("KNOWN-FINDING: property=%s %s" % (prop, k.get("what", f.what)))
    violations = 0
    reported = set()
    for f in new:
        cs = canon(f.signature)
        if cs in reported:
            continue
        reported.add(cs)
        rel = write_replay(prop, {"property": prop, "kind": "failing-input", "signature": f.signature,
                                  "what": f.what, "replay": f.replay, "seed": seed, "tier": tier,
                                  "broken": broken})
        lines.append("VIOLATION property=%s replay=%s" % (prop, rel))
        violations += 1
    if broken and not new:
        rel = write_replay(prop, {"property": prop, "kind": "no-failing-input-found",
                                  "no_longer_checks": [{"kind": k, "detail": d} for k, d in broken],
                                  "disagreements": corr.disagreements[:5], "seed": seed, "tier": tier,
                                  "build_log_tail": build_log[-2000:] if build_log else ""})
        lines.append("VIOLATION property=%s replay=%s no-failing-input-found" % (prop, rel))
        violations += 1
    for l in lines:
        print(l)

    # 6. evidence
    wall = time.time() - t0
    cov = {
        "obligations": len(theorems),
        "discharged": discharged,
        "checker_cmd": "cd lean && lake build %s && lake env lean <#print axioms audit>" % " ".join(proof_modules),
        "trusted_base": [
            "Lean 4 kernel (lake build%s)" % ("; leanchecker re-check" if tier == "thorough" and leanchecker_modules else ""),
            "axioms used: %s" % sorted({a for v in axioms.values() if v for a in v}),
            "translator/correspondence harness in /verif/harness (Python)",
            "CPython 3.12 semantics for everything the model takes as a parameter",
        ] + list(trusted_extra or []),
        "theorems": {t: axioms.get(t) for t in theorems},
        "evaluations": corr.evaluations + int(sinfo.get("evaluations", 0)),
        "distinct_nontrivial": len(corr.nontrivial) + int(sinfo.get("distinct_nontrivial", 0)),
        "rule": corr.rule + (" | search: " + sinfo.get("rule", "") if sinfo else ""),
        "samples": (corr.samples[:4] + list(sinfo.get("samples", []))[:4]) or ["(none)"],
        "traces_validated_against_impl": corr.evaluations,
        "correspondence": {"cases": corr.evaluations, "disagreements": len(corr.disagreements),
                           "skipped": corr.skipped, "distribution": corr.distribution},
        "search": {k: v for k, v in sinfo.items() if k not in ("samples",)},
        "known_findings_seen": [k.get("what") for k, _ in seen_known.values()],
        "refuted_full_statements": refuted_full or [],
        "unproved_full_statements": unproved_full or [],
        "broken": [{"kind": k, "detail": d} for k, d in broken],
        "info": info,
    }
    ev = {
        "property_id": prop, "tier": tier, "seed": seed, "level": level, "coverage": cov,
        "assumptions": list(model_notes or []), "wall_s": round(wall, 2), "violations": violations,
    }
    # evidence/<id>.json is only ever written by a real run against /repo itself; runs against a scratch
    # worktree (seeded-change experiments) or with the debug flag go to evidence/scratch/ (git-ignored), so a
    # record measured on a patched tree or without the proofs can never be committed by accident.
    official = os.path.realpath(REPO) == os.path.realpath("/repo") and not args.no_lean
    ev_dir = os.path.join(VERIF, "evidence") if official else os.path.join(VERIF, "evidence", "scratch")
    if not official:
        ev["coverage"]["info"]["not_official"] = "VERIF_REPO=%s no_lean=%s" % (REPO, args.no_lean)
    os.makedirs(ev_dir, exist_ok=True)
    with open(os.path.join(ev_dir, prop + ".json"), "w") as fh:
        json.dump(ev, fh, indent=1, default=str)
    print("%s tier=%s seed=%d proofs=%d/%d corr=%d cases (%d disagree) search=%s failures=%d known=%d wall=%.1fs" % (
        prop, tier, seed, discharged, len(theorems), corr.evaluations, len(corr.disagreements),
        sinfo.get("evaluations", 0), len(new), len(seen_known), wall))
    return 1 if violations else 0

"""
Regenerates lean/PedalModel/Gen/TimeoutGen.lean from the tree under test (C14).

Four facts about the "one side finalizes a timed-out execution" protocol; three read from the AST:
  claim        pedal/sandbox/timeout.py: `timeout()` has an `if` whose test calls `.is_alive()` AND
               `.claim_finish()` before terminating the thread;  AND  pedal/sandbox/sandbox.py:
               `Sandbox._stop_mocking` has, before it stops the patches, an `if` whose test calls
               `_claim_finish()` and whose body raises / returns.   (Only one of the two present is
               not a protocol: the translator refuses -> "translator broken".)
  handlerPops  the `except TimeoutError` handler of `Sandbox._execute_with_timeout` pops
               `self._current_stdout` (or calls `self._stop_mocking`)
  handlerBumps ... and advances `self._next_context_id`
and one observed on the imported module (no timing involved: the thread has been joined):
  termTolerant `InterruptableThread.terminate()` on a thread that has already ended returns normally
               (the pinned tree fails `assert self.is_alive()`); however the repair is written.
The control flow of the two threads is hand-modelled (PedalModel/TimeoutMachine.lean) and tied to the
code by running the real code under forced schedules (hooks) against the model.
"""
import ast
import hashlib
import os

from common import LEAN_DIR, REPO, write_if_changed

OUT = os.path.join(LEAN_DIR, "PedalModel", "Gen", "TimeoutGen.lean")


def _calls_attr(node, attr):
    return any(isinstance(n, ast.Call) and isinstance(n.func, ast.Attribute) and n.func.attr == attr
               for n in ast.walk(node))


def _is_self_attr(node, attr):
    return (isinstance(node, ast.Attribute) and node.attr == attr and isinstance(node.value, ast.Name)
            and node.value.id == "self")


def _function(tree, name, cls=None):
    for node in ast.walk(tree):
        if cls is not None:
            if isinstance(node, ast.ClassDef) and node.name == cls:
                for sub in node.body:
                    if isinstance(sub, ast.FunctionDef) and sub.name == name:
                        return sub
        elif isinstance(node, ast.FunctionDef) and node.name == name:
            return node
    return None


def facts():
    with open(os.path.join(REPO, "pedal", "sandbox", "timeout.py"), encoding="utf-8") as fh:
        ttree = ast.parse(fh.read())
    with open(os.path.join(REPO, "pedal", "sandbox", "sandbox.py"), encoding="utf-8") as fh:
        stree = ast.parse(fh.read())
    tfn = _function(ttree, "timeout")
    if tfn is None:
        raise ValueError("pedal.sandbox.timeout.timeout not found")
    grader_claims = False
    for node in ast.walk(tfn):
        if isinstance(node, ast.If) and _calls_attr(node.test, "is_alive") and _calls_attr(node, "terminate"):
            grader_claims = _calls_attr(node.test, "claim_finish")
    sm = _function(stree, "_stop_mocking", "Sandbox")
    if sm is None:
        raise ValueError("Sandbox._stop_mocking not found")
    student_checks = False
    for stmt in sm.body:
        if _calls_attr(stmt, "_stop_patches"):
            break
        if isinstance(stmt, ast.If) and _calls_attr(stmt.test, "_claim_finish") and any(
                isinstance(n, (ast.Raise, ast.Return)) for b in stmt.body for n in ast.walk(b)):
            student_checks = True
    if grader_claims != student_checks:
        raise ValueError("half a claim protocol: timeout() claims=%s, _stop_mocking checks=%s"
                         % (grader_claims, student_checks))
    ewt = _function(stree, "_execute_with_timeout", "Sandbox")
    if ewt is None:
        raise ValueError("Sandbox._execute_with_timeout not found")
    handler = None
    for node in ast.walk(ewt):
        if isinstance(node, ast.ExceptHandler) and isinstance(node.type, ast.Name) and node.type.id == "TimeoutError":
            handler = node
    if handler is None:
        raise ValueError("no `except TimeoutError` handler in Sandbox._execute_with_timeout")
    pops = _calls_attr(handler, "_stop_mocking") or any(
        isinstance(n, ast.Call) and isinstance(n.func, ast.Attribute) and n.func.attr == "pop"
        and _is_self_attr(n.func.value, "_current_stdout") for n in ast.walk(handler))
    bumps = any(isinstance(n, ast.AugAssign) and _is_self_attr(n.target, "_next_context_id") for n in ast.walk(handler))
    return {"claim": grader_claims, "handlerPops": pops, "handlerBumps": bumps, "termTolerant": term_tolerant()}


def term_tolerant():
    import importlib
    mod = importlib.import_module("pedal.sandbox.timeout")
    if os.path.realpath(mod.__file__) != os.path.realpath(os.path.join(REPO, "pedal", "sandbox", "timeout.py")):
        raise RuntimeError("pedal.sandbox.timeout imported from %s, not from the tree under test" % mod.__file__)
    t = mod.InterruptableThread(lambda: None, (), {})
    t.start()
    t.join()
    try:
        t.terminate()
    except Exception:
        return False
    return True


def translate():
    f = facts()
    b = lambda v: "true" if v else "false"
    src = "\n".join([
        "/- GENERATED by harness/translate_timeout.py from the tree under test. Do not edit. -/",
        "namespace Pedal.Gen.Timeout",
        "",
        "/-- `timeout()` abandons the thread only after winning `claim_finish()` AND `Sandbox._stop_mocking`",
        "starts by checking `_claim_finish()` -/",
        "def claim : Bool := " + b(f["claim"]),
        "/-- the `except TimeoutError` handler pops the execution's stdout buffer and appends its output -/",
        "def handlerPops : Bool := " + b(f["handlerPops"]),
        "/-- the `except TimeoutError` handler advances `_next_context_id` -/",
        "def handlerBumps : Bool := " + b(f["handlerBumps"]),
        "/-- `InterruptableThread.terminate()` on a thread that has already ended returns normally -/",
        "def termTolerant : Bool := " + b(f["termTolerant"]),
        "",
        "end Pedal.Gen.Timeout",
        "",
    ])
    changed = write_if_changed(OUT, src)
    f.update({"file": os.path.relpath(OUT, LEAN_DIR), "sha1": hashlib.sha1(src.encode()).hexdigest()[:12],
              "changed": changed})
    return f


if __name__ == "__main__":
    print(translate())

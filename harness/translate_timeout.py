"""
Regenerates lean/PedalModel/Gen/TimeoutGen.lean from the tree under test (C14).

The interleaving machine (lean/PedalModel/TimeoutMachine.lean) is parameterised by four protocol facts.  Three of
them are about three pieces of code, and for each piece this module emits TWO decision trees in the IR of
lean/PedalModel/TimeoutIR.lean (questions asked, observable operations in order, how the piece ends):

  grader    pedal/sandbox/timeout.py  `timeout()`:  is_alive / claim_finish / terminate / TimeoutError
  student   pedal/sandbox/sandbox.py  `Sandbox._stop_mocking`:  claim check before stop-patches / pop / append_output
            (question `timed`: "is this the execution the current thread was started for?" - asked only by a tree
            that tells that execution from others finishing on the same thread; read from
            `getattr(current_thread(), <mark>, None) is <the context parameter>`, measured by comparing `_stop_mocking`
            reached through the real threaded execution path with `_stop_mocking` called directly on a thread with
            a claim: equal runs = the tree does not ask)
  handler   pedal/sandbox/sandbox.py  `Sandbox._execute_with_timeout` from the moment `timeout(...)` raises
            TimeoutError:  stop-patches / pop stdout / append_output / capture / id bump

  ...Ast    symbolic execution of the Python AST: locals are followed (a flag stored before the `if`, a result held in
            a local), private helper functions / methods are INLINED (`self._helper(...)`, `thread.helper()`, module
            level `_helper(...)`, static methods, default arguments), conditions are split compositionally (and / or /
            not / conditional expression / `is None` / `len(x) > 0`, short-circuit order kept) into the questions they
            ask, early `return` / `raise` / `else` / try-except-finally all end up as the same tree.  What is not
            understood becomes an `opaque` operation / an `other` question / an `opaque` cut - never a default.
  ...Probe  the same tree MEASURED: the real function is run on instrumented objects (a stub subclass of the real
            InterruptableThread; a Sandbox subclass whose stacks / id / finalization methods log; `timeout` replaced by
            a function that raises TimeoutError) once per answer to the questions, and the logged traces are merged.

Lean computes the facts from the trees (all answers evaluated), AST first, measurement as fallback and cross-check
(TimeoutIR.combine).  The fourth fact is only measured (no timing involved: the thread has been joined):
  termTolerant `InterruptableThread.terminate()` on a thread that has already ended returns normally.
"""
import ast
import hashlib
import io
import os
import threading

from common import LEAN_DIR, REPO, write_if_changed

OUT = os.path.join(LEAN_DIR, "PedalModel", "Gen", "TimeoutGen.lean")

DEFAULT_CLAIM_NAME = "claim_finish"
NODE_BUDGET = 40000
MAX_DEPTH = 8


# ----------------------------------------------------------------------------------------------------------------
# trees

class Table:
    """comment table of the generated file: what the numbered `other` questions / `opaque` operations are"""

    def __init__(self):
        self.texts = []
        self.index = {}

    def idx(self, key, text):
        if key not in self.index:
            self.index[key] = len(self.texts)
            self.texts.append(" ".join(str(text).split())[:160])
        return self.index[key]


class TooBig(Exception):
    pass


def leaf(x):
    return ("leaf", x)


def lean_atom(a):
    return "(.other %d)" % a[1] if isinstance(a, tuple) else "." + a


def lean_eff(e):
    return "(.opaque %d)" % e[1] if isinstance(e, tuple) else "." + e


def lean_tree(t, indent=2):
    pad = " " * indent
    if t[0] == "leaf":
        return "%s(.leaf .%s)" % (pad, t[1])
    if t[0] == "opaque":
        return "%s(.opaque %d)" % (pad, t[1])
    if t[0] == "eff":
        # a run of operations on one line each, the continuation at the same indent (keeps deep chains readable)
        return "%s(.eff %s\n%s)" % (pad, lean_eff(t[1]), lean_tree(t[2], indent))
    if t[0] == "ask":
        return "%s(.ask %s\n%s\n%s)" % (pad, lean_atom(t[1]), lean_tree(t[2], indent + 2), lean_tree(t[3], indent + 2))
    raise ValueError(t)


def tree_size(t):
    if t[0] == "eff":
        return 1 + tree_size(t[2])
    if t[0] == "ask":
        return 1 + tree_size(t[2]) + tree_size(t[3])
    return 1


def has_events(t):
    """does the tree contain any operation or any recognised question (not only `other` questions)?"""
    if t[0] == "eff" or t[0] == "opaque":
        return True
    if t[0] == "ask":
        return (not isinstance(t[1], tuple)) or has_events(t[2]) or has_events(t[3])
    return t[1] not in ("fall",)


# ----------------------------------------------------------------------------------------------------------------
# symbolic values

class Sym:
    __slots__ = ("kind", "data")

    def __init__(self, kind, data=None):
        self.kind, self.data = kind, data

    def __repr__(self):
        return "Sym(%s,%r)" % (self.kind, self.data)


TRUE, FALSE, NONE, OPAQUE = Sym("const", True), Sym("const", False), Sym("const", None), Sym("opaque")
TAINTING = {"self", "thread", "stdouts", "patches", "contexts"}      # passing these to unknown code may change them
NOT_NONE = {"self", "thread", "stdouts", "patches", "contexts", "buf", "text", "exc", "curthread", "selfattr_method",
            "claimfn_bound", "modfunc", "builtin", "cls_thread", "cls_sandbox", "mod"}
ALWAYS_TRUE = {"self", "thread", "buf", "exc", "curthread", "claimfn_bound", "modfunc", "builtin", "cls_thread",
               "cls_sandbox", "mod"}
TRACKED = {"_current_stdout": "stdouts", "_current_patches": "patches", "_context": "contexts"}
EXC_NAMES = {"TimeoutError", "SystemExit", "BaseException", "Exception", "ValueError", "RuntimeError", "KeyboardInterrupt",
             "AssertionError", "TypeError", "IndexError", "KeyError", "AttributeError", "OSError", "SystemError"}
PURE_BUILTINS = {"len", "bool", "isinstance", "type", "str", "repr", "int", "id", "print", "format", "tuple", "list",
                 "iter", "next", "callable", "any", "all", "sorted", "reversed", "enumerate", "zip", "range", "min", "max"}
PURE_METHODS = {"getvalue", "get", "keys", "values", "items", "copy", "format", "split", "rstrip", "strip", "lstrip", "join",
                "startswith", "endswith", "get_lines", "get_files_lines", "count", "index", "lower", "upper"}
CATCHES = {   # which handler types catch which raised kind
    "TimeoutError": {"TimeoutError", "OSError", "Exception", "BaseException", None},
    "SystemExit": {"SystemExit", "BaseException", None},
    "other": {"Exception", "BaseException", None},
}
EXIT_OF = {"TimeoutError": "raiseTimeout", "SystemExit": "raiseSystemExit", "other": "raiseOther"}


class Frame:
    __slots__ = ("env", "ret_k", "raise_k", "module", "depth", "stack", "cur_exc")

    def __init__(self, env, ret_k, raise_k, module, depth=0, stack=(), cur_exc=None):
        self.env, self.ret_k, self.raise_k, self.module = env, ret_k, raise_k, module
        self.depth, self.stack, self.cur_exc = depth, stack, cur_exc

    def set(self, name, val):
        env = dict(self.env)
        env[name] = val
        return Frame(env, self.ret_k, self.raise_k, self.module, self.depth, self.stack, self.cur_exc)

    def with_(self, **kw):
        f = Frame(self.env, self.ret_k, self.raise_k, self.module, self.depth, self.stack, self.cur_exc)
        for k, v in kw.items():
            setattr(f, k, v)
        return f


class Module:
    def __init__(self, name, path):
        self.name = name
        with open(path, encoding="utf-8") as fh:
            self.tree = ast.parse(fh.read())
        self.funcs = {n.name: n for n in self.tree.body if isinstance(n, ast.FunctionDef)}
        self.classes = {}
        for n in self.tree.body:
            if isinstance(n, ast.ClassDef):
                self.classes[n.name] = {m.name: m for m in n.body if isinstance(m, ast.FunctionDef)}


def decorator_names(fn):
    out = set()
    for d in fn.decorator_list:
        if isinstance(d, ast.Name):
            out.add(d.id)
        elif isinstance(d, ast.Attribute):
            out.add(d.attr)
    return out


class Exec:
    """CPS symbolic executor: every function returns a tree; `k` is what happens next."""

    def __init__(self, modules, table, claim_name):
        self.modules, self.table, self.claim_name = modules, table, claim_name
        self.nodes = 0

    # -- tree construction (budgeted)
    def _tick(self):
        self.nodes += 1
        if self.nodes > NODE_BUDGET:
            raise TooBig("more than %d tree nodes" % NODE_BUDGET)

    def eff(self, e, k):
        self._tick()
        return ("eff", e, k())

    def ask(self, a, kt, kf):
        self._tick()
        return ("ask", a, kt(), kf())

    def opaque_eff(self, node, why, k):
        n = self.table.idx(("eff", id(node)), "%s: %s" % (why, unparse(node)))
        return self.eff(("opaque", n), k)

    def other(self, node, kt, kf):
        n = self.table.idx(("cond", id(node)), "condition: " + unparse(node))
        return self.ask(("other", n), kt, kf)

    # -- names / attributes
    def global_name(self, name, fr):
        mod = self.modules[fr.module]
        if name == "InterruptableThread":
            return Sym("cls_thread")
        if name == "Sandbox":
            return Sym("cls_sandbox")
        if name in EXC_NAMES:
            return Sym("exc", name)
        if name in ("threading", "sys"):
            return Sym("mod", name)
        if name == "timeout" and fr.module == "sandbox":
            return Sym("fn_timeout")
        if name in ("current_thread", "currentThread"):
            return Sym("fn_curthread")
        if name in mod.funcs:
            return Sym("modfunc", name)
        if name in ("getattr", "hasattr") or name in PURE_BUILTINS:
            return Sym("builtin", name)
        return OPAQUE

    def attr(self, base, name):
        k = base.kind
        if k == "self":
            if name in TRACKED:
                return Sym(TRACKED[name])
            if name == "_next_context_id":
                return Sym("nextid")
            if name == "__class__":
                return Sym("cls_sandbox")
            return Sym("selfattr", name)
        if k in ("selfattr", "derived"):
            return Sym("derivedattr", name)       # something reached through the sandbox: `self.x.y`
        if k == "cls_sandbox":
            return Sym("selfattr", name)
        if k == "thread":
            return Sym("threadattr", name)
        if k == "curthread":
            # any other attribute of the current thread may be the mark "the execution this thread was started for"
            return Sym("claimfn_bound") if name == self.claim_name else Sym("threadmark", name)
        if k == "mod":
            if base.data == "threading" and name in ("current_thread", "currentThread"):
                return Sym("fn_curthread")
            if base.data == "sys" and name == "exit":
                return Sym("fn_sysexit")
            return OPAQUE
        if k == "stdouts":
            return Sym("stdoutsattr", name)
        if k == "patches":
            return Sym("patchesattr", name)
        if k == "contexts":
            return Sym("contextsattr", name)
        if k == "buf":
            return Sym("bufattr", name)
        return OPAQUE

    # -- expressions
    def ev_list(self, nodes, fr, k, acc=None):
        acc = [] if acc is None else acc
        if not nodes:
            return k(acc)
        return self.ev(nodes[0], fr, lambda v: self.ev_list(nodes[1:], fr, k, acc + [v]))

    def ev(self, n, fr, k):
        if n is None:
            return k(NONE)
        if isinstance(n, ast.Constant):
            return k(Sym("const", n.value))
        if isinstance(n, ast.Name):
            if n.id in fr.env:
                return k(fr.env[n.id])
            return k(self.global_name(n.id, fr))
        if isinstance(n, ast.Attribute):
            return self.ev(n.value, fr, lambda b: k(self.attr(b, n.attr)))
        if isinstance(n, ast.Call):
            return self.call(n, fr, k)
        if isinstance(n, (ast.BoolOp, ast.Compare)) or (isinstance(n, ast.UnaryOp) and isinstance(n.op, ast.Not)):
            return self.cond(n, fr, lambda: k(TRUE), lambda: k(FALSE))
        if isinstance(n, ast.IfExp):
            return self.cond(n.test, fr, lambda: self.ev(n.body, fr, k), lambda: self.ev(n.orelse, fr, k))
        if isinstance(n, ast.NamedExpr):
            return self.ev(n.value, fr, k)      # (the binding itself is not followed)
        if isinstance(n, ast.Starred):
            return self.ev(n.value, fr, lambda v: k(OPAQUE))
        if isinstance(n, ast.Lambda):
            return k(OPAQUE)
        if isinstance(n, ast.Subscript):
            def on_base(b):
                reached = b.kind in ("selfattr", "derived", "contexts", "stdouts", "patches")
                return self.ev(n.slice, fr, lambda i: k(Sym("derived") if reached else OPAQUE))
            return self.ev(n.value, fr, on_base)
        kids = [c for c in ast.iter_child_nodes(n) if isinstance(c, ast.expr)]
        return self.ev_list(kids, fr, lambda vs: k(OPAQUE))

    def truthy(self, v, node, kt, kf):
        k = v.kind
        if k == "const":
            return kt() if v.data else kf()
        if k == "stdouts":
            return self.ask("haveStdout", kt, kf)
        if k == "claimfn":
            return self.ask("plain", kf, kt)         # truthy = there IS a claim to make
        if k in ALWAYS_TRUE:
            return kt()
        return self.other(node, kt, kf)

    def is_none(self, v, node, kt, kf):
        k = v.kind
        if k == "const":
            return kt() if v.data is None else kf()
        if k == "claimfn":
            return self.ask("plain", kt, kf)
        if k in NOT_NONE:
            return kf()
        return self.other(node, kt, kf)

    def cond(self, n, fr, kt, kf):
        if isinstance(n, ast.BoolOp):
            vals = list(n.values)
            if isinstance(n.op, ast.And):
                def go(i):
                    if i == len(vals):
                        return kt()
                    return self.cond(vals[i], fr, lambda: go(i + 1), kf)
                return go(0)

            def go_or(i):
                if i == len(vals):
                    return kf()
                return self.cond(vals[i], fr, kt, lambda: go_or(i + 1))
            return go_or(0)
        if isinstance(n, ast.UnaryOp) and isinstance(n.op, ast.Not):
            return self.cond(n.operand, fr, kf, kt)
        if isinstance(n, ast.IfExp):
            return self.cond(n.test, fr, lambda: self.cond(n.body, fr, kt, kf), lambda: self.cond(n.orelse, fr, kt, kf))
        if isinstance(n, ast.Compare) and len(n.ops) == 1:
            op, left, right = n.ops[0], n.left, n.comparators[0]
            none_l = isinstance(left, ast.Constant) and left.value is None
            none_r = isinstance(right, ast.Constant) and right.value is None
            if isinstance(op, (ast.Is, ast.IsNot, ast.Eq, ast.NotEq)) and (none_l or none_r) and not (none_l and none_r):
                other_side = right if none_l else left
                neg = isinstance(op, (ast.IsNot, ast.NotEq))
                return self.ev(other_side, fr, lambda v: self.is_none(v, n, kf if neg else kt, kt if neg else kf))
            # len(<stdout stack>) <op> <int>
            if (isinstance(left, ast.Call) and isinstance(left.func, ast.Name) and left.func.id == "len"
                    and len(left.args) == 1 and isinstance(right, ast.Constant) and isinstance(right.value, int)
                    and not isinstance(right.value, bool)):
                c = right.value
                nonempty = {(ast.Gt, 0): True, (ast.NotEq, 0): True, (ast.GtE, 1): True,
                            (ast.Eq, 0): False, (ast.Lt, 1): False, (ast.LtE, 0): False}.get((type(op), c))

                def on_arg(v):
                    if v.kind == "stdouts" and nonempty is not None:
                        return self.ask("haveStdout", kt, kf) if nonempty else self.ask("haveStdout", kf, kt)
                    return self.other(n, kt, kf)
                return self.ev(left.args[0], fr, on_arg)
            if isinstance(op, (ast.Is, ast.IsNot, ast.Eq, ast.NotEq)):
                # two constants (flags held in locals compared with True / False)
                def both(vs):
                    a, b = vs
                    if {a.kind, b.kind} == {"threadmark", "ctx"}:
                        # `getattr(current_thread(), <mark>, None) is context`: is the execution being finalized the one
                        # this thread was started for?
                        if isinstance(op, (ast.IsNot, ast.NotEq)):
                            return self.ask("timed", kf, kt)
                        return self.ask("timed", kt, kf)
                    if a.kind == "const" and b.kind == "const":
                        same = (a.data is b.data) if isinstance(op, (ast.Is, ast.IsNot)) else (a.data == b.data)
                        if isinstance(op, (ast.IsNot, ast.NotEq)):
                            same = not same
                        return kt() if same else kf()
                    return self.other(n, kt, kf)
                return self.ev_list([left, right], fr, both)
            return self.ev_list([left, right], fr, lambda vs: self.other(n, kt, kf))
        if isinstance(n, ast.Compare):
            return self.ev_list([n.left] + list(n.comparators), fr, lambda vs: self.other(n, kt, kf))
        return self.ev(n, fr, lambda v: self.truthy(v, n, kt, kf))

    # -- calls
    def call(self, n, fr, k):
        def with_func(f):
            kwnodes = [kw.value for kw in n.keywords]

            def with_args(vals):
                args = vals[:len(n.args)]
                kwargs = {kw.arg: v for kw, v in zip(n.keywords, vals[len(n.args):])}
                star = any(isinstance(a, ast.Starred) for a in n.args) or any(kw.arg is None for kw in n.keywords)
                return self.dispatch(n, f, args, kwargs, star, fr, k)
            return self.ev_list(list(n.args) + kwnodes, fr, with_args)
        return self.ev(n.func, fr, with_func)

    def dispatch(self, n, f, args, kwargs, star, fr, k):
        kind = f.kind
        allvals = list(args) + list(kwargs.values())
        if kind == "threadattr":
            name = f.data
            if name == "is_alive":
                return self.ask("alive", lambda: k(TRUE), lambda: k(FALSE))
            if name == self.claim_name:
                return self.ask("claim", lambda: k(TRUE), lambda: k(FALSE))
            if name == "start":
                return self.eff("start", lambda: k(NONE))
            if name == "join":
                timed = any(not (v.kind == "const" and v.data is None) for v in allvals) or star
                return self.eff("joinTimed" if timed else "joinFull", lambda: k(NONE))
            if name == "terminate":
                return self.eff("terminate", lambda: k(NONE))
            meth = self.modules["timeout"].classes.get("InterruptableThread", {}).get(name)
            if meth is not None:
                return self.inline(meth, Sym("thread"), args, kwargs, star, fr.with_(module="timeout"), k)
            return self.opaque_eff(n, "unknown method of the thread", lambda: k(OPAQUE))
        if kind == "cls_thread":
            return k(Sym("thread"))
        if kind == "selfattr":
            name = f.data
            if name == "_stop_patches":
                return self.eff("stopPatches", lambda: k(NONE))
            if name == "append_output":
                return self.eff("appendOutput", lambda: k(NONE))
            if name == "_capture_exception":
                return self.eff("capture", lambda: k(OPAQUE))
            meth = self.modules["sandbox"].classes.get("Sandbox", {}).get(name)
            if meth is not None:
                if args and args[0].kind == "self" and "staticmethod" not in decorator_names(meth) and len(args) > (
                        len(meth.args.posonlyargs) + len(meth.args.args) - 1):
                    args = args[1:]           # `Sandbox.method(self, ...)`
                return self.inline(meth, Sym("self"), args, kwargs, star, fr.with_(module="sandbox"), k)
            return self.opaque_eff(n, "unknown method of the sandbox", lambda: k(OPAQUE))
        if kind == "stdoutsattr":
            if f.data == "pop":
                return self.eff("popStdout", lambda: k(Sym("buf")))
            if f.data in ("copy", "count", "index", "__len__"):
                return k(OPAQUE)
            return self.opaque_eff(n, "operation on the stdout stack", lambda: k(OPAQUE))
        if kind == "patchesattr":
            if f.data == "pop":
                return self.eff("stopPatches", lambda: k(OPAQUE))
            if f.data in ("copy", "count", "index", "__len__"):
                return k(OPAQUE)
            return self.opaque_eff(n, "operation on the patch stack", lambda: k(OPAQUE))
        if kind == "contextsattr":
            if f.data in ("copy", "count", "index", "__len__"):
                return k(OPAQUE)
            return self.opaque_eff(n, "operation on the context list", lambda: k(OPAQUE))
        if kind == "derivedattr":
            # a method of an object reached through the sandbox (`self.report.x()`, `self.__dict__[...].pop()`): it may
            # well be one of the stacks under another name - not understood, so no NEGATIVE fact may rest on it
            if f.data in PURE_METHODS:
                return k(OPAQUE)
            return self.opaque_eff(n, "method of an object reached through the sandbox", lambda: k(OPAQUE))
        if kind == "bufattr":
            return k(Sym("text"))            # `.getvalue()` of the popped buffer: a string, never None
        if kind == "fn_curthread":
            return k(Sym("curthread"))
        if kind == "builtin" and f.data in ("getattr", "hasattr"):
            if (len(args) >= 2 and args[0].kind in ("curthread", "thread") and args[1].kind == "const"
                    and args[1].data == self.claim_name):
                if f.data == "hasattr":
                    return self.ask("plain", lambda: k(FALSE), lambda: k(TRUE))
                if len(args) == 3 and args[2].kind == "const" and args[2].data is None:
                    return k(Sym("claimfn"))
                return k(Sym("claimfn_bound"))
            if (f.data == "getattr" and len(args) in (2, 3) and args[0].kind == "curthread" and args[1].kind == "const"
                    and isinstance(args[1].data, str) and not star):
                return k(Sym("threadmark", args[1].data))     # (its default, if any, is not the context object)
            if any(v.kind in ("curthread", "thread") for v in args[:1]):
                return k(OPAQUE)
            if args and args[0].kind == "self" and len(args) >= 2 and args[1].kind == "const" and isinstance(args[1].data, str):
                return k(self.attr(args[0], args[1].data))
            return k(OPAQUE)
        if kind in ("claimfn", "claimfn_bound"):
            return self.ask("claim", lambda: k(TRUE), lambda: k(FALSE))
        if kind == "fn_sysexit":
            return fr.raise_k("SystemExit")
        if kind == "exc":
            return k(Sym("exc", f.data))
        if kind == "fn_timeout":
            return fr.raise_k("TimeoutError")
        if kind == "modfunc":
            if f.data == "_verif_sync":
                return k(NONE)
            return self.inline(self.modules[fr.module].funcs[f.data], None, args, kwargs, star, fr, k)
        if kind == "builtin":
            return k(OPAQUE)
        # unknown callee: harmless unless it is handed one of the objects the facts are about
        if any(v.kind in TAINTING for v in allvals):
            return self.opaque_eff(n, "unknown call receiving sandbox/thread state", lambda: k(OPAQUE))
        return k(OPAQUE)

    def inline(self, fn, self_val, args, kwargs, star, fr, k):
        if fr.depth >= MAX_DEPTH or fn.name in fr.stack:
            return self.opaque_eff(fn, "recursive / too deep helper %s" % fn.name, lambda: k(OPAQUE))
        a = fn.args
        params = [p.arg for p in a.posonlyargs + a.args]
        decos = decorator_names(fn)
        env = {}
        if self_val is not None and "staticmethod" not in decos:
            if params:
                env[params[0]] = Sym("cls_sandbox") if ("classmethod" in decos and self_val.kind == "self") else self_val
                params = params[1:]
        defaults = list(a.defaults)
        dmap = {}
        allparams = [p.arg for p in a.posonlyargs + a.args]
        for p, d in zip(allparams[len(allparams) - len(defaults):], defaults):
            dmap[p] = d
        for p, d in zip(a.kwonlyargs, a.kw_defaults):
            if d is not None:
                dmap[p.arg] = d
        for i, p in enumerate(params):
            if i < len(args) and not star:
                env[p] = args[i]
            elif p in kwargs:
                env[p] = kwargs[p]
            elif star:
                env[p] = OPAQUE
            elif p in dmap and isinstance(dmap[p], ast.Constant):
                env[p] = Sym("const", dmap[p].value)
            else:
                env[p] = OPAQUE
        for p in a.kwonlyargs:
            if p.arg in kwargs:
                env[p.arg] = kwargs[p.arg]
            elif p.arg in dmap and isinstance(dmap[p.arg], ast.Constant):
                env[p.arg] = Sym("const", dmap[p.arg].value)
            else:
                env[p.arg] = OPAQUE
        if a.vararg:
            env[a.vararg.arg] = OPAQUE
        if a.kwarg:
            env[a.kwarg.arg] = OPAQUE
        inner = Frame(env, lambda v: k(v), fr.raise_k, fr.module, fr.depth + 1, fr.stack + (fn.name,), fr.cur_exc)
        return self.block(fn.body, inner, lambda f2: k(NONE))

    # -- statements
    def block(self, stmts, fr, k):
        if not stmts:
            return k(fr)
        return self.stmt(stmts[0], fr, lambda f2: self.block(stmts[1:], f2, k))

    def assigned_names(self, stmts):
        out = set()
        for s in stmts:
            for n in ast.walk(s):
                if isinstance(n, ast.Name) and isinstance(n.ctx, ast.Store):
                    out.add(n.id)
        return out

    def assign_target(self, t, v, node, value_node, fr, k):
        if isinstance(t, ast.Name):
            return k(fr.set(t.id, v))
        if isinstance(t, (ast.Tuple, ast.List)):
            f2 = fr
            for name in self.assigned_names([ast.Expr(value=t)]) | {e.id for e in t.elts if isinstance(e, ast.Name)}:
                f2 = f2.set(name, OPAQUE)
            return k(f2)
        if isinstance(t, ast.Attribute):
            def on_base(b):
                if b.kind == "self" and t.attr == "_next_context_id":
                    if self.is_next_id_plus_one(value_node, fr):
                        return self.eff("bump", lambda: k(fr))
                    return self.opaque_eff(node, "assignment to _next_context_id", lambda: k(fr))
                if b.kind == "self" and t.attr in TRACKED:
                    return self.opaque_eff(node, "assignment to " + t.attr, lambda: k(fr))
                return k(fr)
            return self.ev(t.value, fr, on_base)
        if isinstance(t, ast.Subscript):
            def on_base(b):
                if b.kind in ("stdouts", "patches", "contexts"):
                    return self.opaque_eff(node, "item assignment", lambda: k(fr))
                return k(fr)
            return self.ev(t.value, fr, on_base)
        return k(fr)

    def is_next_id_plus_one(self, value_node, fr):
        """`self._next_context_id + 1` / `1 + self._next_context_id` (directly or through a local holding the id)"""
        if not (isinstance(value_node, ast.BinOp) and isinstance(value_node.op, ast.Add)):
            return False

        def is_one(x):
            return isinstance(x, ast.Constant) and x.value == 1 and not isinstance(x.value, bool)

        def is_id(x):
            if isinstance(x, ast.Attribute) and x.attr == "_next_context_id" and isinstance(x.value, ast.Name):
                return fr.env.get(x.value.id, OPAQUE).kind == "self"
            if isinstance(x, ast.Name):
                return fr.env.get(x.id, OPAQUE).kind == "nextid"
            return False
        return (is_id(value_node.left) and is_one(value_node.right)) or (is_one(value_node.left) and is_id(value_node.right))

    def stmt(self, s, fr, k):
        if isinstance(s, ast.Expr):
            return self.ev(s.value, fr, lambda v: k(fr))
        if isinstance(s, ast.Assign):
            def on_val(v):
                def go(i, f2):
                    if i == len(s.targets):
                        return k(f2)
                    return self.assign_target(s.targets[i], v, s, s.value, f2, lambda f3: go(i + 1, f3))
                return go(0, fr)
            return self.ev(s.value, fr, on_val)
        if isinstance(s, ast.AnnAssign):
            if s.value is None:
                return k(fr)
            return self.ev(s.value, fr, lambda v: self.assign_target(s.target, v, s, s.value, fr, k))
        if isinstance(s, ast.AugAssign):
            t = s.target
            if isinstance(t, ast.Attribute):
                def on_base(b):
                    if b.kind == "self" and t.attr == "_next_context_id":
                        one = isinstance(s.value, ast.Constant) and s.value.value == 1 and not isinstance(s.value.value, bool)
                        if isinstance(s.op, ast.Add) and one:
                            return self.eff("bump", lambda: k(fr))
                        return self.opaque_eff(s, "update of _next_context_id", lambda: k(fr))
                    if b.kind == "self" and t.attr in TRACKED:
                        return self.opaque_eff(s, "update of " + t.attr, lambda: k(fr))
                    return self.ev(s.value, fr, lambda v: k(fr))
                return self.ev(t.value, fr, on_base)
            if isinstance(t, ast.Name):
                return self.ev(s.value, fr, lambda v: k(fr.set(t.id, OPAQUE)))
            return self.ev(s.value, fr, lambda v: k(fr))
        if isinstance(s, ast.If):
            return self.cond(s.test, fr, lambda: self.block(s.body, fr, k), lambda: self.block(s.orelse, fr, k))
        if isinstance(s, ast.Return):
            return self.ev(s.value, fr, lambda v: fr.ret_k(v))
        if isinstance(s, ast.Raise):
            if s.exc is None:
                return fr.raise_k(fr.cur_exc or "other")

            def on_exc(v):
                name = v.data if v.kind == "exc" else None
                return fr.raise_k(name if name in ("TimeoutError", "SystemExit") else "other")
            return self.ev(s.exc, fr, on_exc)
        if isinstance(s, ast.Try):
            return self.try_(s, fr, k)
        if isinstance(s, ast.With):
            return self.ev_list([i.context_expr for i in s.items], fr, lambda vs: self.block(s.body, fr, k))
        if isinstance(s, (ast.For, ast.While)):
            head = s.iter if isinstance(s, ast.For) else s.test

            def after_head(v):
                f2 = fr
                for name in self.assigned_names([s]):
                    f2 = f2.set(name, OPAQUE)
                scan = Frame(f2.env, lambda v: leaf("ret"), lambda kind: leaf(EXIT_OF[kind]), f2.module, f2.depth,
                             f2.stack, f2.cur_exc)
                body_tree = self.block(s.body, scan, lambda f3: leaf("fall"))
                if has_events(body_tree):
                    return self.opaque_eff(s, "loop whose body does something", lambda: self.block(s.orelse, f2, k))
                return self.block(s.orelse, f2, k)
            return self.ev(head, fr, after_head)
        if isinstance(s, ast.Assert):
            return self.ev(s.test, fr, lambda v: k(fr))
        if isinstance(s, ast.Delete):
            def go(i):
                if i == len(s.targets):
                    return k(fr)
                t = s.targets[i]
                if isinstance(t, (ast.Subscript, ast.Attribute)):
                    return self.ev(t.value, fr, lambda b: self.opaque_eff(s, "del", lambda: go(i + 1))
                                   if b.kind in ("stdouts", "patches", "contexts", "self") else go(i + 1))
                return go(i + 1)
            return go(0)
        if isinstance(s, (ast.FunctionDef, ast.ClassDef)):
            return k(fr.set(s.name, OPAQUE))
        # pass, global, nonlocal, import, break, continue
        return k(fr)

    def try_(self, s, fr, k):
        fin = s.finalbody

        def after(f2):
            return self.block(fin, f2, k) if fin else k(f2)

        def ret_through(v):
            return self.block(fin, fr, lambda f2: fr.ret_k(v)) if fin else fr.ret_k(v)

        def raise_out(kind):
            return self.block(fin, fr, lambda f2: fr.raise_k(kind)) if fin else fr.raise_k(kind)

        def raise_in_body(kind):
            for h in s.handlers:
                names = []
                if h.type is None:
                    names = [None]
                elif isinstance(h.type, ast.Tuple):
                    names = [e.id if isinstance(e, ast.Name) else "?" for e in h.type.elts]
                elif isinstance(h.type, ast.Name):
                    names = [h.type.id]
                else:
                    names = ["?"]
                if any(nm in CATCHES[kind] for nm in names):
                    hf = fr.with_(ret_k=ret_through, raise_k=raise_out, cur_exc=kind)
                    if h.name:
                        hf = hf.set(h.name, Sym("exc", kind if kind != "other" else "Exception"))
                    return self.block(h.body, hf, lambda f2: after(f2.with_(ret_k=fr.ret_k, raise_k=fr.raise_k,
                                                                            cur_exc=fr.cur_exc)))
            return raise_out(kind)

        body_fr = fr.with_(ret_k=ret_through, raise_k=raise_in_body)

        def after_body(f2):
            f3 = f2.with_(ret_k=ret_through, raise_k=raise_out)
            return self.block(s.orelse, f3, lambda f4: after(f4.with_(ret_k=fr.ret_k, raise_k=fr.raise_k)))
        return self.block(s.body, body_fr, after_body)

    # -- entry
    def run(self, module, fn, env):
        fr = Frame(env, lambda v: leaf("ret"), lambda kind: leaf(EXIT_OF[kind]), module, 0, (fn.name,))
        return self.block(fn.body, fr, lambda f2: leaf("fall"))


def unparse(node):
    try:
        if isinstance(node, (ast.FunctionDef, ast.For, ast.While)):
            return ast.unparse(node).split("\n")[0]
        return ast.unparse(node)
    except Exception:
        return type(node).__name__


def find_claim_name(smod, tmod=None):
    """the name under which sandbox.py looks the claim method up on the current thread (`getattr` / `hasattr` with a
    constant name on `current_thread()` or on a local); when several attributes of the thread are looked up (the claim
    and the mark of the execution the thread was started for) it is the one that is a method of InterruptableThread"""
    names = set()
    for n in ast.walk(smod.tree):
        if (isinstance(n, ast.Call) and isinstance(n.func, ast.Name) and n.func.id in ("getattr", "hasattr")
                and len(n.args) >= 2 and isinstance(n.args[1], ast.Constant) and isinstance(n.args[1].value, str)
                and ("current_thread" in ast.dump(n.args[0])
                     or (isinstance(n.args[0], ast.Name) and "thread" in n.args[0].id.lower()))):
            names.add(n.args[1].value)
    if len(names) > 1 and tmod is not None:
        methods = set(tmod.classes.get("InterruptableThread", {}))
        names = {x for x in names if x in methods} or names
    return names.pop() if len(names) == 1 else DEFAULT_CLAIM_NAME


def param_env(fn, first=None):
    env = {}
    params = [p.arg for p in fn.args.posonlyargs + fn.args.args + fn.args.kwonlyargs]
    for i, p in enumerate(params):
        env[p] = first if (i == 0 and first is not None) else OPAQUE
    if fn.args.vararg:
        env[fn.args.vararg.arg] = OPAQUE
    if fn.args.kwarg:
        env[fn.args.kwarg.arg] = OPAQUE
    return env


def ast_trees(table):
    """-> ({'grader':tree,'student':tree,'handler':tree}, claim_name, notes)"""
    notes = {}
    modules = {"timeout": Module("timeout", os.path.join(REPO, "pedal", "sandbox", "timeout.py")),
               "sandbox": Module("sandbox", os.path.join(REPO, "pedal", "sandbox", "sandbox.py"))}
    claim_name = find_claim_name(modules["sandbox"], modules["timeout"])
    out = {}

    def attempt(name, thunk):
        try:
            out[name] = thunk()
        except Exception as e:        # the reading of this piece failed: say so, the measurement may still know
            notes[name + "_ast_error"] = "%s: %s" % (type(e).__name__, e)
            out[name] = ("opaque", table.idx(("fail", name), "AST reading of %s failed: %s: %s" % (name, type(e).__name__, e)))

    def grader():
        fn = modules["timeout"].funcs.get("timeout")
        if fn is None:
            raise ValueError("pedal.sandbox.timeout.timeout not found")
        return Exec(modules, table, claim_name).run("timeout", fn, param_env(fn))

    def student():
        fn = modules["sandbox"].classes.get("Sandbox", {}).get("_stop_mocking")
        if fn is None:
            raise ValueError("Sandbox._stop_mocking not found")
        env = param_env(fn, Sym("self"))
        params = [p.arg for p in fn.args.posonlyargs + fn.args.args]
        if len(params) >= 2:
            env[params[1]] = Sym("ctx")          # the execution being finalized
        return Exec(modules, table, claim_name).run("sandbox", fn, env)

    def handler():
        cls = modules["sandbox"].classes.get("Sandbox", {})
        fn = cls.get("_execute_with_timeout")
        if fn is not None:
            return Exec(modules, table, claim_name).run("sandbox", fn, param_env(fn, Sym("self")))
        fn = cls.get("_execute")
        if fn is None:
            raise ValueError("neither Sandbox._execute_with_timeout nor Sandbox._execute found")
        env = param_env(fn, Sym("self"))
        if "threaded" not in env:
            raise ValueError("Sandbox._execute has no `threaded` parameter")
        env["threaded"] = TRUE
        return Exec(modules, table, claim_name).run("sandbox", fn, env)

    attempt("grader", grader)
    attempt("student", student)
    attempt("handler", handler)
    return out, claim_name, notes


# ----------------------------------------------------------------------------------------------------------------
# measurement: the real functions on instrumented objects

def merge_traces(runs, table, what):
    """runs: list of (events, exit); an event is ('ask', atom, answer) or ('eff', name).  -> tree (a trie of the runs;
    runs that tell different stories after the same answers make the spot `opaque`)"""
    def build(rs, pos):
        if not rs:
            return ("opaque", table.idx(("probe-missing", what), "measurement of %s: no run with these answers" % what))
        heads = set()
        for ev, ex in rs:
            heads.add(ev[pos][:2] if pos < len(ev) else ("end", ex))
        if len(heads) != 1:
            return ("opaque", table.idx(("probe-diverge", what, pos), "measurement of %s: runs diverge %s" % (what, sorted(map(str, heads)))))
        h = heads.pop()
        if h[0] == "end":
            return leaf(h[1])
        if h[0] == "eff":
            return ("eff", h[1], build(rs, pos + 1))
        yes = [r for r in rs if r[0][pos][2]]
        no = [r for r in rs if not r[0][pos][2]]
        return ("ask", h[1], build(yes, pos + 1), build(no, pos + 1))
    return build(runs, 0)


def classify_exit(fn):
    """runs fn() -> exit kind"""
    try:
        fn()
    except TimeoutError:
        return "raiseTimeout"
    except SystemExit:
        return "raiseSystemExit"
    except BaseException:
        return "raiseOther"
    return "ret"


def import_tree_module(name, relpath):
    import importlib
    mod = importlib.import_module(name)
    if os.path.realpath(mod.__file__) != os.path.realpath(os.path.join(REPO, *relpath)):
        raise RuntimeError("%s imported from %s, not from the tree under test" % (name, mod.__file__))
    return mod


def probe_grader(table, claim_name):
    tmod = import_tree_module("pedal.sandbox.timeout", ("pedal", "sandbox", "timeout.py"))
    runs = []
    for alive in (True, False):
        for claim in (True, False):
            log = []

            def make_stub(alive=alive, claim=claim, log=log):
                class Stub(tmod.InterruptableThread):
                    def start(self):
                        log.append(("eff", "start"))

                    def join(self, timeout=None):
                        log.append(("eff", "joinTimed" if timeout is not None else "joinFull"))

                    def is_alive(self):
                        log.append(("ask", "alive", alive))
                        return alive

                    def terminate(self):
                        log.append(("eff", "terminate"))

                def claim_method(self):
                    log.append(("ask", "claim", claim))
                    return claim
                setattr(Stub, claim_name, claim_method)
                Stub.__name__ = "InterruptableThread"
                return Stub
            original = tmod.InterruptableThread
            tmod.InterruptableThread = make_stub()
            try:
                ex = classify_exit(lambda: tmod.timeout(0.01, lambda: None))
            finally:
                tmod.InterruptableThread = original
            runs.append((log, ex))
    # a run in which a question was not asked is the same run for both answers: the trie needs one copy
    uniq = []
    for r in runs:
        if r not in uniq:
            uniq.append(r)
    return merge_traces(uniq, table, "timeout()")


class LogList(list):
    """a stack that logs what is done to it"""

    def __init__(self, items, log, pop_name, what):
        list.__init__(self, items)
        self._log, self._pop_name, self._what = log, pop_name, what

    def pop(self, *a):
        self._log.append(("eff", self._pop_name))
        return list.pop(self, *a)

    def _other(name):
        def f(self, *a, **k):
            self._log.append(("eff", ("opaque-text", "%s.%s" % (self._what, name))))
            return getattr(list, name)(self, *a, **k)
        return f
    for _n in ("append", "extend", "insert", "remove", "clear", "__delitem__", "__setitem__", "__iadd__", "reverse", "sort"):
        locals()[_n] = _other(_n)
    del _n, _other


def make_probe_sandbox(log):
    """a real Sandbox (fresh report) of a logging subclass, inside one pretend execution: one context, one stdout
    buffer, one (empty) patch frame"""
    smod = import_tree_module("pedal.sandbox.sandbox", ("pedal", "sandbox", "sandbox.py"))
    from pedal.core.report import Report
    state = {"armed": False}

    class ProbeSandbox(smod.Sandbox):
        @property
        def _next_context_id(self):
            return self.__dict__["_c14_next_id"]

        @_next_context_id.setter
        def _next_context_id(self, v):
            old = self.__dict__.get("_c14_next_id")
            if state["armed"]:
                log.append(("eff", "bump") if (isinstance(old, int) and v == old + 1)
                           else ("eff", ("opaque-text", "_next_context_id set to something else than +1")))
            self.__dict__["_c14_next_id"] = v

        def append_output(self, *a, **k):
            if state["armed"]:
                log.append(("eff", "appendOutput"))
            return smod.Sandbox.append_output(self, *a, **k)

        def _capture_exception(self, *a, **k):
            if state["armed"]:
                log.append(("eff", "capture"))
            return None

        def __setattr__(self, name, value):
            if state["armed"] and name in ("_current_stdout", "_current_patches", "_context"):
                log.append(("eff", ("opaque-text", "%s replaced" % name)))
            object.__setattr__(self, name, value)

        def _stop_mocking(self, *a, **k):
            """when asked to (`arm_at_stop`): the finalization reached through the REAL execution path - whatever that
            path started is undone first, then the instruments are put in place and how it ends is recorded"""
            if not state.get("arm_at_stop"):
                return smod.Sandbox._stop_mocking(self, *a, **k)
            state["arm_at_stop"] = False
            for frame in reversed(list(self._current_patches)):
                for a_patch in (frame if isinstance(frame, (tuple, list)) else ()):
                    try:
                        a_patch.stop()
                    except Exception:
                        pass
            arm(self, state, log)
            try:
                smod.Sandbox._stop_mocking(self, *a, **k)
                state["exit"] = "fall"
            except TimeoutError:
                state["exit"] = "raiseTimeout"
                raise
            except SystemExit:
                state["exit"] = "raiseSystemExit"
                raise
            except BaseException:
                state["exit"] = "raiseOther"
                raise
            finally:
                state["armed"] = False
    sb = ProbeSandbox(report=Report())
    context = smod.SandboxContext(sb._next_context_id, "pass", "c14_probe.py", smod.SandboxContextKind.RUN, None, [], "",
                                  None, sb.report.submission)
    sb._context.append(context)
    return smod, sb, context, state


def arm(sb, state, log, with_stdout=True):
    buf = io.StringIO()
    buf.write("probe\n")
    sb._current_stdout = LogList([buf] if with_stdout else [], log, "popStdout", "_current_stdout")
    sb._current_patches = LogList([()], log, "stopPatches", "_current_patches")
    state["armed"] = True


def claim_thread_class(claim_name, claim, log):
    def claim_method(self, claim=claim, log=log):
        log.append(("ask", "claim", claim))
        return claim
    return type("C14ProbeThread", (threading.Thread,), {claim_name: claim_method})


def probe_student_timed(table, claim_name):
    """`_stop_mocking` of THE execution a thread with a claim was started for: the real threaded execution path
    (`_execute_with_timeout`, or `_execute(threaded=True)`) of a pretend execution of `pass`, with `timeout` replaced
    by a function that runs what it is given on a thread whose claim answers True / False - so whatever the tree
    does to tell that execution from others finishing on the thread (nothing at all, or a mark set on the thread on
    the way) happens by itself.  -> list of (events, exit), one per answer"""
    import sys
    import time
    runs = []
    for claim in (True, False):
        log = []
        smod, sb, context, state = make_probe_sandbox(log)
        fired = []
        cls = claim_thread_class(claim_name, claim, log)

        def fake_timeout(duration, func, *args, **kwargs):
            fired.append(1)
            th = cls(target=lambda: classify_exit(lambda: func(*args, **kwargs)))
            th.daemon = True
            th.start()
            th.join(20)
            if th.is_alive():
                raise RuntimeError("the execution did not end within 20 s")
        before = {"stdout": sys.stdout, "sleep": time.sleep, "modules": dict(sys.modules)}
        saved_timeout = smod.timeout
        smod.timeout = fake_timeout
        state["arm_at_stop"] = True
        try:
            if hasattr(sb, "_execute_with_timeout"):
                sb._execute_with_timeout("pass", "c14_probe.py", smod.SandboxContextKind.RUN)
            else:
                sb._execute("pass", "c14_probe.py", smod.SandboxContextKind.RUN, True)
        finally:
            smod.timeout = saved_timeout
            state["armed"] = False
            state["arm_at_stop"] = False
            # never leave the translator's own process patched (a lost claim leaves the execution unfinalized - that is
            # the protocol - and the instruments have replaced the stacks that knew what was started)
            sys.stdout = before["stdout"]
            time.sleep = before["sleep"]
            for k in list(sys.modules):
                if k not in before["modules"]:
                    del sys.modules[k]
            for k, v in before["modules"].items():
                if sys.modules.get(k) is not v:
                    sys.modules[k] = v
        if not fired:
            raise RuntimeError("the threaded execution path never called timeout()")
        if "exit" not in state:
            raise RuntimeError("the threaded execution path never reached _stop_mocking")
        runs.append((number_opaque(log, table, "_stop_mocking"), state["exit"]))
    return runs


def probe_student(table, claim_name, notes=None):
    runs = {}
    for plain in (True, False):
        runs[plain] = []
        for claim in ((True,) if plain else (True, False)):
            log = []
            smod, sb, context, state = make_probe_sandbox(log)
            arm(sb, state, log)
            result = {}

            def body(sb=sb, context=context, result=result):
                result["exit"] = classify_exit(lambda: sb._stop_mocking(context))
            if plain:
                th = threading.Thread(target=body)
            else:
                th = claim_thread_class(claim_name, claim, log)(target=body)
            th.daemon = True
            th.start()
            th.join(20)
            state["armed"] = False
            if "exit" not in result:
                raise RuntimeError("_stop_mocking did not return within 20 s")
            ex = "fall" if result["exit"] == "ret" else result["exit"]
            runs[plain].append((number_opaque(log, table, "_stop_mocking"), ex))
    # `runs[False]`: `_stop_mocking` called DIRECTLY on a thread with a claim = some execution that merely finishes
    # there.  The execution the thread was started for is measured through the real execution path.  A tree that does
    # not tell the two apart (every execution finishing on such a thread is raced for) gives the same runs twice: the
    # tree is then the one without the `timed` question.
    try:
        timed = probe_student_timed(table, claim_name)
    except Exception as e:
        if notes is not None:
            notes["student_timed_probe_error"] = "%s: %s" % (type(e).__name__, e)
        timed = None

    def uniq(rs):
        out = []
        for r in rs:
            if r not in out:
                out.append(r)
        return out
    ordinary = merge_traces(runs[True], table, "_stop_mocking (ordinary thread)")
    direct = merge_traces(uniq(runs[False]), table, "_stop_mocking (thread with a claim)")
    if timed is not None and timed == runs[False]:
        return ("ask", "plain", ordinary, direct)
    if timed is None:
        timed_tree = ("opaque", table.idx(("probe-fail", "student-timed"),
                                          "measurement of _stop_mocking through the threaded execution path failed"))
    else:
        timed_tree = merge_traces(uniq(timed), table, "_stop_mocking (the execution its thread was started for)")
    return ("ask", "plain", ordinary, ("ask", "timed", timed_tree, direct))


def number_opaque(log, table, what):
    out = []
    for ev in log:
        if ev[0] == "eff" and isinstance(ev[1], tuple):
            out.append(("eff", ("opaque", table.idx(("probe-eff", what, ev[1][1]), "measured in %s: %s" % (what, ev[1][1])))))
        else:
            out.append(ev)
    return out


def probe_handler(table):
    trees = {}
    for with_stdout in (True, False):
        log = []
        smod, sb, context, state = make_probe_sandbox(log)
        tmod = import_tree_module("pedal.sandbox.timeout", ("pedal", "sandbox", "timeout.py"))
        fired = []

        def fake_timeout(duration, func, *args, **kwargs):
            fired.append(1)
            raise TimeoutError("C14 probe: the time limit")
        saved = {}
        for m in (smod, tmod):
            if hasattr(m, "timeout"):
                saved[m] = m.timeout
                m.timeout = fake_timeout
        arm(sb, state, log, with_stdout)
        try:
            if hasattr(sb, "_execute_with_timeout"):
                call = lambda: sb._execute_with_timeout("pass", "c14_probe.py", smod.SandboxContextKind.RUN)
            else:
                call = lambda: sb._execute("pass", "c14_probe.py", smod.SandboxContextKind.RUN, True)
            ex = classify_exit(call)
        finally:
            state["armed"] = False
            for m, f in saved.items():
                m.timeout = f
        if not fired:
            raise RuntimeError("the threaded execution path never called timeout()")
        trees[with_stdout] = merge_traces([(number_opaque(log, table, "the TimeoutError handler"), ex)], table,
                                          "the TimeoutError handler")
    return ("ask", "haveStdout", trees[True], trees[False])


def probe_trees(table, claim_name):
    out, notes = {}, {}

    def attempt(name, thunk):
        real_stdout = __import__("sys").stdout
        try:
            out[name] = thunk()
        except Exception as e:
            notes[name + "_probe_error"] = "%s: %s" % (type(e).__name__, e)
            out[name] = ("opaque", table.idx(("probe-fail", name), "measurement of %s failed: %s: %s" % (name, type(e).__name__, e)))
        finally:
            __import__("sys").stdout = real_stdout
    attempt("grader", lambda: probe_grader(table, claim_name))
    attempt("student", lambda: probe_student(table, claim_name, notes))
    attempt("handler", lambda: probe_handler(table))
    return out, notes


def term_tolerant():
    mod = import_tree_module("pedal.sandbox.timeout", ("pedal", "sandbox", "timeout.py"))
    t = mod.InterruptableThread(lambda: None, (), {})
    t.start()
    t.join()
    try:
        t.terminate()
    except Exception:
        return False
    return True


# ----------------------------------------------------------------------------------------------------------------

def translate():
    table = Table()
    asts, claim_name, notes = ast_trees(table)
    probes, pnotes = probe_trees(table, claim_name)
    notes.update(pnotes)
    tolerant = term_tolerant()
    lines = [
        "import PedalModel.TimeoutIR",
        "/- GENERATED by harness/translate_timeout.py from the tree under test. Do not edit.",
        "   `...Ast`: symbolic execution of the source (helpers inlined, locals followed); `...Probe`: measured on the running",
        "   code.  Numbered questions / operations:",
    ]
    for i, t in enumerate(table.texts):
        lines.append("     %d  %s" % (i, t.replace("-/", "- /").replace("/-", "/ -")))
    lines += ["-/", "namespace Pedal.Gen.Timeout", "open Pedal.TimeoutIR", ""]
    docs = {
        "grader": "`timeout()` (pedal/sandbox/timeout.py)",
        "student": "`Sandbox._stop_mocking` (pedal/sandbox/sandbox.py), as run by the thread that executed the student's code",
        "handler": "`Sandbox._execute_with_timeout` from the moment `timeout(...)` raises TimeoutError",
    }
    for name in ("grader", "student", "handler"):
        lines.append("/-- %s, read from the source -/" % docs[name])
        lines.append("def %sAst : Tree :=\n%s" % (name, lean_tree(asts[name])))
        lines.append("/-- %s, measured -/" % docs[name])
        lines.append("def %sProbe : Tree :=\n%s" % (name, lean_tree(probes[name])))
        lines.append("")
    lines += [
        "/-- `InterruptableThread.terminate()` on a thread that has already ended returns normally (measured) -/",
        "def termTolerant : Bool := " + ("true" if tolerant else "false"),
        "",
        "end Pedal.Gen.Timeout",
        "",
    ]
    src = "\n".join(lines)
    changed = write_if_changed(OUT, src)
    info = {"claim_method": claim_name, "termTolerant": tolerant,
            "tree_sizes": {k + "Ast": tree_size(v) for k, v in asts.items()} | {k + "Probe": tree_size(v) for k, v in probes.items()},
            "file": os.path.relpath(OUT, LEAN_DIR), "sha1": hashlib.sha1(src.encode()).hexdigest()[:12], "changed": changed}
    info.update(notes)
    return info


if __name__ == "__main__":
    import json
    print(json.dumps(translate(), indent=1))
    with open(OUT) as fh:
        print(fh.read())

"""
Generator, real-code runner, wire encoder and property oracles shared by C04 and C05
(pedal.sandbox: Sandbox._execute / _capture_exception / _start_mocking / _stop_mocking through
run(), call(), evaluate()).

A *history* is a list of ops executed on ONE sandbox (fresh report at the start).  An op is JSON-able:
  {"entry": "run"|"call"|"callmissing"|"eval", "style": <tracer style>, "inject": bool,
   "code": <student file, for run>, "expr": <expression, for eval>,
   "helper": <source of a second student file helper.py, for run, or absent>,
   "nested": bool - the executed code imports helper.py (Sandbox._import re-enters the tracer) before it ends,
   "term": ["N"] | ["R", desc] | ["C", desc], "shape": <tag naming the kind of program>,
   optional: "inputs": [str...] queued for this execution, "inputs_via": "set" (set_input before) | "param"
   (run(inputs=) / call(inputs=)); "argsrc": [python source of each positional argument of call()],
   "kwargsrc": {name: source}; "group": "start" | "stop" | "both" (Sandbox.start/stop_grouping_context around
   this op, as commands.CommandBlock does); "fmt": "html" | "text" on the FIRST op = formatter of the report;
   "size": {"dim", "n"} what was made large (see sandboxexec_sizes.py);
   "threaded": "sandbox" (sandbox.threaded = True: the execution AND every import of a student file run in a
   worker thread) | "param" (run/call/evaluate(threaded=True): only the execution) | "import" (sandbox.threaded =
   True but threaded=False passed: only the imports) - an execution that ENDS BY ITSELF in a thread is C04/C05's
   (the time limit is C14's: allowed_time is set far beyond what the programs need);
   "fn": name of the called function (default "f");
   "inner": [op...] executions started on the SAME sandbox while this one is in progress (the student code calls
   an instructor hook - "via": "mock" a mocked builtin, "data" a function in the student namespace, "input" the
   callable given to set_input - which runs the inner ops in order; "hid" is the number the code passes to the
   hook); an inner op may carry "swallow": the hook catches what escapes from it, and "style": None = it runs
   under the tracer object of the execution in progress (see sandboxexec_dims.py)}
and desc = {"cls","isException","isSystemExit","isKeyError","hazards":[...],"synLine":int|None,
            "frames":[[kind,line]...]}   (kind S student / I instructor / P pedal / L library)
The descriptor is written down BY CONSTRUCTION of the program (and, for compile failures, from CPython's own
`compile`), never read back from what pedal reported.
"""
import builtins
import json
import os
import re
import sys
import tempfile
import time
import unittest.mock

# pedal's coverage tracer calls coverage.save(): keep its data file out of the working directory, and private to
# this process (two checks running at the same time on one shared sqlite file made coverage raise DataError /
# OperationalError inside the traced execution - a false alarm of the harness, not of pedal)
import atexit  # noqa: E402

_COVERAGE_FILE = os.path.join(tempfile.gettempdir(), "verif_sandboxexec.%d.coverage" % os.getpid())
os.environ["COVERAGE_FILE"] = _COVERAGE_FILE


def _remove_coverage_file():
    for suffix in ("", "-journal", "-wal", "-shm"):
        try:
            os.remove(_COVERAGE_FILE + suffix)
        except OSError:
            pass


atexit.register(_remove_coverage_file)

from common import CorrResult, Failure, enc_bool, enc_str, dec_str, use_repo

use_repo()
from pedal.core.commands import clear_report, contextualize_report  # noqa: E402
from pedal.core.report import MAIN_REPORT  # noqa: E402
from pedal.core.submission import Submission  # noqa: E402
from pedal.sandbox import commands  # noqa: E402
from pedal.sandbox import sandbox as sandbox_module  # noqa: E402
from pedal.sandbox.result import SandboxResult  # noqa: E402
from pedal.sandbox.sandbox import Sandbox  # noqa: E402

STYLES = ["none", "native", "calls", "coverage"]
MAIN_FILE = "answer.py"
HELPER_FILE = "helper.py"
HELPER_MODULE = "helper"
OK_HELPER = "def h():\n    return 5\n\nVALUE = 7\n"

# --------------------------------------------------------------------------
# exception descriptors


def desc(cls, *, exc=True, sysexit=False, keyerr=False, hazards=(), syn_line=None, frames=(), mro=None):
    """`mro`: names of the exception's class and its bases, when known by construction (oracle only, not on
    the wire); defaults to the builtin class of that name."""
    if mro is None:
        mro = builtin_mro(cls)
    return {"cls": cls, "isException": bool(exc), "isSystemExit": bool(sysexit), "isKeyError": bool(keyerr),
            "hazards": list(hazards), "synLine": syn_line, "frames": [list(f) for f in frames], "mro": mro}


def builtin_mro(name):
    obj = getattr(builtins, name, None)
    if isinstance(obj, type) and issubclass(obj, BaseException):
        return [c.__name__ for c in obj.__mro__ if c is not object]
    return None


def class_flags(cls):
    return dict(exc=issubclass(cls, Exception), sysexit=issubclass(cls, SystemExit),
                keyerr=cls is KeyError)      # exactly builtins.KeyError (a student subclass keeps its class)


def builtin_exception_classes():
    """Every builtin exception class that can be instantiated without arguments (by real name)."""
    out = []
    seen = set()
    for name in sorted(dir(builtins)):
        obj = getattr(builtins, name)
        if isinstance(obj, type) and issubclass(obj, BaseException) and obj.__name__ not in seen:
            try:
                obj()
            except Exception:
                continue
            seen.add(obj.__name__)
            out.append(obj)
    return out


BUILTIN_EXCS = builtin_exception_classes()
SYNTAX_FAMILY = ("SyntaxError", "IndentationError", "TabError")
USER_NAMES = ["MyError", "Oops", "CustomFailure", "BadThing", "E1", "StudentProblem"]
USER_BASES = [
    ("Exception", dict(exc=True)), ("ValueError", dict(exc=True)), ("KeyError", dict(exc=True)),   # a USER class derived from KeyError is reported as itself
    ("LookupError", dict(exc=True)), ("OSError", dict(exc=True)), ("ArithmeticError", dict(exc=True)),
    ("BaseException", dict(exc=False)), ("KeyboardInterrupt", dict(exc=False)),
    ("GeneratorExit", dict(exc=False)), ("SystemExit", dict(exc=False, sysexit=True)),
    ("SystemExit, Exception", dict(exc=True, sysexit=True)),
]

# --------------------------------------------------------------------------
# failing snippets: (lines, line index of the failing statement (0-based), descriptor builder)
# A snippet is a list of source lines at indentation 0; `fail_at` is the index of the line whose
# execution fails; `inner` are the student frames BELOW that line (relative line indexes), `tail` the
# non-student frames at the innermost end.


def snip(lines, fail_at, cls, flags, *, hazards=(), inner=(), tail=(), shape, bases=None):
    if bases is None:
        m = re.match(r"class (\w+)\(([^)]*)\):", lines[0])
        if m and m.group(1) == cls:
            bases = [b.strip() for b in m.group(2).split(",")]
    mro = None
    if bases is not None:            # user-defined class: its own name, then its bases' MROs
        mro = [cls]
        for b in bases:
            mro += [n for n in (builtin_mro(b) or []) if n not in mro]
    return {"lines": lines, "fail_at": fail_at, "cls": cls, "flags": flags, "hazards": list(hazards),
            "inner": list(inner), "tail": list(tail), "shape": shape, "mro": mro}


def failing_snippets(rng):
    """A fresh list of snippets (one per termination mode family member)."""
    out = []
    for cls in BUILTIN_EXCS:
        n = cls.__name__
        hz = ["synNoLine"] if n in SYNTAX_FAMILY else []
        out.append(snip(["raise %s" % n], 0, n, class_flags(cls), hazards=hz, shape="builtin:" + n))
    out.append(snip(["raise ValueError('bad value', 3)"], 0, "ValueError", dict(exc=True), shape="builtin-args"))
    for base, flags in USER_BASES:
        name = rng.choice(USER_NAMES)
        out.append(snip(["class %s(%s):" % (name, base), "    pass", "raise %s('boom')" % name], 2, name, flags,
                        shape="user:" + base, bases=[b.strip() for b in base.split(",")]))
    # hostile exception objects
    out.append(snip(["class HStr(Exception):", "    def __str__(self):", "        raise ValueError('no str')",
                     "raise HStr()"], 3, "HStr", dict(exc=True), hazards=["str"], shape="str-raises"))
    out.append(snip(["class HRepr(Exception):", "    def __repr__(self):", "        raise ValueError('no repr')",
                     "raise HRepr()"], 3, "HRepr", dict(exc=True), hazards=["repr"], shape="repr-raises"))
    out.append(snip(["class HBoth(Exception):", "    def __repr__(self):", "        raise ValueError('no')",
                     "    __str__ = __repr__", "raise HBoth()"], 4, "HBoth", dict(exc=True),
                    hazards=["str", "repr"], shape="str-repr-raise"))
    out.append(snip(["class HNonStr(Exception):", "    def __str__(self):", "        return 5", "raise HNonStr()"],
                    3, "HNonStr", dict(exc=True), hazards=["str"], shape="str-returns-int"))
    out.append(snip(["class HSet(Exception):", "    def __setattr__(self, k, v):", "        raise ValueError('ro')",
                     "raise HSet()"], 3, "HSet", dict(exc=True), hazards=["attrW"], shape="setattr-raises"))
    out.append(snip(["class HGet(Exception):", "    def __getattribute__(self, k):",
                     "        raise ValueError('hidden')", "raise HGet()"], 3, "HGet", dict(exc=True),
                    hazards=["attrR"], shape="exception-attribute-read-raises"))
    out.append(snip(["class HGetattr(Exception):", "    def __getattr__(self, k):",
                     "        raise ValueError('hidden')", "raise HGetattr()"], 3, "HGetattr", dict(exc=True),
                    hazards=["attrM"], shape="exception-attribute-read-raises"))
    out.append(snip(["class HSysExit(SystemExit):", "    def __str__(self):", "        raise ValueError('no')",
                     "raise HSysExit()"], 3, "HSysExit", dict(exc=False, sysexit=True), hazards=["str"],
                    shape="str-raises-systemexit"))
    # hand-raised SyntaxErrors
    out.append(snip(["raise SyntaxError('no position')"], 0, "SyntaxError", dict(exc=True), hazards=["synNoLine"],
                    shape="syntaxerror-no-position"))
    out.append(snip(["raise SyntaxError('elsewhere', ('not_a_student_file.py', 7, 2, 'abc'))"], 0, "SyntaxError",
                    dict(exc=True), hazards=["synNoSource"], shape="syntaxerror-unknown-file"))
    out.append(snip(["raise SyntaxError('offset missing', ('not_a_student_file.py', 3, None, 'abc'))"], 0,
                    "SyntaxError", dict(exc=True), hazards=["synNoSource"], shape="syntaxerror-no-offset"))
    # leaving the interpreter
    out.append(snip(["exit()"], 0, "FunctionNotAllowed", dict(exc=True), tail=["P"], shape="blocked:exit"))
    out.append(snip(["import sys", "sys.exit(3)"], 1, "SystemExit", dict(exc=False, sysexit=True), shape="sys.exit"))
    out.append(snip(["raise SystemExit(2)"], 0, "SystemExit", dict(exc=False, sysexit=True), shape="raise-SystemExit"))
    out.append(snip(["raise SystemExit"], 0, "SystemExit", dict(exc=False, sysexit=True), shape="raise-SystemExit"))
    # unbounded recursion
    # (one-line def: under a Python-level tracer the RecursionError surfaces at the `call` event of the new
    #  frame, i.e. on the `def` line - keep that the same line as the recursive call)
    out.append(snip(["def spin(n): return spin(n + 1)", "spin(0)"], 1, "RecursionError", dict(exc=True),
                    inner=[0], shape="recursion"))
    # blocked builtins / open / import
    for name, call in [("compile", "compile('1', 'x', 'eval')"), ("eval", "eval('1')"), ("exec", "exec('y = 1')"),
                       ("globals", "globals()")]:
        out.append(snip(["v = %s" % call], 0, "FunctionNotAllowed", dict(exc=True), tail=["P"],
                        shape="blocked:" + name))
    out.append(snip(["fh = open('secret.py')"], 0, "RuntimeError", dict(exc=True), tail=["P"], shape="open:.py"))
    out.append(snip(["fh = open('out.txt', 'w')"], 0, "RuntimeError", dict(exc=True), tail=["P"], shape="open:write"))
    out.append(snip(["fh = open('definitely_missing_file.txt')"], 0, "FileNotFoundError", dict(exc=True), tail=["P"],
                    shape="open:missing"))
    out.append(snip(["import pedal"], 0, "RuntimeError", dict(exc=True), tail=["P"], shape="import:pedal"))
    out.append(snip(["from pedal.core import report"], 0, "RuntimeError", dict(exc=True), tail=["P"],
                    shape="import:pedal.sub"))
    # errors created inside library / C code
    out.append(snip(["import json", "data = json.loads('{')"], 1, "JSONDecodeError", dict(exc=True),
                    tail=["L", "L", "L"], shape="library:json", bases=["ValueError"]))
    out.append(snip(["n = int('five')"], 0, "ValueError", dict(exc=True), shape="c:int"))
    out.append(snip(["d = {}", "v = d['missing']"], 1, "KeyError", dict(exc=True, keyerr=True), shape="c:keyerror"))
    out.append(snip(["items = [1, 2]", "v = items[5]"], 1, "IndexError", dict(exc=True), shape="c:index"))
    out.append(snip(["v = 1 / 0"], 0, "ZeroDivisionError", dict(exc=True), shape="c:zerodiv"))
    out.append(snip(["v = undefined_name + 1"], 0, "NameError", dict(exc=True), shape="c:name"))
    out.append(snip(["v = 'a' + 1"], 0, "TypeError", dict(exc=True), shape="c:type"))
    out.append(snip(["v = (5).nothing"], 0, "AttributeError", dict(exc=True), shape="c:attr"))
    out.append(snip(["import not_a_real_module_xyz"], 0, "ModuleNotFoundError", dict(exc=True), tail=["P"],
                    shape="import:missing"))
    out.append(snip(["def gen():", "    yield 1", "g = gen()", "next(g)", "next(g)"], 4, "StopIteration",
                    dict(exc=True), shape="c:stopiteration"))
    out.append(snip(["assert 1 == 2, 'math is broken'"], 0, "AssertionError", dict(exc=True), shape="assert"))
    # the captured standard output closed / crippled by the student before the failure
    out.append(snip(["import sys", "sys.stdout.close()", "v = 1 / 0"], 2, "ZeroDivisionError", dict(exc=True),
                    shape="stdout-closed-then-fail"))
    out.append(snip(["import sys", "print('before')", "sys.stdout.close()", "print('after')"], 3, "ValueError",
                    dict(exc=True), shape="print-after-close"))
    out.append(snip(["import sys, io", "old = sys.stdout", "sys.stdout = io.StringIO()", "old.close()",
                     "v = undefined_name"], 4, "NameError", dict(exc=True), shape="stdout-replaced-and-closed-then-fail"))
    out.append(snip(["import sys", "sys.stdout.getvalue = lambda: 1 / 0", "v = int('a')"], 2, "ValueError",
                    dict(exc=True), shape="stdout-getvalue-replaced-then-fail"))
    out.append(snip(["import sys", "sys.stdout.close()", "raise SystemExit(2)"], 2, "SystemExit",
                    dict(exc=False, sysexit=True), shape="stdout-closed-then-systemexit"))
    out.append(snip(["import sys", "sys.stdout.close()", "raise KeyboardInterrupt"], 2, "KeyboardInterrupt",
                    dict(exc=False), shape="stdout-closed-then-keyboardinterrupt"))
    # inside called functions
    out.append(snip(["def inner():", "    return [][1]", "def outer():", "    return inner()", "outer()"], 4,
                    "IndexError", dict(exc=True), inner=[3, 1], shape="nested-functions"))
    out.append(snip(["class Thing:", "    def go(self):", "        return {}['k']", "Thing().go()"], 3, "KeyError",
                    dict(exc=True, keyerr=True), inner=[2], shape="method"))
    return out


def filler(rng, n):
    pool = ["x = 1", "y = [i * i for i in range(4)]", "print('working')", "name = 'Ada'", "total = sum(range(5))",
            "# a comment", "", "if total > 3:\n    total -= 1" if False else "z = 2 ** 5"]
    return [rng.choice(pool) for _ in range(n)]


NORMAL_PROGRAMS = [
    "print('hello')\nx = 1 + 1\n",
    "for i in range(3):\n    print(i)\n",
    "def f():\n    return 7\nprint(f())\n",
    "try:\n    1 / 0\nexcept ZeroDivisionError as e:\n    print('caught', e)\n",
    "import sys\nsys.stdout.write('raw\\n')\nprint('ok', file=sys.stdout)\n",
    "import time\ntime.sleep(0.001)\nprint('slept')\n",
    "import sys\nsys.stdout = None\n",                         # student replaces the (patched) stdout
    "import time\ntime.sleep = None\n",                       # … and time.sleep
    "import sys\nsys.modules['verif_student_fake_module'] = 1\n",
    "import json\nprint(json.dumps([1, 2]))\n",
    "__builtins__['len'] = lambda x: 99\nprint(len([1]))\n",   # student edits ITS OWN builtins
    "__builtins__['verif_new_builtin'] = 1\n",
    "class K:\n    pass\nk = K()\n",
    "def f():\n    return 7\ndef g(a, b=2):\n    return a + b\n",
    "",
    "def gen():\n    try:\n        yield 1\n    except GeneratorExit:\n        raise\ng = gen()\nnext(g)\ng.close()\n",
    "try:\n    raise KeyboardInterrupt\nexcept KeyboardInterrupt:\n    pass\n",
    "try:\n    raise SystemExit(3)\nexcept SystemExit:\n    print('no exit')\n",
    # student code that installs / removes a trace function of its own: whatever was installed BEFORE the
    # execution must be back afterwards
    "import sys\nsys.settrace(lambda *a: None)\nx = 1\n",
    "import sys\nsys.settrace(None)\nx = 2\n",
    "import sys\ndef tr(frame, event, arg):\n    return tr\nsys.settrace(tr)\ndef f():\n    return 7\nprint(f())\n",
    # student code that closes / cripples the standard output it was given (pedal reads it back afterwards)
    "import sys\nsys.stdout.close()\n",
    "import sys\nprint('before')\nsys.stdout.close()\n",
    "import sys, io\nold = sys.stdout\nsys.stdout = io.StringIO()\nold.close()\n",       # replace, then close
    "import sys\nsys.stdout.close()\ntry:\n    print('after')\nexcept ValueError:\n    pass\n",
    "import sys\nsys.stdout.getvalue = None\n",
    "import sys\nprint('x')\nsys.stdout.getvalue = lambda: 5\n",
    "import sys\nsys.stdout.getvalue = lambda: 1 / 0\n",
    "import sys\nsys.stdout.truncate(0)\nsys.stdout.seek(0)\nsys.stdout.detach = None\n",
]

# functions for a successful call() / evaluate(): the plain one, and ones that leave the captured stdout unusable
OK_FUNCTIONS = [
    "def f(*args, **kwargs):\n    return 7\n",
    "def f(*args, **kwargs):\n    return 7\n",
    "def f(*args, **kwargs):\n    import sys\n    sys.stdout.close()\n    return 7\n",
    "def f(*args, **kwargs):\n    import sys\n    print('in f')\n    sys.stdout.getvalue = None\n    return 7\n",
]

COMPILE_FAILURES = [
    ("x = 1\ny = (\n", "unclosed-paren"),
    ("x = 1\n  y = 2\n", "unexpected-indent"),
    ("if True:\nx = 1\n", "expected-indent"),
    ("x = 1\nif x:\n\ty = 1\n        z = 2\n", "tab-space"),
    ("def f(:\n    pass\n", "bad-def"),
    ("x = 1\ny = 2 +* 3\n", "bad-operator"),
    ("print 'hello'\n", "print-statement"),
    ("a = 1\nb\0c\n", "nul-byte"),
    ("x = '''never closed\n", "unterminated-string"),
    ("return 5\n", "return-outside"),
    ("x = 1\nbreak\n", "break-outside"),
    ("\u00e9\u20ac = $\n", "bad-token"),
]


def compile_failure_desc(code, filename):
    """CPython's own verdict on the source (trusted): class, flags, lineno."""
    try:
        compile(code, filename, "exec")
    except BaseException as e:
        cls = type(e)
        hz = []
        line = getattr(e, "lineno", None) if isinstance(e, SyntaxError) else None
        if isinstance(e, SyntaxError) and line is None:
            hz.append("synNoLine")
        return desc(cls.__name__, **class_flags(cls), hazards=hz, syn_line=line, frames=[],
                    mro=[c.__name__ for c in cls.__mro__ if c is not object])
    return None


# --------------------------------------------------------------------------
# building programs and ops


def program_from_snippet(rng, sn, in_function, nest=None):
    """-> (code, frames, helper) where frames are the student frames (+ tail) of the failure, absolute lines.
    nest=None: one file.  nest="before": the code first imports a well-behaved helper.py, then fails itself.
    nest="inside": the failing snippet IS helper.py (top level) and the code imports it."""
    pre = filler(rng, rng.randint(0, 3))
    imp = ["import " + HELPER_MODULE] if nest else []
    helper = None
    if nest == "inside":
        hpre = filler(rng, rng.randint(0, 4))
        helper = "\n".join(hpre + sn["lines"]) + "\n"
        hbase = len(hpre)
        inner = [["S", hbase + sn["fail_at"] + 1]] + [["S", hbase + i + 1] for i in sn["inner"]]
        if not in_function:
            lines = pre + imp + ["print('not reached')"]
            at = len(pre) + 1
        else:
            lines = pre + ["def f(*args, **kwargs):"] + ["    " + imp[0], "    return 1"]
            at = len(pre) + 2
        # the import statement, pedal's mocked __import__, Sandbox._import, then the helper's own frames
        frames = [["S", at], ["P", 0], ["P", 0]] + inner
    else:
        if nest == "before":
            helper = OK_HELPER
        if not in_function:
            lines = pre + imp + sn["lines"]
            base = len(pre) + len(imp)
        else:
            body = ["    " + l for l in imp + sn["lines"]]
            lines = pre + ["def f(*args, **kwargs):"] + body + ["    return 1"]
            base = len(pre) + 1 + len(imp)
        frames = [["S", base + sn["fail_at"] + 1]] + [["S", base + i + 1] for i in sn["inner"]]
    frames += [[k, 0] for k in sn["tail"]]
    return "\n".join(lines) + "\n", frames, helper


def make_desc(sn, frames):
    return desc(sn["cls"], hazards=sn["hazards"], frames=frames, mro=sn.get("mro"), **sn["flags"])


def gen_ops_for_snippet(rng, sn, entry, style, inject, nest=None):
    """The ops (setup run included) that make `sn` fail through `entry`."""
    extra = {}
    if nest:
        extra["nested"] = True
    for key in ("inputs", "size", "keep_main", "detail"):
        if sn.get(key) is not None:
            extra[key] = sn[key]
    if sn["shape"] == "recursion":
        # At the recursion limit CPython cannot call a Python-level trace function any more and silently
        # removes it - that is the interpreter, not pedal.  So no trace function is pre-installed for these
        # programs, and the one style whose defect is only visible with a pre-installed one is not used.
        extra["pretrace"] = False
        if style == "coverage":
            style = "native"
    if entry == "run":
        code, frames, helper = program_from_snippet(rng, sn, False, nest)
        if helper is not None:
            extra["helper"] = helper
        return [dict({"entry": "run", "style": style, "inject": inject, "code": code,
                      "term": ["R", make_desc(sn, frames)], "shape": sn["shape"]}, **extra)]
    code, frames, helper = program_from_snippet(rng, sn, True, nest)
    setup = {"entry": "run", "style": rng.choice(STYLES[:3]), "inject": False, "code": code, "term": ["N"],
             "shape": "defs"}
    if helper is not None:
        setup["helper"] = helper      # the submission keeps helper.py for the following call / evaluate
    frames = [["I", 1]] + frames
    op = dict({"entry": entry, "style": style, "inject": inject, "term": ["R", make_desc(sn, frames)],
               "shape": sn["shape"]}, **extra)
    if entry == "eval":
        op["expr"] = "f()"
    return [setup, op]


def gen_history(rng, snippets, *, max_ops=6, inject_rate=0.06, styles=STYLES, sized=None):
    """`sized`: the snippets of the size dimension (sandboxexec_sizes), mixed into a quarter of the failing ops."""
    ops = []
    n = rng.randint(1, max_ops)
    while len(ops) < n:
        r = rng.random()
        style = rng.choice(styles)
        inject = rng.random() < inject_rate
        if r < 0.11:
            ops.append({"entry": "run", "style": style, "inject": inject, "code": rng.choice(NORMAL_PROGRAMS),
                        "term": ["N"], "shape": "normal"})
        elif r < 0.15:
            ops.append(nested_normal_op(rng, style, inject))
        elif r < 0.25:
            code, shape = rng.choice(COMPILE_FAILURES)
            ops.append({"entry": "run", "style": style, "inject": inject, "code": code,
                        "term": ["C", compile_failure_desc(code, MAIN_FILE)], "shape": "compile:" + shape})
        elif r < 0.27:
            ops.append(helper_compile_failure_op(rng, style, inject, *rng.choice(COMPILE_FAILURES)))
        elif r < 0.31:
            ops.append({"entry": "callmissing", "style": style, "inject": False, "term": ["N"],
                        "shape": "call-missing"})
        elif r < 0.36:
            expr, d, shape = rng.choice(EVAL_DIRECT)
            ops.append({"entry": "eval", "style": style, "inject": inject, "expr": expr, "term": d, "shape": shape})
        elif r < 0.40:
            # a successful call / evaluate
            ops.append({"entry": "run", "style": rng.choice(STYLES[:3]), "inject": False,
                        "code": rng.choice(OK_FUNCTIONS), "term": ["N"], "shape": "defs"})
            e = rng.choice(["call", "eval"])
            op = {"entry": e, "style": style, "inject": inject, "term": ["N"], "shape": "ok-" + e}
            if e == "eval":
                op["expr"] = "f() + 1"
            ops.append(op)
        else:
            sn = rng.choice(sized) if sized and rng.random() < 0.25 else rng.choice(snippets)
            entry = rng.choice(["run", "run", "run", "call", "eval"])
            nest = rng.choice([None, None, None, "before", "inside"])
            if sn.get("run_only"):
                entry, nest = "run", None
            ops.extend(gen_ops_for_snippet(rng, sn, entry, style, inject, nest))
    return vary(rng, ops)


OTHER_MAIN_FILES = ["my_program.py", "hw3_solution.py"]
CALL_ARGS = [[3, "x"], [None], [[1, 2], {"k": 0.5}]]


def vary(rng, ops, force=None):
    """API dimensions orthogonal to the termination: name of the main file (one per history: call/evaluate keep
    using the submission of the preceding run), spelling of run (bare / by file name / code + file name),
    call with or without arguments."""
    main = force["main"] if force else (rng.choice(OTHER_MAIN_FILES) if rng.random() < 0.3 else MAIN_FILE)
    if any(op.get("keep_main") for op in ops):
        main = MAIN_FILE
    if force and "fmt" in force:
        fmt = force["fmt"]
    else:
        fmt = rng.choice([None, None, None, None, None, "html", "html", "text"])
    if fmt and ops:
        ops[0]["fmt"] = fmt
    for op in ops:
        if op.get("inputs") is not None and op["entry"] in ("run", "call"):
            via = force.get("inputs_via") if force else None
            op["inputs_via"] = via or rng.choice(["set", "param"])
        if op["entry"] == "run":
            if main != MAIN_FILE:
                op["main"] = main
            spell = force["spell"] if force else rng.choice(["bare", "bare", "byname", "explicit"])
            if spell != "bare":
                op["spell"] = spell
        elif op["entry"] == "call":
            args = force["args"] if force else (rng.choice(CALL_ARGS) if rng.random() < 0.4 else None)
            if args is not None and "argsrc" not in op:
                op["args"] = args
    return ops


NESTED_NORMAL_PROGRAMS = [
    "import helper\nprint(helper.VALUE)\n",
    "x = 1\nimport helper\nimport helper as again\nprint(helper.h() + again.VALUE)\n",
    "from helper import h\nprint(h())\n",
    "def f():\n    import helper\n    return helper.h()\nprint(f())\n",
    "try:\n    import helper\nfinally:\n    print('done')\n",
]


def nested_normal_op(rng, style, inject, code=None):
    """A program that imports the (well-behaved) second student file and ends normally."""
    return {"entry": "run", "style": style, "inject": inject, "code": code or rng.choice(NESTED_NORMAL_PROGRAMS),
            "helper": OK_HELPER, "nested": True, "term": ["N"], "shape": "normal-imports-helper"}


def helper_compile_failure_op(rng, style, inject, bad_code, shape):
    """The program imports a second student file that does not compile: `compile` inside Sandbox._import raises
    while the main file is RUNNING (so: a raised exception whose only student frame is the import statement; the
    tracer is not re-entered)."""
    pre = filler(rng, rng.randint(0, 3))
    code = "\n".join(pre + ["import " + HELPER_MODULE, "print('not reached')"]) + "\n"
    d = compile_failure_desc(bad_code, HELPER_FILE)
    d["frames"] = [["S", len(pre) + 1], ["P", 0], ["P", 0]]
    return {"entry": "run", "style": style, "inject": inject, "code": code, "helper": bad_code, "nested": False,
            "term": ["R", d], "shape": "helper-compile:" + shape}


EVAL_DIRECT = [
    ("1 / 0", ["R", desc("ZeroDivisionError", frames=[["I", 1]])], "eval:zerodiv"),
    ("undefined_thing", ["R", desc("NameError", frames=[["I", 1]])], "eval:name"),
    ("(", None, "eval:syntax"),
    ("exit()", ["R", desc("FunctionNotAllowed", frames=[["I", 1], ["P", 0]])], "eval:blocked-exit"),
    ("2 + 3", ["N"], "eval:ok"),
]


def _fix_eval_direct():
    from pedal.core.submission import Submission
    instructor = Submission(files={MAIN_FILE: ""}).instructor_file
    for i, (expr, d, shape) in enumerate(EVAL_DIRECT):
        if d is None:
            EVAL_DIRECT[i] = (expr, ["C", compile_failure_desc("_ = " + expr, instructor)], shape)


_fix_eval_direct()


def coverage_histories(rng, per_snippet_entries=("run", "call", "eval")):
    """Deterministic sweep: every snippet through every entry point, every compile failure, every normal
    program, each with a rotating tracer style; a BaseException case for each style."""
    snippets = failing_snippets(rng)
    hists = []
    k = 0
    for sn in snippets:
        for entry in per_snippet_entries:
            style = STYLES[k % len(STYLES)]
            k += 1
            hists.append(gen_ops_for_snippet(rng, sn, entry, style, False))
    for code, shape in COMPILE_FAILURES:
        style = STYLES[k % len(STYLES)]
        k += 1
        hists.append([{"entry": "run", "style": style, "inject": False, "code": code,
                       "term": ["C", compile_failure_desc(code, MAIN_FILE)], "shape": "compile:" + shape}])
    for code in NORMAL_PROGRAMS:
        style = STYLES[k % len(STYLES)]
        k += 1
        hists.append([{"entry": "run", "style": style, "inject": False, "code": code, "term": ["N"],
                       "shape": "normal"}])
    # student code that touches the trace function itself: under EVERY tracer style
    for code in NORMAL_PROGRAMS:
        if "settrace" in code:
            for style in STYLES:
                hists.append([{"entry": "run", "style": style, "inject": False, "code": code, "term": ["N"],
                               "shape": "normal:settrace"}])
    for expr, d, shape in EVAL_DIRECT:
        style = STYLES[k % len(STYLES)]
        k += 1
        hists.append([{"entry": "eval", "style": style, "inject": False, "expr": expr, "term": d, "shape": shape}])
    kb = [s for s in snippets if s["shape"] in ("builtin:KeyboardInterrupt", "builtin:GeneratorExit",
                                                "user:BaseException", "builtin:ValueError", "sys.exit",
                                                "stdout-closed-then-fail", "stdout-closed-then-keyboardinterrupt")]
    for style in STYLES:
        for sn in kb:
            for entry in ("run", "call"):
                hists.append(gen_ops_for_snippet(rng, sn, entry, style, False))
        # recording failure injected
        for sn in kb[3:]:
            for entry in ("run", "eval"):
                hists.append(gen_ops_for_snippet(rng, sn, entry, style, True))
        hists.append([{"entry": "run", "style": style, "inject": False, "code": "print('fine')\n", "term": ["N"],
                       "shape": "normal"}])
    hists.append([{"entry": "callmissing", "style": "none", "inject": False, "term": ["N"], "shape": "call-missing"}])
    for code in OK_FUNCTIONS[1:]:
        for e in ("call", "eval"):
            style = STYLES[k % len(STYLES)]
            k += 1
            op = {"entry": e, "style": style, "inject": False, "term": ["N"], "shape": "ok-" + e, "pin": True}
            if e == "eval":
                op["expr"] = "f() + 1"
            hists.append([{"entry": "run", "style": "none", "inject": False, "code": code, "term": ["N"],
                           "shape": "defs"}, op])
    # programs that import a second student file (Sandbox._import inside _execute)
    pinned = []
    for style in STYLES:
        for code in NESTED_NORMAL_PROGRAMS[:2]:
            pinned.append([nested_normal_op(rng, style, False, code)])
        for sn in kb:
            pinned.append(gen_ops_for_snippet(rng, sn, "run", style, False, "inside"))
            pinned.append(gen_ops_for_snippet(rng, sn, "call", style, False, "before"))
        pinned.append(gen_ops_for_snippet(rng, [x for x in kb if x["shape"] == "builtin:ValueError"][0], "run", style,
                                          True, "inside"))
        pinned.append([helper_compile_failure_op(rng, style, False, *COMPILE_FAILURES[0])])
    for h in pinned:
        h[-1]["pin"] = True
    hists += pinned
    for code in NESTED_NORMAL_PROGRAMS[2:]:
        style = STYLES[k % len(STYLES)]
        k += 1
        hists.append([nested_normal_op(rng, style, False, code)])
    for bad_code, shape in COMPILE_FAILURES:
        style = STYLES[k % len(STYLES)]
        k += 1
        hists.append([helper_compile_failure_op(rng, style, False, bad_code, shape)])
    for sn in snippets:
        for entry, nest in (("run", "inside"), ("call", "before"), ("eval", "inside")):
            style = STYLES[k % len(STYLES)]
            k += 1
            hists.append(gen_ops_for_snippet(rng, sn, entry, style, False, nest))
    forces = [{"main": MAIN_FILE, "spell": "bare", "args": None},
              {"main": OTHER_MAIN_FILES[0], "spell": "bare", "args": CALL_ARGS[0]},
              {"main": MAIN_FILE, "spell": "explicit", "args": None},
              {"main": OTHER_MAIN_FILES[1], "spell": "byname", "args": CALL_ARGS[2]},
              {"main": MAIN_FILE, "spell": "byname", "args": CALL_ARGS[1]}]
    for i, h in enumerate(hists):
        vary(rng, h, forces[i % len(forces)])
    return hists


# --------------------------------------------------------------------------
# running the real sandbox

BUILTIN_WATCH = ["open", "input", "print", "__import__", "compile", "eval", "exec", "globals", "exit", "len",
                 "quit", "id", "sorted"]


def _dummy_trace(frame, event, arg):
    return None


def _thread_trace_hook():
    """The trace function `threading` hands to every NEW thread (threading.settrace): process wide, and borrowed by
    coverage.py while it measures."""
    import threading
    getter = getattr(threading, "gettrace", None)
    return getter() if getter is not None else getattr(threading, "_trace_hook", None)


def _register_coverages():
    """Remember every coverage.Coverage object that is started in this process (the harness instruments the LIBRARY,
    not pedal), so that one pedal lost track of can be stopped properly."""
    import weakref
    registry = weakref.WeakSet()
    try:
        import coverage
        original = coverage.Coverage.start
        if not getattr(original, "_verif_registering", False):
            def start(self, *args, **kwargs):
                registry.add(self)
                return original(self, *args, **kwargs)
            start._verif_registering = True
            coverage.Coverage.start = start
    except BaseException:       # noqa - no coverage.py: the coverage style does not work at all, nothing to stop
        pass
    return registry


_COVERAGES = _register_coverages()


def stop_leftover_coverage():
    """Harness hygiene between histories: a coverage.py collector that pedal's coverage tracer started and never
    stopped (it is not re-entrant: a student import under style 'coverage' overwrites the outer Coverage object)
    would be resumed by every later measurement, on whatever thread that one runs - results would depend on the
    order of the histories.  The leak itself is judged where it happens (Snapshot.trace)."""
    import threading
    try:
        import coverage
        from coverage.collector import Collector
        if Collector._collectors:
            running = [o for o in list(_COVERAGES) if getattr(o, "_started", False)]
            for _ in range(len(running) + 1):       # innermost first: only the top of coverage's stack can be stopped
                for cov in running:
                    if Collector._collectors and cov._collector is Collector._collectors[-1]:
                        cov.stop()
            for _ in range(16):
                if not Collector._collectors:
                    break
                Collector._collectors[-1].stop()
    except BaseException:       # noqa
        pass
    threading.settrace(None)


class Snapshot:
    def __init__(self):
        self.stdout = sys.stdout
        self.sleep = time.sleep
        self.modules = dict(sys.modules)
        self.trace = sys.gettrace()
        self.thread_hook = _thread_trace_hook()
        self.builtin_keys = set(builtins.__dict__)
        self.builtin_vals = {k: builtins.__dict__.get(k) for k in BUILTIN_WATCH}

    def compare(self, other):
        mods = (self.modules.keys() == other.modules.keys()
                and all(self.modules[k] is other.modules[k] for k in self.modules))
        bi = (self.builtin_keys == other.builtin_keys
              and all(self.builtin_vals[k] is other.builtin_vals[k] for k in BUILTIN_WATCH))
        return {"stdout": self.stdout is other.stdout, "sleep": self.sleep is other.sleep, "mods": mods,
                "trace": self.trace is other.trace and self.thread_hook is other.thread_hook, "bi": bi}


class _InjectedFailure(RuntimeError):
    pass


def _boom(*a, **k):
    raise _InjectedFailure("verif: failure injected into the recording of the exception")


class _InjectedStoreFailure(MemoryError):
    pass


def _boom_store(*a, **k):
    raise _InjectedStoreFailure("verif: failure injected into the storing of the captured output")


# the bookkeeping pedal does with the captured output when an execution has ended (inside Sandbox._stop_mocking):
# a failure there (MemoryError on a huge output, a hook of the grading environment that raises) may reach the
# instructor script, but must not keep the patches alive
STORE_STEPS = [("sandbox", "append_output"), ("module", "_read_captured")]


def store_steps():
    return [(where, name) for where, name in STORE_STEPS
            if hasattr(Sandbox if where == "sandbox" else sandbox_module, name)]


def store_failure_histories(rng):
    """SEARCH-ONLY stream (not in the Lean model: `_stop_mocking` is one primitive step there): every way an
    execution can end x every tracer style x run / call, with a failure injected into each step that stores the
    captured output; then a clean execution on the same sandbox."""
    programs = [
        ("print('hello')\n", ["N"], "normal"),
        ("print('before')\nv = 1 / 0\n", ["R", desc("ZeroDivisionError", frames=[["S", 2]])], "c:zerodiv"),
        ("import sys\nprint('bye')\nsys.exit(2)\n", ["R", desc("SystemExit", exc=False, sysexit=True,
                                                                frames=[["S", 3]])], "sys.exit"),
        ("print('x')\nraise KeyboardInterrupt\n", ["R", desc("KeyboardInterrupt", exc=False, frames=[["S", 2]])],
         "builtin:KeyboardInterrupt"),
        ("x = (\n", ["C", compile_failure_desc("x = (\n", MAIN_FILE)], "compile:unclosed-paren"),
    ]
    fn = "def f(*args, **kwargs):\n    print('in f')\n    return {}['k']\n"
    hists = []
    k = 0
    for where, name in store_steps():
        for style in STYLES:
            for code, term, shape in programs:
                hists.append([{"entry": "run", "style": style, "inject": False, "inject_store": name, "code": code,
                               "term": term, "shape": shape},
                              {"entry": "run", "style": STYLES[k % 3], "inject": False, "code": "print('later')\n",
                               "term": ["N"], "shape": "normal"}])
                k += 1
            hists.append([{"entry": "run", "style": "none", "inject": False, "code": fn, "term": ["N"], "shape": "defs"},
                          {"entry": "call", "style": style, "inject": False, "inject_store": name,
                           "term": ["R", desc("KeyError", keyerr=True, frames=[["I", 1], ["S", 3]])],
                           "shape": "c:keyerror"}])
            hists.append([nested_normal_op(rng, style, False, NESTED_NORMAL_PROGRAMS[0])])
            hists[-1][0]["inject_store"] = name
    return hists


def unwrap(value):
    # (an execution nested in another one can leave the exception behind two proxies)
    for _ in range(8):
        if type(value) is not SandboxResult:
            break
        value = object.__getattribute__(value, "value")
    return value


def safe_type_name(obj):
    return type(obj).__name__


def force_clean(sb, snap0):
    """Undo whatever a defective tree left behind so that the next op starts clean."""
    try:
        for _ in range(16):
            if not sb._current_patches:
                break
            sb._stop_patches()
    except Exception:
        pass
    try:
        del sb._current_patches[:]
        del sb._current_stdout[:]
    except Exception:
        pass
    sys.stdout = snap0.stdout
    time.sleep = snap0.sleep
    for k in list(sys.modules):
        if k not in snap0.modules:
            del sys.modules[k]
    for k, v in snap0.modules.items():
        if sys.modules.get(k) is not v:
            sys.modules[k] = v
    for k in list(builtins.__dict__):
        if k not in snap0.builtin_keys:
            del builtins.__dict__[k]
    for k, v in snap0.builtin_vals.items():
        if v is not None:
            builtins.__dict__[k] = v


HOOK_BUILTIN = "verif_hook"            # via "mock": a builtin the instructor mocked in
HOOK_DATA = "verif_data_hook"          # via "data": an instructor function placed in the student namespace
WAIT_BUILTIN = "verif_wait"            # see "wait_abandoned"
HOOK_PROMPT = "verif:"                 # via "input": the callable given to set_input, keyed by the prompt
ALLOWED_TIME = 300                     # threaded executions here end by themselves; the time limit is C14's
DECOY_PROGRAM = "print('another report, a healthy program')\nvalue = 41 + 1\n"


def has_inner(op):
    return bool(op.get("inner"))


def walk_ops(ops):
    """Every op of a history, nested ones included, pre-order."""
    for op in ops:
        yield op
        if has_inner(op):
            yield from walk_ops(op["inner"])


class _SandboxApi:
    """run / call / evaluate / set_input / clear_input / get_sandbox as METHODS of one Sandbox object (the `commands`
    module offers the same names as functions on a report)."""

    def __init__(self, sb):
        self.sb = sb
        self.run, self.call, self.evaluate = sb.run, sb.call, sb.evaluate
        self.set_input, self.clear_input = sb.set_input, sb.clear_input

    def get_sandbox(self):
        return self.sb


class _ReportApi:
    """The module-level commands with `report=<the graded report>` passed to every one of them."""

    def __init__(self, report):
        import functools
        for name in ("run", "call", "evaluate", "set_input", "clear_input", "get_sandbox"):
            setattr(self, name, functools.partial(getattr(commands, name), report=report))


def _invoke(sb, op, main, kw, api=None):
    """The API call of one op.  -> (returned value, what escaped)."""
    commands = api or globals()["commands"]
    if op.get("timeout"):
        kw["threaded"] = True
    call_args = [eval(src, {}) for src in op["argsrc"]] if "argsrc" in op else op.get("args", [])
    call_kwargs = {k: eval(src, {}) for k, src in op.get("kwargsrc", {}).items()}
    mode = op.get("threaded")
    if mode == "param":
        kw["threaded"] = True
    elif mode == "import":
        kw["threaded"] = False
    try:
        if op["entry"] == "run":
            spell = op.get("spell", "bare")
            if spell == "explicit":
                # (`exec_code` / `exec_file`: the text that is executed is not the text stored for that file name)
                return commands.run(op.get("exec_code", op["code"]), filename=op.get("exec_file", main), **kw), None
            if spell == "byname":
                return commands.run(filename=main, **kw), None
            return commands.run(**kw), None
        if op["entry"] == "call":
            if call_kwargs:
                kw["function_kwargs"] = call_kwargs
            return commands.call(op.get("fn", "f"), *call_args, **kw), None
        if op["entry"] == "callmissing":
            return commands.call("verif_no_such_function"), None
        return commands.evaluate(op["expr"], **{k: v for k, v in kw.items() if k == "threaded"}), None
    except BaseException as e:       # noqa - the whole point is to see what escapes
        return None, e


def _abandoned_threads():
    import threading
    from pedal.sandbox.timeout import InterruptableThread
    return [t for t in threading.enumerate() if isinstance(t, InterruptableThread)
            and t is not threading.current_thread() and t.is_alive()]


def wait_for_abandoned(known=(), patience=8.0):
    """A timed-out execution leaves its thread behind; it is given the time to end (it was sent SystemExit) before
    anything else is looked at, so that what it does WHILE ending is seen by this history, not by a later one."""
    deadline = time.monotonic() + patience
    for t in _abandoned_threads():
        if t in known:
            continue
        t.join(max(0.0, deadline - time.monotonic()))


def _observe(sb, op, o, ret, escaped, n_before, ctx):
    """Fill the observation `o` (already holding the snapshot comparison and the stack depths)."""
    exc = unwrap(sb.exception)
    o["exc"] = None if exc is None else safe_type_name(exc)
    if escaped is None:
        o["outcome"] = "ret"
        if ret is sb:
            o["rk"] = "sandbox"
        elif isinstance(unwrap(ret), BaseException):
            o["rk"] = "excval"
        else:
            o["rk"] = "value"
    else:
        student_cls = op["term"][1]["cls"] if op["term"][0] != "N" else None
        o["outcome"] = "esc:student" if safe_type_name(escaped) == student_cls else "esc:internal"
        o["escaped"] = safe_type_name(escaped)
        o["rk"] = "-"
    new = ctx.get("report", MAIN_REPORT).feedback[n_before:]
    stray = []
    for name, rep_, n0, sb_ in ctx.get("bystanders", ()):
        for f in rep_.feedback[n0:]:
            stray.append([name, str(f.category).lower(), f.label])
        del rep_.feedback[n0:]
        if sb_ is not None and unwrap(sb_.exception) is not None:
            stray.append([name, "sandbox.exception", safe_type_name(unwrap(sb_.exception))])
            sb_.exception = None
    if ctx.get("bystanders"):
        o["stray"] = stray
    fbs, fbs_all, other = [], [], 0
    for f in new:
        if str(f.category).lower() == "runtime":
            loc = f.location.line if f.location is not None else None
            item = [f.label, f.fields.get("exception_name"), loc]
            fbs_all.append(item)
            if id(f) not in ctx["claimed"]:      # not attached by an execution nested in this one
                fbs.append(item)
        elif id(f) not in ctx["claimed"]:
            other += 1
    ctx["claimed"].update(id(f) for f in new)
    o["fb"] = fbs
    if has_inner(op):
        o["fb_all"] = fbs_all
        o["inner"] = ctx["inner_obs"].pop(op.get("hid"), [])
    o["other_fb"] = other


def _perform_inner(sb, op, ctx):
    """One execution started while another one is in progress on the same sandbox (called from the hook, i.e.
    from inside the running student code).  Nothing is cleaned up here: the execution in progress needs it."""
    saved_tracer = None
    if op.get("style") is not None:
        saved_tracer = (sb._tracer_style, sb.trace)
        sb.tracer_style = op["style"]
    n_before = len(ctx.get("report", MAIN_REPORT).feedback)
    dp0, do0 = len(sb._current_patches), len(sb._current_stdout)
    known = _abandoned_threads() if op.get("timeout") else ()
    if op.get("timeout"):
        sb.allowed_time = op["timeout"]
    before = Snapshot()
    patcher = None
    if op.get("inject"):
        patcher = unittest.mock.patch.object(sandbox_module, "ExpandedTraceback", _boom)
        patcher.start()
    try:
        ret, escaped = _invoke(sb, dict(op, spell="explicit") if op["entry"] == "run" else op, ctx["main"], {},
                               ctx.get("api"))
    finally:
        if patcher is not None:
            patcher.stop()
    after = Snapshot()
    if saved_tracer is not None:
        sb._tracer_style, sb.trace = saved_tracer
    o = before.compare(after)
    o["dp"] = len(sb._current_patches) - dp0
    o["do"] = len(sb._current_stdout) - do0
    if op.get("timeout"):
        # the abandoned thread ends while the ENCLOSING execution is still in progress: what it does then counts too
        sb.allowed_time = ALLOWED_TIME
        wait_for_abandoned(known)
        later = before.compare(Snapshot())
        for k in later:
            o[k] = o[k] and later[k]
        o["dp"] = o["dp"] or (len(sb._current_patches) - dp0)
        o["do"] = o["do"] or (len(sb._current_stdout) - do0)
    _observe(sb, op, o, ret, escaped, n_before, ctx)
    return o, escaped


def _make_hook(sb, ctx):
    def hook(hid, *args, **kwargs):
        op = ctx["registry"].get(hid)
        if op is None:
            return "0"
        results = ctx["inner_obs"].setdefault(hid, [])
        for inner in op["inner"]:
            o, escaped = _perform_inner(sb, inner, ctx)
            results.append(o)
            if escaped is not None and not inner.get("swallow"):
                raise escaped
        return "typed"

    def input_hook(prompt="", *args, **kwargs):
        if isinstance(prompt, str) and prompt.startswith(HOOK_PROMPT):
            return hook(int(prompt[len(HOOK_PROMPT):]))
        return "0"
    return hook, input_hook


# the kinds of thread the GRADER (the code that calls run / call / evaluate) can find itself on; a history whose ops
# carry "on": <kind> is executed there (absent = the main thread).  "pedal-timeout" (the grader inside pedal's own
# timeout(), i.e. on an InterruptableThread) is a GATED kind: see sandboxexec_special.gated_histories
GRADER_THREADS = ["thread", "pool", "dummy", "timer"]
GRADER_THREAD_TEXT = {"thread": "a plain threading.Thread", "pool": "a concurrent.futures.ThreadPoolExecutor worker",
                      "dummy": "a thread started with _thread.start_new_thread (a _DummyThread for threading)",
                      "timer": "a threading.Timer", "pedal-timeout": "a thread started by pedal's own timeout()"}
GRADER_THREAD_PATIENCE = 900       # seconds; a history that does not come back is a harness error (exit 2), not a verdict


def on_grader_thread(kind, fn):
    """Run fn() on a thread of kind `kind` and hand back what it returned / raise what it raised."""
    import threading
    box = {}
    done = threading.Event()

    def work():
        try:
            box["r"] = fn()
        except BaseException as e:       # noqa - handed to the caller
            box["e"] = e
        finally:
            done.set()
    if kind == "thread":
        threading.Thread(target=work, name="verif-grader").start()
    elif kind == "timer":
        threading.Timer(0, work).start()
    elif kind == "dummy":
        import _thread
        _thread.start_new_thread(work, ())
    elif kind == "pool":
        from concurrent.futures import ThreadPoolExecutor
        with ThreadPoolExecutor(max_workers=1) as pool:
            pool.submit(work).result(GRADER_THREAD_PATIENCE)
    elif kind == "pedal-timeout":
        from pedal.sandbox.timeout import timeout
        timeout(GRADER_THREAD_PATIENCE, work)
    else:
        raise ValueError("unknown grader thread kind %r" % (kind,))
    if not done.wait(GRADER_THREAD_PATIENCE):
        raise RuntimeError("history on grader thread %r did not finish" % kind)
    if "e" in box:
        raise box["e"]
    return box["r"]


def run_history(ops):
    """-> list of observations (dict) - one per op (the observations of executions nested in an op: o["inner"]).
    Executed on the thread kind named by the ops' "on" field (default: the calling = main thread)."""
    kind = ops[0].get("on") if ops else None
    if kind:
        return on_grader_thread(kind, lambda: _run_history(ops))
    return _run_history(ops)


def _run_history(ops):
    import threading
    real_stdout, real_sleep = sys.stdout, time.sleep
    old_trace = sys.gettrace()
    old_excepthook = threading.excepthook
    threading.excepthook = lambda args: None      # a worker thread ended by KeyboardInterrupt & co. is not news
    clear_report()
    contextualize_report("", filename=MAIN_FILE)
    # WHICH REPORT is graded: MAIN_REPORT through the module-level commands (default); "own" = a Report of its own
    # through the commands with report=...; "sandbox" = a Sandbox(report=...) object of its own through its methods.
    # In the last two MAIN_REPORT and a third report are alive beside it, each holding a healthy decoy program that
    # has been run: they must not gain anything (`stray`).
    which = ops[0].get("report") if ops else None
    api, report, bystanders = commands, MAIN_REPORT, []
    if which:
        from pedal.core.report import Report
        report, third = Report(), Report()
        for decoy_report in (MAIN_REPORT, third):
            # (a tree on which even this healthy run fails - the grader on an odd thread - shows that in the ops of
            # the histories made for it; here the decoy is only scenery)
            contextualize_report(DECOY_PROGRAM, filename=MAIN_FILE, report=decoy_report)
            snap0 = Snapshot()
            try:
                commands.run(report=decoy_report)
            except BaseException:       # noqa
                pass
            decoy_sb = commands.get_sandbox(report=decoy_report)
            if decoy_sb._current_patches or decoy_sb._current_stdout or sys.stdout is not snap0.stdout:
                force_clean(decoy_sb, snap0)
        contextualize_report("", filename=MAIN_FILE, report=report)
        api = _SandboxApi(Sandbox(report=report)) if which == "sandbox" else _ReportApi(report)
        bystanders = [["MAIN_REPORT", MAIN_REPORT, len(MAIN_REPORT.feedback), commands.get_sandbox()],
                      ["a third report", third, len(third.feedback), commands.get_sandbox(report=third)]]
    sb = api.get_sandbox()
    obs = []
    old_format = report.format
    fmt = ops[0].get("fmt") if ops else None
    if fmt:
        from pedal.core import formatting
        report.set_formatter({"html": formatting.HtmlFormatter, "text": formatting.TextFormatter}[fmt](report))
    ctx = {"registry": {}, "inner_obs": {}, "claimed": set(), "main": MAIN_FILE, "report": report,
           "api": api if which else None, "bystanders": bystanders}
    commands_ = api
    try:
        for op in ops:
            main = op.get("main", MAIN_FILE)
            ctx["main"] = main
            if op["entry"] == "run":
                if op.get("helper") is not None or main != MAIN_FILE:
                    files = {main: op["code"]}
                    if op.get("helper") is not None:
                        files[HELPER_FILE] = op["helper"]
                    contextualize_report(Submission(files=files, main_file=main), clear=False, report=report)
                else:
                    contextualize_report(op["code"], filename=MAIN_FILE, clear=False, report=report)
            sb = commands_.get_sandbox()
            sb.tracer_style = op["style"]
            sb.threaded = op.get("threaded") in ("sandbox", "import")
            sb.allowed_time = op.get("timeout") or ALLOWED_TIME
            known = _abandoned_threads() if op.get("timeout") else ()
            n_before = len(report.feedback)
            kw = {}
            if op.get("inputs") is not None:
                if op.get("inputs_via") == "param" and op["entry"] in ("run", "call"):
                    kw["inputs"] = list(op["inputs"])
                else:
                    commands_.set_input(list(op["inputs"]))
            hooked = has_inner(op)
            if hooked:
                ctx["registry"] = {o2["hid"]: o2 for o2 in walk_ops([op]) if has_inner(o2)}
                ctx["inner_obs"] = {}
                hook, input_hook = _make_hook(sb, ctx)
                sb.mock_function(HOOK_BUILTIN, hook)
                sb.data[HOOK_DATA] = hook
                if any(o2.get("via") == "input" for o2 in walk_ops([op])):
                    commands_.clear_input()
                    sb.set_input(input_hook)
            if op.get("wait_abandoned"):
                # the student code of this op calls it once it has released the abandoned thread of an earlier op:
                # that thread then ends WHILE this execution is in progress
                sb.mock_function(WAIT_BUILTIN, lambda *a, **k: wait_for_abandoned())
            if op.get("group") in ("start", "both"):
                sb.start_grouping_context()
            sys.settrace(_dummy_trace if op.get("pretrace", True) else None)
            before = Snapshot()
            patcher = None
            if op.get("inject"):
                patcher = unittest.mock.patch.object(sandbox_module, "ExpandedTraceback", _boom)
                patcher.start()
            elif op.get("inject_store"):
                where = dict((n, w) for w, n in STORE_STEPS)[op["inject_store"]]
                patcher = unittest.mock.patch.object(Sandbox if where == "sandbox" else sandbox_module,
                                                     op["inject_store"], _boom_store)
                patcher.start()
            try:
                ret, escaped = _invoke(sb, op, main, kw, ctx["api"])
            finally:
                if patcher is not None:
                    patcher.stop()
            after = Snapshot()
            sys.settrace(None)
            sb.threaded = False
            if op.get("timeout"):
                sb.allowed_time = ALLOWED_TIME
                if not op.get("leave_thread"):      # (its code waits for a later execution to release it)
                    wait_for_abandoned(known)
                else:                               # ... once it has dealt with the SystemExit it was sent
                    deadline = time.monotonic() + 8.0
                    while sb.data.get("phase") != "survived" and time.monotonic() < deadline:
                        real_sleep(0.005)
            if op.get("wait_abandoned"):
                sb.clear_mocked_function(WAIT_BUILTIN)
            if hooked:
                sb.clear_mocked_function(HOOK_BUILTIN)
                sb.data.pop(HOOK_DATA, None)
                commands_.clear_input()
            if op.get("group") in ("stop", "both") and sb._context_group_start:
                sb.stop_grouping_context()
            if op.get("inputs") is not None:
                commands_.clear_input()
            o = before.compare(after)
            o["dp"] = len(sb._current_patches)
            o["do"] = len(sb._current_stdout)
            dirty = not all(o[k] for k in ("stdout", "sleep", "mods", "bi")) or o["dp"] or o["do"]
            if dirty:
                force_clean(sb, before)
            _observe(sb, op, o, ret, escaped, n_before, ctx)
            obs.append(o)
    finally:
        sys.settrace(old_trace)
        sys.stdout, time.sleep = real_stdout, real_sleep
        del sb._context_group_start[:]
        report.format = old_format
        threading.excepthook = old_excepthook
        sb.threaded = False
        if any(op.get("leave_thread") for op in ops):
            sb.data["phase"] = "go"
            wait_for_abandoned()
        stop_leftover_coverage()
        sys.settrace(old_trace)
    return obs


def warm_up():
    """Let pedal do its lazy imports before any module-table snapshot is taken."""
    rng_ops = [
        {"entry": "run", "style": s, "inject": False, "code": "import json\nprint(1)\nv = 1 / 0\n",
         "term": ["R", desc("ZeroDivisionError", frames=[["S", 3]])], "shape": "warm"} for s in STYLES
    ] + [{"entry": "run", "style": "none", "inject": True, "code": "v = 1 / 0\n",
          "term": ["R", desc("ZeroDivisionError", frames=[["S", 1]])], "shape": "warm"},
         {"entry": "run", "style": "none", "inject": False, "code": "x = (\n",
          "term": ["C", compile_failure_desc("x = (\n", MAIN_FILE)], "shape": "warm"},
         {"entry": "run", "style": "none", "inject": False, "code": "def f():\n    return 1\n", "term": ["N"],
          "shape": "warm"},
         {"entry": "call", "style": "none", "inject": False, "term": ["N"], "shape": "warm"},
         {"entry": "eval", "style": "none", "inject": False, "expr": "f()", "term": ["N"], "shape": "warm"}]
    for _ in range(2):
        run_history(rng_ops)


# --------------------------------------------------------------------------
# wire

HAZ_WIRE = {"str": "str", "repr": "repr", "attrR": "attrR", "attrW": "attrW", "synNoLine": "synNoLine",
            "synNoSource": "synNoSource", "truth": "truth", "attrM": "attrM"}


def enc_desc(d):
    toks = [enc_str(d["cls"]), enc_bool(d["isException"]), enc_bool(d["isSystemExit"]), enc_bool(d["isKeyError"]),
            str(len(d["hazards"]))] + [HAZ_WIRE[h] for h in d["hazards"]]
    toks.append("-" if d["synLine"] is None else str(d["synLine"]))
    toks.append(str(len(d["frames"])))
    for k, l in d["frames"]:
        toks += [k, str(l)]
    return toks


def effective_style(op, parent_style=None):
    return op["style"] if op.get("style") is not None else parent_style


def reenters_tracer(op):
    """The executed code makes pedal enter the tracer object of this execution a second time: it imports another
    student file, or an execution nested in it runs under the same tracer object."""
    return bool(op.get("nested")) or any(i.get("style") is None for i in op.get("inner") or ())


def enc_op(op, parent_style=None):
    toks = [op["entry"], enc_str(effective_style(op, parent_style)), enc_bool(reenters_tracer(op)),
            enc_bool(op.get("inject", False))]
    t = op["term"]
    if op["entry"] == "callmissing" or t[0] == "N":
        toks.append("N")
    else:
        toks.append(t[0])
        toks += enc_desc(t[1])
    return toks


def enc_nop(op, parent_style=None):
    """An op followed by the executions nested in it: `<op> <k> <nop>*k`."""
    inner = op.get("inner") or []
    toks = enc_op(op, parent_style) + [str(len(inner))]
    for i in inner:
        toks += enc_nop(i, effective_style(op, parent_style))
    return toks


def request_line(ops):
    if any(has_inner(op) for op in ops):
        toks = ["nhist", str(len(ops))]
        for op in ops:
            toks += enc_nop(op)
        return " ".join(toks)
    toks = ["hist", str(len(ops))]
    for op in ops:
        toks += enc_op(op)
    return " ".join(toks)


def flatten(ops, obs, level=0):
    """[(op, observation, level)] pre-order: an op, then the executions nested in it."""
    out = []
    for op, o in zip(ops, obs):
        out.append((op, o, level))
        if has_inner(op):
            out += flatten(op["inner"], o.get("inner", []), level + 1)
    return out


def nesting_depth(ops):
    """1 for a history without nested executions, 2 when an execution starts another one, ..."""
    return 1 + max([nesting_depth(op["inner"]) for op in ops if has_inner(op)] or [0])


def count_ops(ops):
    return sum(1 for _ in walk_ops(ops))


def parse_answer(ans):
    """-> list of model observations, or None for bad-request."""
    if ans.strip() == "bad-request":
        return None
    out = []
    for part in ans.split(" ; "):
        toks = part.strip().split(" ")
        o = {"outcome": toks[0]}
        for tk in toks[1:]:
            k, _, v = tk.partition("=")
            o[k] = v
        fbs = []
        if o.get("fb"):
            for item in o["fb"].split("|"):
                lab, name, line = item.split(",")
                fbs.append([dec_str(lab), dec_str(name), None if line == "?" else int(line)])
        out.append({
            "outcome": o["outcome"], "rk": o["rk"], "exc": None if o["exc"] == "-" else dec_str(o["exc"]),
            "fb": fbs, "nfb": int(o["nfb"]),
            "stdout": o["stdout"] == "1", "sleep": o["sleep"] == "1", "mods": o["mods"] == "1",
            "trace": o["trace"] == "1", "bi": o["bi"] == "1", "dp": int(o["dp"]), "do": int(o["do"]),
        })
    return out


C04_FIELDS = ("outcome", "rk", "exc", "fb")
# C05 is indifferent to whether the call returned or raised (that is C04's): `outcome` is not compared
C05_FIELDS = ("stdout", "sleep", "mods", "trace", "bi", "dp", "do")


def student_sets_trace_untraced(op):
    """The property covers the trace function 'when tracing is enabled': with tracer style 'none' pedal borrows no
    trace function, so a student program that calls sys.settrace itself decides what is installed afterwards."""
    return op is not None and op.get("style") == "none" and "settrace" in (op.get("code") or "")


def containable(op):
    t = op["term"]
    return t[0] != "N" and bool(t[1]["isException"] or t[1]["isSystemExit"])


def top_level_in_thread(op):
    return op is not None and op.get("threaded") in ("sandbox", "param")


def compare_op(prop, real, model, op=None):
    """Fields of `prop` on which one op's real and model observations differ."""
    diffs = []
    fields = C04_FIELDS if prop == "C04" else C05_FIELDS
    if prop == "C05" and student_sets_trace_untraced(op):
        fields = tuple(f for f in fields if f != "trace")
    if prop == "C05" and top_level_in_thread(op):
        # the tracer works on the worker thread's trace function; the calling thread's is not borrowed at all
        # (that it is untouched is the oracle's business) - the model describes the unthreaded execution
        fields = tuple(f for f in fields if f != "trace")
    if prop == "C04" and op is not None and op.get("threaded") and op["term"][0] != "N" and not containable(op):
        # outside C04's statement, and what a BaseException does to a worker thread is CPython's business
        return diffs
    if prop == "C04" and model["outcome"].startswith("esc"):
        # the call did not return: how far `_capture_exception` got before raising (was `sandbox.exception`
        # already assigned?) is not part of the property and not modelled
        fields = ("outcome", "rk", "fb")
    for k in fields:
        if k == "fb":
            r, m = real.get("fb_all", real["fb"]), model["fb"]
            if len(r) != len(m):
                diffs.append("nfb")
                continue
            for (rl, rn, rline), (ml, mn, mline) in zip(r, m):
                if rl != ml:
                    diffs.append("fb.label")
                if rn != mn:
                    diffs.append("fb.exception_name")
                if mline is not None and rline != mline:   # model `?` = a frame outside student/instructor code
                    diffs.append("fb.line")
        elif real[k] != model[k]:
            diffs.append(k)
    return diffs


# --------------------------------------------------------------------------
# oracles written from the property text


def expected_name(d):
    return "KeyError" if d["isKeyError"] else d["cls"]


ALIASES = {"OSError": ["IOError", "EnvironmentError"]}


def snake(name):
    return re.sub(r"(?<=[a-z0-9])(?=[A-Z])|(?<=[A-Z])(?=[A-Z][a-z])", "_", name).lower()


def acceptable_labels(d, generic="runtime_error"):
    """Labels of feedback classes that 'describe that exception class': the generic runtime feedback, or the one
    named after the class or one of its bases.  None when the class hierarchy is not known by construction."""
    if not d.get("mro"):
        return None
    names = []
    for n in d["mro"]:
        names += [n] + ALIASES.get(n, [])
    return {generic} | {snake(n) for n in names}


def student_line(d):
    lines = [l for k, l in d["frames"] if k == "S"]
    return lines[-1] if lines else None


SKIPPED = {}     # oracle clauses not applied, per reason (reported in the evidence)
REPORT_TEXT = {"own": "second = Report(); commands.run/call/evaluate(..., report=second)",
               "sandbox": "second = Report(); Sandbox(report=second).run/call/evaluate(...)"}


def where_tag(op, level):
    """What the signature says about HOW the op was executed (dimensions orthogonal to the termination)."""
    tag = {}
    if op.get("threaded"):
        tag["threaded"] = op["threaded"]
    if op.get("on"):
        tag["grader-thread"] = op["on"]
    if level:
        tag["execution"] = "nested-in-another"
    elif has_inner(op):
        tag["execution"] = "with-nested-executions"
    return tag


def how_text(op, level):
    bits = []
    if op.get("threaded"):
        bits.append({"sandbox": "sandbox.threaded = True", "param": "threaded=True passed",
                     "import": "only the imports threaded"}[op["threaded"]])
    if op.get("on"):
        bits.append("the grader running on " + GRADER_THREAD_TEXT.get(op["on"], op["on"]))
    if op.get("report"):
        bits.append("graded report: " + REPORT_TEXT.get(op["report"], op["report"]))
    if op.get("exec_code") is not None:
        bits.append("run(code, filename=%r) with a text of %d line(s) where %d '\\n'-line(s) are stored under that name"
                    % (op.get("exec_file", op.get("main", MAIN_FILE)), len(op["exec_code"].split("\n")),
                       len((op.get("helper") if op.get("exec_file") == HELPER_FILE else op["code"]).split("\n"))))
    if level:
        bits.append("started while another execution on the same sandbox was in progress (depth %d)" % (level + 1))
    elif has_inner(op):
        bits.append("its code started %d nested execution(s) on the same sandbox through %s" % (
            len(op["inner"]), {"mock": "a mocked builtin", "data": "an instructor function in its namespace",
                               "input": "the input callable"}.get(op.get("via"), "a hook")))
    return (" [" + "; ".join(bits) + "]") if bits else ""


def oracle_c04(op, o, level=0):
    """None, or (signature, what).  Only ops inside C04's quantifier are judged."""
    v = _oracle_c04(op, o)
    if v is None:
        return None
    sig, what = v
    sig.update(where_tag(op, level))
    return sig, what + how_text(op, level)


def _oracle_c04(op, o):
    if op.get("inject") or op.get("inject_store") or op["entry"] == "callmissing":
        return None
    t = op["term"]
    shape = op["shape"]
    if o.get("stray"):
        # "attached to the report": the report that is being graded, and no other report that happens to be alive
        name, category, label = o["stray"][0]
        return {"c04": "feedback-on-another-report", "report": op.get("report"),
                "shape": shape if t[0] != "N" else "normal-termination"}, \
            "%s() on a report of its own (%s) changed %s, which holds another, healthy submission: %s %s%s" % (
                op["entry"], REPORT_TEXT.get(op.get("report"), op.get("report")), name, category, label,
                "" if len(o["stray"]) == 1 else " (+%d more)" % (len(o["stray"]) - 1))
    if t[0] == "N":
        nshape = shape if shape in ("normal-imports-helper",) else "normal-termination"
        if o["outcome"] != "ret":
            return {"c04": "escaped", "shape": nshape}, "a program that ends normally made %s raise %s" % (
                op["entry"], o.get("escaped"))
        inner_failed = any(io.get("exc") is not None or io.get("fb") for io in o.get("inner", ()))
        if inner_failed:
            # the sandbox has ONE exception slot: a failure of an execution nested in this one stays in it
            SKIPPED["exception slot after a normal end: a nested execution failed"] = SKIPPED.get(
                "exception slot after a normal end: a nested execution failed", 0) + 1
        if (o["exc"] is not None and not inner_failed) or o["fb"]:
            return {"c04": "phantom-report", "shape": nshape}, \
                "a program that ends normally left exception=%s and %d runtime feedback%s" % (
                    o["exc"], len(o["fb"]), "" if not o["fb"] else " (%s at line %s)" % (o["fb"][0][1], o["fb"][0][2]))
        return None
    d = t[1]
    if not (d["isException"] or d["isSystemExit"]):
        return None
    if o["outcome"] != "ret":
        return {"c04": "escaped", "shape": shape}, "%s of a program raising %s did not return: %s escaped" % (
            op["entry"], d["cls"], o.get("escaped"))
    if o["exc"] != expected_name(d):
        return {"c04": "exception-not-available", "shape": shape}, \
            "after a %s the sandbox's exception is %s" % (d["cls"], o["exc"])
    if len(o["fb"]) != 1:
        return {"c04": "feedback-count", "n": len(o["fb"]), "shape": shape}, \
            "a %s produced %d runtime feedbacks" % (d["cls"], len(o["fb"]))
    label, name, line = o["fb"][0]
    if name != expected_name(d):
        return {"c04": "feedback-wrong-class", "shape": shape}, \
            "the runtime feedback for a %s describes %s" % (d["cls"], name)
    ok_labels = acceptable_labels(d)
    if ok_labels is None:
        SKIPPED["label: class hierarchy not known by construction"] = SKIPPED.get(
            "label: class hierarchy not known by construction", 0) + 1
    elif label not in ok_labels:
        return {"c04": "feedback-wrong-kind", "label": label, "shape": shape}, \
            "a %s is reported through the feedback class %r (expected the generic one or one named after %s)" % (
                d["cls"], label, " / ".join(d["mro"][:3]))
    sl = student_line(d)
    if sl is not None and line != sl:
        return {"c04": "location", "shape": shape}, \
            "a %s raised on student line %d is located on line %s" % (d["cls"], sl, line)
    return None


def oracle_c05(op, o, level=0):
    leaked = sorted(k for k in ("stdout", "sleep", "mods", "trace", "bi") if not o[k])
    if student_sets_trace_untraced(op) and "trace" in leaked:
        leaked.remove("trace")
    if o["dp"]:
        leaked.append("patch-stack")
    if o["do"]:
        leaked.append("stdout-stack")
    if not leaked:
        return None
    t = op["term"]
    how = "normal" if t[0] == "N" else ("exception" if t[1]["isException"] else
                                        ("systemexit" if t[1]["isSystemExit"] else "baseexception"))
    if t[0] == "C":
        how = "compile-" + how
    if op.get("timeout"):
        how = "timeout"         # the execution was given up on after `allowed_time`; its thread ended later
    sig = {"c05": "leak", "what": leaked}
    if leaked == ["trace"]:
        sig["style"] = op["style"]
    else:
        sig["termination"] = how
        if op.get("inject"):
            sig["injected"] = True
        if op.get("inject_store"):
            sig["injected"] = "storing-the-output"
    sig.update(where_tag(op, level))
    return sig, "after %s() of a program %sending by %s (tracer style %s%s) not %s: %s%s" % (
        op["entry"].replace("callmissing", "call"), "importing another student file and " if op.get("nested") else "",
        how if t[0] == "N" else t[1]["cls"], op["style"],
        ", recording failure injected" if op.get("inject") else
        (", failure injected into %s while the captured output is stored" % op["inject_store"]
         if op.get("inject_store") else ""),
        "as it was when this nested execution started" if level else "restored", ", ".join(leaked),
        how_text(op, level))


ORACLES = {"C04": oracle_c04, "C05": oracle_c05}


def failures_in(prop, ops, obs):
    """[(index of the top-level op, signature, what)] - executions nested in an op are judged too."""
    out = []
    for i, (op, o) in enumerate(zip(ops, obs)):
        for op2, o2, level in flatten([op], [o]):
            v = ORACLES[prop](op2, o2, level)
            if v is not None:
                out.append((i, v[0], v[1]))
    return out


def shrink_history(prop, ops, idx, sig):
    """Smallest sub-history that still shows `sig` at its last op (or in an execution nested in it)."""
    op = ops[idx]
    candidates = []
    if op["entry"] in ("call", "eval") and "expr" not in op or op.get("expr") in ("f()", "f() + 1"):
        setup = None
        for j in range(idx - 1, -1, -1):
            if ops[j]["entry"] == "run":
                setup = ops[j]
                break
        if setup is not None:
            candidates.append([setup, op])
    else:
        candidates.append([op])
    candidates.append(ops[:idx + 1])
    for cand in candidates:
        try:
            obs = run_history(cand)
        except Exception:
            continue
        if any(i == len(cand) - 1 and s2 == sig for i, s2, _ in failures_in(prop, cand, obs)):
            return cand, obs
    return ops[:idx + 1], None

"""C12 — verify() reports a syntax error exactly when Python's parser rejects the source."""
import ast
import glob
import json
import os
import random
import re
import sys

from common import REPO, CorrResult, Failure, parse_kv, run_check, use_repo
from translate_source import translate

use_repo()
from pedal.core.commands import clear_report, contextualize_report  # noqa: E402
from pedal.core.report import MAIN_REPORT, Report  # noqa: E402
from pedal.core.submission import Submission  # noqa: E402
from pedal.source import verify, set_source  # noqa: E402
from pedal.source.sections import DEFAULT_SECTION_PATTERN, next_section, separate_into_sections  # noqa: E402

THEOREMS = [
    "Pedal.Source.ladder_table",
    "Pedal.Source.tables_sane",
    "Pedal.Source.c12_never_raises",
    "Pedal.Source.c12_feedback_iff_rejected",
    "Pedal.Source.c12_line_is_cpython_line_plus_offset",
    "Pedal.Source.c12_blank_reported",
    "Pedal.Source.c12_tree_stored",
    "Pedal.Source.c12_rejected_not_stored",
]
NOTES = [
    "CPython's parser is a parameter: the model takes (exception class, lineno) or 'parsed' as input; the harness "
    "obtains it by calling ast.parse itself on the same text",
    "theorems cover the rejecting classes SyntaxError/IndentationError/TabError/MemoryError/RecursionError/"
    "ValueError/Unicode*Error; any other class observed from ast.parse is reported as an unmodelled outcome",
    "the except-ladder, pre-checks and MROs are regenerated from pedal/source/source.py's AST on every run",
    "feedback construction (message formatting, traceback rendering) is exercised by the real runs, not modelled",
]

FILENAME = "answer.py"
FILENAMES = ["answer.py", "answer.py", "student.py", "hw/part_b.py", "main.py"]
BASE_PROGRAMS = [
    "x = 1\nprint(x)\n",
    "def f(a, b):\n    if a > b:\n        return a\n    return b\n\nprint(f(1, 2))\n",
    "for i in range(3):\n    print(i)\nelse:\n    pass\n",
    "class A:\n    def __init__(self):\n        self.x = [1, 2, 3]\n\na = A()\n",
    "import math\ntotal = 0\nwhile total < 10:\n    total += math.floor(2.5)\nprint('done', total)\n",
    "names = {'a': 1, 'b': 2}\nfor k, v in names.items():\n    print(f'{k}={v}')\n",
    "try:\n    x = int(input())\nexcept ValueError as e:\n    x = 0\nfinally:\n    print(x)\n",
    "é = 1\nπ = 3.14\nprint(é + π)\n",
    "x = [i * 2 for i in range(10) if i % 2]\ny = (1,\n     2,\n     3)\n",
    "s = '''multi\nline'''\nt = \"q\" \\\n    \"r\"\n",
    "def g():\n\treturn 1\n",
    "if True:\n    if False:\n        pass\n    elif 1:\n        x = 2\n    else:\n        x = 3\n",
    "lambda_ = lambda a, *b, c=1, **d: (a, b, c, d)\nprint(lambda_(1))\n",
    "with open('f') as fh:\n    data = fh.read()\n",
    "x = 1 if 2 else 3\nassert x, 'msg'\ndel x\n",
]
ALPHABET = list("()[]{}:,.'\"#=+-*/\\ \t\n\r\x0c\x00abcdef01 ;@!%&|<>~^`$?\u00a0\u00e9\ufeff")
SPECIALS = ["", " ", "\n", "  \n\t", "\x0c", "\xa0", "a\x00b", "\x00", "x = (", "'''abc", "a\tb", "\x0c a=1",
            "a=1\r\nb=2\r", "def f():\n\treturn 1\n        return 2", "x = 1 +\n", "(" * 300 + ")" * 300,
            "f(**)", "print 'a'", "x = 0777", "a = 1\n b = 2", "\\", "a = '\\x'", "x = [1,2\n", "class",
            "-" * 100000 + "1", 'x="\ud800"', "\ud800", "\ufeffx=1", "x=1\x1a", "if x:\npass",
            "x = 1\n\n\n\n  y = 2\n", "def f(:\n pass", "x = 1\ry y", "a = 1\nb = 2\rc c", "a = 1\r\nb b", "x = 1\r", "a = 1;;", "1 = x", "x = yield", "return 5", "await x",
            "f'{'", "0x", "1__0", "x = $", "x = ?", "\t\tx=1", " \x0c\n"]


def programs():
    progs = list(BASE_PROGRAMS)
    for path in sorted(glob.glob(os.path.join(REPO, "examples", "*.py")))[:12]:
        try:
            with open(path, encoding="utf-8") as fh:
                progs.append(fh.read())
        except Exception:
            pass
    return progs


def newline_variant(rng, text):
    """Rewrite line ends as lone CR / CRLF / a mixture and put a syntax error on a chosen (often the last) line."""
    lines = text.split("\n")
    if lines and lines[-1] == "":
        lines.pop()
    if not lines:
        lines = ["x = 1"]
    if rng.random() < 0.8:
        bad = rng.choice(["y y", "x = (", "1 = 2", "  z = 3", "def f(:", "c c"])
        pos = rng.choice([len(lines), len(lines), rng.randint(0, len(lines))])
        lines.insert(pos, bad)
    style = rng.choice(["cr", "cr", "crlf", "mixed", "last-cr"])
    out = []
    for i, ln in enumerate(lines):
        out.append(ln)
        if i == len(lines) - 1:
            out.append(rng.choice(["", "", "\r", "\n", "\r\n"]))
        elif style == "cr":
            out.append("\r")
        elif style == "crlf":
            out.append("\r\n")
        elif style == "last-cr":
            out.append("\r" if i == len(lines) - 2 else "\n")
        else:
            out.append(rng.choice(["\r", "\n", "\r\n"]))
    return "".join(out)


def gen_text(rng, progs):
    r = rng.random()
    if r < 0.06:
        return rng.choice(SPECIALS)
    if r < 0.20:
        lines = rng.choice(progs).split("\n")
        n = rng.randint(1, 6)
        start = rng.randint(0, max(0, len(lines) - n))
        return newline_variant(rng, "\n".join(lines[start:start + n]))
    lines = rng.choice(progs).split("\n")
    n = rng.randint(1, 12)
    start = rng.randint(0, max(0, len(lines) - n))
    text = "\n".join(lines[start:start + n])
    if rng.random() < 0.5:
        text += "\n"
    k = rng.choice([0, 0, 0, 1, 1, 2, 3])
    chars = list(text)
    for _ in range(k):
        if chars and rng.random() < 0.45:
            del chars[rng.randrange(len(chars))]
        else:
            chars.insert(rng.randint(0, len(chars)), rng.choice(ALPHABET))
    if rng.random() < 0.05:
        chars = list("".join(chars).replace("    ", "\t", 1))
    text = "".join(chars)
    if rng.random() < 0.12:
        text = magic_comments(rng, text)
    return text


# comments that some parser MODE or tool gives a meaning to (type comments, coding cookies, shebangs, pragma-like
# markers): plain ast.parse(text) treats all of them as comments, and so must verify()
MAGIC_COMMENTS = ["# type: int", "# type: console program", "# type: ignore", "# type: (int) -> int", "# type: list[",
                  "# -*- coding: utf-8 -*-", "# coding: latin-1", "#!/usr/bin/env python3", "# noqa", "# fmt: off",
                  "# type:", "#type: str", "# pragma: no cover", "# vim: set fileencoding=utf-8 :"]


def magic_comments(rng, text):
    lines = text.split("\n")
    for _ in range(rng.randint(1, 2)):
        c = rng.choice(MAGIC_COMMENTS)
        i = rng.randrange(len(lines))
        how = rng.randrange(3)
        if how == 0 or not lines[i].strip():
            lines.insert(i, c)                                   # a line of its own (header-style)
        elif how == 1:
            lines[i] = lines[i] + "  " + c                       # trailing on a statement / header line
        else:
            lines.insert(i, (len(lines[i]) - len(lines[i].lstrip())) * " " + c)   # own line, same indentation
    return "\n".join(lines)


def cpython_outcome(code, filename=FILENAME):
    try:
        tree = ast.parse(code, filename)
        return None, tree
    except BaseException as e:  # noqa
        ln = getattr(e, "lineno", None)
        return (type(e).__name__, ln if isinstance(ln, int) else None), None


def run_real(code, offset, load_error=False, filename=FILENAME, explicit=False, style=None):
    """The submission's main file is `filename`; a section offset (if any) is registered for the MAIN FILE,
    as next_section() does.  `style` = which public spelling reaches verify():
      0 bare verify() on MAIN_REPORT          1 verify(code, filename) on MAIN_REPORT
      2 bare verify(report=r) on a Report of the grader's own (MAIN_REPORT cleared and empty)
      3 verify(code, filename, report=r)      4 set_source(code, filename=filename) on a cleared MAIN_REPORT
      5 verify(code, 'snippet_zz.py') of a text that is NOT the submission (main file `filename` holds other code)
    (4 and 5 only without a section offset)."""
    if style is None:
        style = 1 if explicit else 0
    if style in (4, 5) and (offset or load_error):
        style = 0
    clear_report()
    rep = MAIN_REPORT
    if style in (2, 3):
        rep = Report()
        rep.contextualize(Submission({filename: code}, filename))
    elif style == 4:
        pass
    elif style == 5:
        contextualize_report(Submission({filename: "zz_other = 1\n"}, filename))
    else:
        # contextualize_report(code, filename=f) stores the file but leaves the MAIN file at 'answer.py';
        # the main file has to be named explicitly for it to hold the code.
        contextualize_report(Submission({filename: code}, filename))
    if style not in (4, 5):
        sub = rep.submission
        assert sub.main_file == filename and sub.main_code == code, "harness: submission not set up as intended"
        if offset:
            sub.set_line_offset(offset)
        if load_error:
            sub.load_error = FileNotFoundError("nope")
    out = {"raised": None}
    try:
        if style == 0:
            out["returned"] = verify()
        elif style == 1:
            out["returned"] = verify(code, filename)
        elif style == 2:
            out["returned"] = verify(report=rep)
        elif style == 3:
            out["returned"] = verify(code, filename, report=rep)
        elif style == 4:
            set_source(code, filename=filename)
            out["returned"] = MAIN_REPORT["source"]["success"] is not False and code.strip() != ""
        else:
            out["returned"] = verify(code, "snippet_zz.py")
    except BaseException as e:  # noqa
        out["raised"] = type(e).__name__
        out["detail"] = str(e)[:200]
    fbs = []
    for f in rep.feedback:
        line = f.location.line if getattr(f, "location", None) is not None else None
        fbs.append([f.label, f.category, line])
    if rep is not MAIN_REPORT:
        # nothing may be filed on another report than the one the grader passed
        for f in MAIN_REPORT.feedback:
            fbs.append(["LEAKED-TO-MAIN_REPORT:" + str(f.label), f.category, None])
    out["feedback"] = fbs
    out["success"] = rep["source"]["success"]
    out["tree"] = rep["source"]["ast"]
    return out


def model_request(code, offset, outcome, load_error=False):
    blank = code.strip() == ""
    if outcome is None:
        cls, ln = "-", "-"
    else:
        cls, ln = outcome[0], ("-" if outcome[1] is None else str(outcome[1]))
    return "verify %d %d %s %s %d" % (load_error, blank, cls, ln, offset)


def parse_model(ans):
    head, kv = parse_kv(ans)
    if head != "ok":
        return {"bad": ans}
    fbs = []
    body = kv["feedback"].strip("[]")
    for item in body.split(","):
        if item:
            name, line = item.rsplit(":", 1)
            fbs.append([name, None if line == "-" else int(line)])
    return {"feedback": fbs, "success": kv["success"] == "1", "tree": kv["tree"] == "1",
            "raised": None if kv["raised"] == "-" else kv["raised"]}


def tree_is_parse(real, tree):
    if tree is None or real["tree"] is None:
        return False
    try:
        return ast.dump(real["tree"]) == ast.dump(tree)
    except Exception:
        return False


def compare(real, model, tree):
    if "bad" in model:
        return ["bad-request"]
    d = []
    if (real["raised"] or None) != model["raised"]:
        # an 'unmodelled' answer is a correspondence failure too
        d.append("raised")
        return d
    if [[a, c] for a, b, c in real["feedback"]] != model["feedback"]:
        d.append("feedback")
    if real["raised"] is None:
        if bool(real["success"]) != model["success"]:
            d.append("success")
        if tree_is_parse(real, tree) != model["tree"]:
            d.append("tree")
    return d


SYNTAX_ERR_LABELS_EXCLUDED = ("blank_source", "source_file_not_found")


def oracle(code, offset, outcome, tree, real):
    """The property, from its text. None = holds; else (signature, what)."""
    if real["raised"] is not None:
        return ({"raises": real["raised"]}, "verify() raised %s: %s" % (real["raised"], real.get("detail")))
    synt = [f for f in real["feedback"] if f[1] == "syntax" and f[0] not in SYNTAX_ERR_LABELS_EXCLUDED]
    rejected = outcome is not None
    if rejected and not synt:
        return ({"missing": "syntax-feedback"}, "CPython rejects (%s) but no syntax feedback" % (outcome,))
    if not rejected and synt:
        return ({"spurious": "syntax-feedback"}, "CPython accepts but syntax feedback %r attached" % (synt,))
    if rejected:
        if len(synt) != 1:
            return ({"count": "syntax-feedback"}, "%d syntax feedbacks" % len(synt))
        exp = None if outcome[1] is None else outcome[1] + offset
        if synt[0][2] != exp:
            return ({"line": "wrong"}, "feedback line %r, CPython line %r + offset %d" % (synt[0][2], outcome[1], offset))
    if code.strip() == "" and not any(f[0] == "blank_source" for f in real["feedback"]):
        return ({"blank": "unreported"}, "blank source not reported as blank")
    if not rejected and not tree_is_parse(real, tree):
        return ({"tree": "not-stored"}, "text parses but the stored tree is not CPython's")
    return None


# ---------------------------------------------------------------------------
# sectioned files: verify() of section k of an independently sectioned file must report the line CPython itself
# reports for the WHOLE file.  The offset next_section() registers is pedal's own arithmetic here (the streams
# above register a number of the harness's choosing), so every character that some line-splitting routine
# (str.splitlines, str.split("\n"), the tokenizer) treats differently has to occur BEFORE the section.

# A lone CR before the section is a line end for CPython's tokenizer but not for next_section()'s split("\n"): an OPEN
# finding of the unchanged tree (KNOWN_FINDINGS.jsonl, notes/C12.md).  The inputs are on by default (0 = off switch);
# every failure on an input of that family - classified on the INPUT, see lone_cr_family - carries exactly the
# signature LONE_CR_FAMILY, is shown once per run, uses no failure slot and is left out of the model correspondence
# (the model takes the offset as a parameter; what pedal computes for it is the finding itself).
LONE_CR = os.environ.get("VERIF_C12_LONE_CR", "1") != "0"
LONE_CR_FAMILY = {"family": "lone-cr-before-independent-section"}
_LONE_CR = re.compile(r"\r(?!\n)")


def lone_cr_family(c):
    """Sectioned case (always independent mode here) whose file text BEFORE the section under test contains a lone CR."""
    if "sect" not in c:
        return False
    start = c["upto"] - len(c["code"])
    return any(m.start() < start for m in _LONE_CR.finditer(c["sect"]["text"]))

SECT_NL_PATTERN = r'^(# ==== .+ ====\n)'
SECT_PATTERNS = [DEFAULT_SECTION_PATTERN, DEFAULT_SECTION_PATTERN, DEFAULT_SECTION_PATTERN, r'^(# SECTION \d+)$',
                 SECT_NL_PATTERN]
SECT_MARKERS = {DEFAULT_SECTION_PATTERN: lambda k: "##### Part %d" % k, r'^(# SECTION \d+)$': lambda k: "# SECTION %d" % k,
                SECT_NL_PATTERN: lambda k: "# ==== part %d ====" % k}
SECT_STMTS = ["a = 1", "print(1)", "", "b = 2", "# c", "pass", "if 1:\n    c = 3", "def f(x):\n    return x\n", "   ",
              "d = [1,\n     2]", "e = \"\"\"two\nlines\"\"\"", "import math", "t = \"q\" \\\n    \"r\"", "\t"]
# legal Python in which str.splitlines() sees MORE line ends than CPython's tokenizer does (FF, VT, FS/GS/RS, NEL, LS, PS)
SECT_ODD = ["\x0c", "\x0c\x0c", " \x0c", "g = 1 \x0c", "\x0ch = 1", "# c\x0b d", "s = 'a\u2028b'",
            "t = \"\"\"a\x0bb\u2028c\x85\"\"\"", "# \x1c\x1d\x1e", "u = 1  # \x85\u2029", "v = (1,\x0c\n 2)", "w = '\x1c'  # \x0c",
            "k = \"\"\"p\x0c\nq\u2029\"\"\""]
# legal Python in which CPython's tokenizer sees MORE line ends than str.split("\n") does (lone CR); gated
SECT_LONE_CR = ["i = 1\rj = 2", "# a\rm = 2", "s = \"\"\"a\rb\"\"\"", "n = [1,\r 2]", "if 1:\r    o = 2", "p = 1\r"]
SECT_ERRORS = ["y y", "x = (", "1 = 2", "  z = 3", "def f(:", "for i in range(3):\nprint(i)", "if 1:\n\tx = 1\n        y = 2",
               "q = 1 \x0b", "w = '", "s = \"\"\"abc", "x = 1 +", "a = 1;;", "return = 5", "x = 0777", "class", "f(**)",
               "x = $", "r = 1 \u2028", "c c\x0c", "if 1:\n    pass\n  k = 2", "print 'a'", "x = [1,2\n"]
_CP_EOL = re.compile(r"\r\n|\r|\n")


def cpython_lines_before(text, start):
    """How many line ends CPython's tokenizer sees in text[:start]: \\n, \\r\\n and a lone \\r, nothing else (checked
    against ast.parse of the file on every case, see sect_oracle).  A \\r right before `start` whose \\n sits at
    `start` belongs to a CRLF that ends after `start`."""
    n = len(_CP_EOL.findall(text[:start]))
    if start > 0 and text[start - 1] == "\r" and text[start:start + 1] == "\n":
        n -= 1
    return n


def sect_spans(text, pattern):
    """(start, end) of every separator, from Python's own re; None if a match is not the whole group (then
    re.split would not alternate code and separators)."""
    spans = []
    for m in re.finditer(pattern, text, flags=re.MULTILINE):
        if m.group(1) != m.group(0):
            return None
        spans.append((m.start(), m.end()))
    return spans


def sect_chunk(text, pattern, k):
    spans = sect_spans(text, pattern)
    if spans is None or not (0 <= k <= len(spans)):
        return None
    if k == 0:                      # the prologue: from the start of the file to the first separator
        return 0, (spans[0][0] if spans else len(text))
    start = spans[k - 1][1]
    end = spans[k][0] if k < len(spans) else len(text)
    return start, end


def gen_sectioned(rng):
    pattern = rng.choice(SECT_PATTERNS)
    entry = "set_source" if pattern == DEFAULT_SECTION_PATTERN and rng.random() < 0.2 else "separate"
    nsec = rng.randint(1, 4)
    k = rng.randint(1, nsec)
    chunks = []
    for j in range(nsec + 1):
        stmts = [rng.choice(SECT_STMTS) for _ in range(rng.randint(0, 4))]
        if j <= k and rng.random() < 0.6:
            for _ in range(rng.randint(1, 2)):
                stmts.insert(rng.randint(0, len(stmts)), rng.choice(SECT_ODD))
        if LONE_CR and j <= k and rng.random() < 0.3:
            stmts.insert(rng.randint(0, len(stmts)), rng.choice(SECT_LONE_CR))
        chunks.append(stmts)
    if rng.random() < 0.8:
        chunks[k].insert(rng.randint(0, len(chunks[k])), rng.choice(SECT_ERRORS))
    if k < nsec and rng.random() < 0.2:
        chunks[rng.randint(k + 1, nsec)].append(rng.choice(SECT_ERRORS))   # a LATER section's error is not section k's
    lines = []
    for j, stmts in enumerate(chunks):
        if j > 0:
            lines.append(SECT_MARKERS[pattern](j))
        for st in stmts:
            lines += st.split("\n")
    eol = rng.choice(["\n"] * 7 + ["\r\n", "mixed", "mixed"])
    out = []
    for i, ln in enumerate(lines):
        out.append(ln)
        if i < len(lines) - 1:
            out.append(rng.choice(["\n", "\n", "\r\n"]) if eol == "mixed" else eol)
    text = "".join(out) + rng.choice(["\n", "\n", "\n", "", "\n\n", "\r\n"])
    return {"text": text, "pattern": pattern, "k": k, "entry": entry, "verify_each": rng.random() < 0.5}


def sect_case(rng):
    """A case of the common shape: code = section k as Python's own re cuts it, offset = the line ends CPython
    counts before it; None if the generated file has fewer than k separators for the pattern (CRLF vs the
    newline-capturing pattern)."""
    s = gen_sectioned(rng)
    return sect_fill({"sect": s, "filename": rng.choice(FILENAMES), "style": rng.choice([0, 0, 2, 2, 1, 3]),
                      "explicit": False})


def sect_fill(c):
    s = c["sect"]
    pos = sect_chunk(s["text"], s["pattern"], s["k"])
    if pos is None:
        return None
    c["code"] = s["text"][pos[0]:pos[1]]
    c["offset"] = cpython_lines_before(s["text"], pos[0])
    c["upto"] = pos[1]
    return c


def run_real_sectioned(c):
    """Walk to section k the way a grader does and verify() it; the feedback is what that LAST verify() added."""
    s, filename, style = c["sect"], c["filename"], c["style"]
    clear_report()
    own = style in (2, 3)
    rep = Report() if own else MAIN_REPORT
    kw = {"report": rep} if own else {}
    out = {"raised": None, "feedback": [], "success": None, "tree": None, "returned": None}
    n0 = m0 = 0
    try:
        if s.get("prior"):
            # an EARLIER separation of another text of the same file, walked to an independent section with lines
            # before it and NOT stopped: nothing of it may reach the numbering of the new separation
            set_source(s["prior"]["text"], filename=filename, sections=True, **kw)
            for _ in range(s["prior"]["steps"]):
                next_section(**kw)
        if s["entry"] == "set_source":
            set_source(s["text"], filename=filename, sections=True, **kw)
        else:
            rep.contextualize(Submission({filename: s["text"]}, filename))
            separate_into_sections(pattern=s["pattern"], independent=True, **kw)
        if s["verify_each"]:
            verify(**kw)
        for i in range(s["k"]):
            next_section(**kw)
            if s["verify_each"] and i < s["k"] - 1:
                verify(**kw)
        n0 = len(rep.feedback)
        # the section GROUP objects of separate_into_sections/next_section are filed on MAIN_REPORT whatever report
        # was passed (sections' business, not verify's): only what the last verify() adds there counts as leaked
        m0 = len(MAIN_REPORT.feedback)
        sub = rep.submission
        out["presented"] = sub.main_code
        out["pedal_offset"] = sub.line_offsets.get(sub.main_file, 0)
        if style in (1, 3):
            out["returned"] = verify(sub.main_code, sub.main_file, **kw)
        else:
            out["returned"] = verify(**kw)
    except BaseException as e:  # noqa
        out["raised"] = type(e).__name__
        out["detail"] = str(e)[:200]
    fbs = []
    for f in rep.feedback[n0:]:
        line = f.location.line if getattr(f, "location", None) is not None else None
        fbs.append([f.label, f.category, line])
    if rep is not MAIN_REPORT:
        for f in MAIN_REPORT.feedback[m0:]:
            fbs.append(["LEAKED-TO-MAIN_REPORT:" + str(f.label), f.category, None])
    out["feedback"] = fbs
    out["success"] = rep["source"]["success"]
    out["tree"] = rep["source"]["ast"]
    return out


def sect_oracle(c, outcome, tree, real):
    """The property for a section: oracle() with offset = CPython's own count, and - where CPython can be asked
    directly - the line ast.parse reports for the file cut off after section k (earlier sections are valid by
    construction, so its first error is section k's).  Returns (violation or None, skip reason or None)."""
    s = c["sect"]
    if real["raised"] is None and real.get("presented") != c["code"]:
        return ({"where": "section", "presented": "not-section-k"},
                "section %d presented as %r, re.finditer cuts %r"
                % (s["k"], (real.get("presented") or "")[:60], c["code"][:60])), None
    skip = None
    if outcome is not None and outcome[1] is not None:
        whole, _ = cpython_outcome(s["text"][:c["upto"]], c["filename"])
        if whole is None or whole[0] != outcome[0] or whole[1] is None:
            skip = "whole-file-parse-differs-in-kind"       # only the count-based expectation is available
        elif whole[1] != outcome[1] + c["offset"]:
            return None, "ORACLES-DISAGREE"                  # never on a well-formed case; counted in the evidence
    v = oracle(c["code"], c["offset"], outcome, tree, real)
    if v is not None:
        sig = dict(v[0])
        sig["where"] = "section"
        what = v[1] + (" [section %d of an independently sectioned file; next_section() registered offset %r, CPython "
                       "counts %d line ends before the section]" % (s["k"], real.get("pedal_offset"), c["offset"]))
        return (sig, what), skip
    return None, skip


def evaluate(c):
    """(outcome, tree, real) for a case of either kind."""
    outcome, tree = cpython_outcome(c["code"], c["filename"])
    if "sect" in c:
        return outcome, tree, run_real_sectioned(c)
    return outcome, tree, run_real(c["code"], c["offset"], c.get("load_error", False), c["filename"], c["explicit"],
                                   c.get("style"))


def judge(c, outcome, tree, real):
    if "sect" in c:
        return sect_oracle(c, outcome, tree, real)
    return oracle(c["code"], c["offset"], outcome, tree, real), None


def sect_count(count, c):
    """Which of the dimensions a sectioned case really exercises (evidence)."""
    s = c["sect"]
    before = s["text"][:c["upto"] - len(c["code"])]
    count("sectioned")
    if len(before.splitlines()) != len(_CP_EOL.findall(before)) + (0 if before.endswith(("\n", "\r")) or not before else 1):
        count("sectioned:splitlines-only-breaks-before-section")
    if before.count("\n") != cpython_lines_before(s["text"], len(before)):
        count("sectioned:lone-CR-before-section")
    count("sectioned:entry=" + s["entry"])
    if s.get("prior"):
        count("sectioned:earlier-separation-still-open" + (":prologue" if s["k"] == 0 else ""))


PRIOR_TEXTS = ["import math\nx = 0\n##### Part 1\na = 1\n##### Part 2\nb = 2\n",
               "p = 0\n\n\nq = 1\n##### Part 1\na = 1\n",
               "##### Part 1\na = 1\nb = 2\nc = 3\n##### Part 2\nd = 4\n##### Part 3\ne = 5\n"]


def prior_sect_case(rng):
    """A second separation started while an earlier one is still open (no stop_sections() in between), verified at
    its prologue (section 0, which registers no offset of its own) or at a later section."""
    for _ in range(50):
        s = gen_sectioned(rng)
        if s["pattern"] == DEFAULT_SECTION_PATTERN:
            break
    else:
        return None
    s["entry"] = "set_source" if rng.random() < 0.8 else "separate"
    if rng.random() < 0.7:
        s["k"] = 0
        if rng.random() < 0.85:
            lead = [rng.choice(SECT_STMTS[:3]) for _ in range(rng.randint(0, 2))] + [rng.choice(SECT_ERRORS[:5])]
            s["text"] = "\n".join(lead) + "\n" + s["text"]
    prior = rng.choice(PRIOR_TEXTS)
    s["prior"] = {"text": prior, "steps": rng.randint(1, prior.count("#####"))}
    return sect_fill({"sect": s, "filename": rng.choice(FILENAMES), "style": rng.choice([0, 0, 2, 2, 1, 3]),
                      "explicit": False})


def make_prior_sectioned(n):
    """own PRNG (derived from the seed) so that the older streams stay what they were"""
    rng = random.Random("c12-prior-separation-%s" % os.environ.get("VERIF_SEED", "0"))
    out = []
    for _ in range(n):
        c = prior_sect_case(rng)
        if c is not None:
            out.append(c)
    return out


def make_sectioned(rng, n):
    out = []
    for _ in range(n):
        c = sect_case(rng)
        if c is not None:
            out.append(c)
    return out


def corpus():
    d = os.path.join(os.path.dirname(os.path.dirname(os.path.abspath(__file__))), "corpus", "C12")
    out = []
    if os.path.isdir(d):
        for n in sorted(os.listdir(d)):
            if n.endswith(".json"):
                with open(os.path.join(d, n)) as fh:
                    out.append(json.load(fh))
    return out


def make_cases(rng, n):
    progs = programs()
    cases = [{"code": c["code"], "offset": c.get("offset", 0), "filename": c.get("filename", FILENAME),
              "explicit": c.get("explicit", False)} for c in corpus() if "sect" not in c]
    for c in corpus():
        if "sect" in c and (LONE_CR or not c.get("lone_cr")):
            cc = sect_fill({"sect": dict(c["sect"]), "filename": c.get("filename", FILENAME), "style": c.get("style", 0),
                            "explicit": False})
            if cc is not None:
                cases.append(cc)
    cases += make_sectioned(rng, max(300, n // 8))
    cases += make_prior_sectioned(max(150, n // 16))
    for s in SPECIALS:
        cases.append({"code": s, "offset": rng.choice([0, 0, 3]), "filename": rng.choice(FILENAMES),
                      "explicit": rng.random() < 0.3})
    for _ in range(n):
        cases.append({"code": gen_text(rng, progs), "offset": rng.choice([0, 0, 0, 1, 5, 40]),
                      "filename": rng.choice(FILENAMES), "explicit": rng.random() < 0.3})
    for c in cases:
        if "style" not in c:
            st = rng.choice([None, None, None, None, 2, 3, 4, 5])   # None: bare / explicit as `explicit` says
            if st in (4, 5) and c["offset"]:
                st = 2
            c["style"] = st if st is not None else (1 if c["explicit"] else 0)
    return cases


def correspond(rng, tier, driver):
    res = CorrResult()
    res.rule = ("texts = corpus + 44 special strings (NUL, FF, CR, NBSP, BOM, lone surrogate, parser give-up, ...) + "
                "1-12 line windows of 15 built-in programs and /repo/examples with 0-3 random char insertions/deletions; "
                "a line-terminator family (lone CR / CRLF / mixed line ends with a syntax error on the last or a random "
                "line); random section line offsets registered for the main file; independently SECTIONED files (1-4 separators, "
                "three patterns, entered by separate_into_sections or set_source(sections=True), \\n / CRLF / mixed line "
                "ends, earlier sections containing FF / VT / FS-GS-RS / NEL / LS / PS on lines of their own, at line ends, "
                "in comments and strings; optional syntax / indentation / tab error in section k and in a later one) where "
                "verify() is reached through next_section() and the model is fed CPython's own count of line ends before "
                "the section; main file named answer.py / student.py "
                "/ hw/part_b.py / main.py; verify() called bare or as verify(code, filename); real = pedal.source.verify on MAIN_REPORT, model = Pedal.Source.verify fed "
                "with ast.parse's own outcome; non-trivial = text rejected by the parser, blank, or offset > 0")
    n = 5000 if tier == "quick" else 20000
    cases = make_cases(rng, n)
    # a few load-error cases (correspondence only)
    extra = [{"code": "x = 1", "offset": 0, "load_error": True, "filename": FILENAME, "explicit": False},
             {"code": "x = (", "offset": 2, "load_error": True, "filename": "student.py", "explicit": False}]
    rows, lines, search_only = [], [], []
    for c in cases + extra:
        outcome, tree, real = evaluate(c)
        if lone_cr_family(c):
            search_only.append((c, outcome, tree, real))      # open finding: classified and shown by the search
            res.count("sectioned:lone-cr-family(search only)")
            continue
        rows.append((c, outcome, tree, real))
        lines.append(model_request(c["code"], c["offset"], outcome, c.get("load_error", False)))
    answers = driver.ask(lines)
    for (c, outcome, tree, real), ans in zip(rows, answers):
        model = parse_model(ans)
        res.evaluations += 1
        res.count("outcome:" + ("parsed" if outcome is None else outcome[0]))
        if outcome is not None and outcome[1] is None:
            res.count("lineno-none")
        if c["code"].strip() == "":
            res.count("blank")
        res.count("file:" + c["filename"])
        res.count("verify-style:%s" % c.get("style"))
        if "\r" in c["code"]:
            res.count("has-CR")
        if "sect" in c:
            sect_count(res.count, c)
        if outcome is not None or c["code"].strip() == "" or c["offset"]:
            res.nontrivial.add(json.dumps([c["code"], c["offset"], c["filename"], c["explicit"], c.get("sect")]))
        d = compare(real, model, tree)
        if d:
            real_c = {k: v for k, v in real.items() if k != "tree"}
            if "sect" in c and real.get("presented") != c["code"]:
                d.append("presented-text")          # the model was asked about another text than pedal verified
            res.disagreements.append({"case": c, "cpython": outcome, "real": real_c, "model": model, "fields": d})
    res.samples = [rows[-1][0], rows[len(rows) // 2][0]]
    res.rows = search_only + rows
    return res


def shrink_text(code, offset, fails):
    cur = code
    changed = True
    while changed and len(cur) > 1:
        changed = False
        # drop lines, then characters
        for unit in ("\n", None):
            parts = cur.split("\n") if unit else list(cur)
            i = 0
            while i < len(parts) and len(parts) > 1:
                cand_parts = parts[:i] + parts[i + 1:]
                cand = ("\n" if unit else "").join(cand_parts)
                if fails(cand):
                    parts = cand_parts
                    cur = cand
                    changed = True
                else:
                    i += 1
            if len(cur) > 200:
                break
    return cur


def search(rng, tier, broken, corr):
    failures, seen, family = [], set(), []
    info = {"rule": "real verify() vs the property oracle (never raises; syntax feedback iff ast.parse rejects; line = "
                    "CPython line + offset; blank reported; stored tree = CPython's) on the correspondence texts plus "
                    "more seeded mutants; for the sectioned files the expected line is CPython's: its count of line ends before "
                    "the section + the section's own error line, cross-checked on every case against ast.parse of the "
                    "file cut off after that section", "evaluations": 0, "distinct_nontrivial": 0, "samples": []}
    nt = set()

    def consider(c, outcome, tree, real):
        info["evaluations"] += 1
        if c.get("load_error"):
            return
        if outcome is not None:
            nt.add(c["code"])
        v, skip = judge(c, outcome, tree, real)
        if "sect" in c:
            tag = "sectioned:" + (skip or "checked")
            info.setdefault("sectioned_breakdown", {})
            info["sectioned_breakdown"][tag] = info["sectioned_breakdown"].get(tag, 0) + 1
            sect_count(lambda k: info["sectioned_breakdown"].__setitem__(k, info["sectioned_breakdown"].get(k, 0) + 1), c)
        if v is None:
            return
        sig = v[0]
        if lone_cr_family(c):
            info["lone_cr_family_failures"] = info.get("lone_cr_family_failures", 0) + 1
            if not family:
                family.append(Failure(dict(LONE_CR_FAMILY), v[1] + " {detailed signature: %s}" % json.dumps(sig, sort_keys=True),
                                      {"sect": dict(c["sect"]), "filename": c["filename"], "style": c["style"],
                                       "section_text": c["code"], "cpython_line_ends_before_section": c["offset"]}))
            return
        if "sect" in c:
            return consider_sectioned(c, v)

        def fails(code):
            o, t = cpython_outcome(code, c["filename"])
            r = run_real(code, c["offset"], False, c["filename"], c["explicit"], c.get("style"))
            vv = oracle(code, c["offset"], o, t, r)
            return vv is not None and vv[0] == sig
        small = shrink_text(c["code"], c["offset"], fails) if len(c["code"]) < 5000 else c["code"]
        key = json.dumps([small, sig], sort_keys=True)
        if key in seen:
            return
        seen.add(key)
        o, t = cpython_outcome(small, c["filename"])
        r = run_real(small, c["offset"], False, c["filename"], c["explicit"], c.get("style"))
        vv = oracle(small, c["offset"], o, t, r) or v
        failures.append(Failure(sig, vv[1], {"code": small, "offset": c["offset"], "cpython": o,
                                            "filename": c["filename"], "explicit": c["explicit"], "style": c.get("style")}))

    def consider_sectioned(c, v):
        sig = v[0]

        def variant(text):
            cc = sect_fill({"sect": dict(c["sect"], text=text), "filename": c["filename"], "style": c["style"],
                            "explicit": False})
            if cc is None or lone_cr_family(cc):
                return None, None
            if cpython_outcome(text[:cc["upto"] - len(cc["code"])], c["filename"])[0] is not None:
                return None, None               # keep what precedes the section valid Python (CPython stays askable)
            o, t, r = evaluate(cc)
            return cc, judge(cc, o, t, r)[0]

        def fails(text):
            vv = variant(text)[1]
            return vv is not None and vv[0] == sig
        small = shrink_text(c["sect"]["text"], 0, fails)
        key = json.dumps([small, sig], sort_keys=True)
        if key in seen:
            return
        seen.add(key)
        cc, vv = variant(small)
        vv = vv or v
        failures.append(Failure(sig, vv[1], {"sect": dict(c["sect"], text=small), "filename": c["filename"],
                                            "style": c["style"], "section_text": (cc or c)["code"],
                                            "cpython_line_ends_before_section": (cc or c)["offset"]}))

    for row in getattr(corr, "rows", []):
        consider(*row)
        if len(failures) >= 5:
            break
    n = 4000 if tier == "quick" else 30000
    if broken:
        n *= 4
    if not getattr(corr, "rows", None):
        n += 600
    for c in make_cases(rng, n):
        if len(failures) >= 5:
            break
        outcome, tree, real = evaluate(c)
        consider(c, outcome, tree, real)
    info["distinct_nontrivial"] = len(nt)
    return failures + family, info


def replay(payload):
    rp = payload.get("replay", {})
    if "sect" in rp:
        c = sect_fill({"sect": dict(rp["sect"]), "filename": rp.get("filename", FILENAME), "style": rp.get("style", 0),
                       "explicit": False})
        print("file:", repr(rp["sect"]["text"]))
        if c is None:
            print("fewer separators than k")
            return 0
        outcome, tree, real = evaluate(c)
        v = judge(c, outcome, tree, real)
        real.pop("tree", None)
        print("section %d:" % rp["sect"]["k"], repr(c["code"]))
        print("cpython on the section:", outcome, " line ends before it:", c["offset"])
        print("cpython on the file up to the section's end:", cpython_outcome(rp["sect"]["text"][:c["upto"]], c["filename"])[0])
        print("real:", real)
        print("verdict:", v)
        return 0
    if "code" not in rp:
        print(json.dumps(payload, indent=1)[:3000])
        return 0
    outcome, tree = cpython_outcome(rp["code"], rp.get("filename", FILENAME))
    real = run_real(rp["code"], rp.get("offset", 0), False, rp.get("filename", FILENAME), rp.get("explicit", False), rp.get("style"))
    real.pop("tree", None)
    print("code:", repr(rp["code"]))
    print("cpython:", outcome)
    print("real:", real)
    return 0


if __name__ == "__main__":
    sys.exit(run_check("C12", proof_modules=["PedalProofs.C12"], theorems=THEOREMS, driver_exe="driver_c12",
                       translate=translate, correspond=correspond, search=search, replay=replay,
                       model_notes=NOTES, leanchecker_modules=["PedalProofs.C12"]))

"""C12 — verify() reports a syntax error exactly when Python's parser rejects the source."""
import ast
import glob
import json
import os
import sys

from common import REPO, CorrResult, Failure, parse_kv, run_check, use_repo
from translate_source import translate

use_repo()
from pedal.core.commands import clear_report, contextualize_report  # noqa: E402
from pedal.core.report import MAIN_REPORT, Report  # noqa: E402
from pedal.core.submission import Submission  # noqa: E402
from pedal.source import verify, set_source  # noqa: E402

THEOREMS = [
    "Pedal.Source.ladder_table",
    "Pedal.Source.tables_sane",
    "Pedal.Source.c12_never_raises",
    "Pedal.Source.c12_feedback_iff_rejected",
    "Pedal.Source.c12_line_is_cpython_line_plus_offset",
    "Pedal.Source.c12_blank_reported",
    "Pedal.Source.c12_tree_stored",
    "Pedal.Source.c12_rejected_not_stored",
]
NOTES = [
    "CPython's parser is a parameter: the model takes (exception class, lineno) or 'parsed' as input; the harness "
    "obtains it by calling ast.parse itself on the same text",
    "theorems cover the rejecting classes SyntaxError/IndentationError/TabError/MemoryError/RecursionError/"
    "ValueError/Unicode*Error; any other class observed from ast.parse is reported as an unmodelled outcome",
    "the except-ladder, pre-checks and MROs are regenerated from pedal/source/source.py's AST on every run",
    "feedback construction (message formatting, traceback rendering) is exercised by the real runs, not modelled",
]

FILENAME = "answer.py"
FILENAMES = ["answer.py", "answer.py", "student.py", "hw/part_b.py", "main.py"]
BASE_PROGRAMS = [
    "x = 1\nprint(x)\n",
    "def f(a, b):\n    if a > b:\n        return a\n    return b\n\nprint(f(1, 2))\n",
    "for i in range(3):\n    print(i)\nelse:\n    pass\n",
    "class A:\n    def __init__(self):\n        self.x = [1, 2, 3]\n\na = A()\n",
    "import math\ntotal = 0\nwhile total < 10:\n    total += math.floor(2.5)\nprint('done', total)\n",
    "names = {'a': 1, 'b': 2}\nfor k, v in names.items():\n    print(f'{k}={v}')\n",
    "try:\n    x = int(input())\nexcept ValueError as e:\n    x = 0\nfinally:\n    print(x)\n",
    "é = 1\nπ = 3.14\nprint(é + π)\n",
    "x = [i * 2 for i in range(10) if i % 2]\ny = (1,\n     2,\n     3)\n",
    "s = '''multi\nline'''\nt = \"q\" \\\n    \"r\"\n",
    "def g():\n\treturn 1\n",
    "if True:\n    if False:\n        pass\n    elif 1:\n        x = 2\n    else:\n        x = 3\n",
    "lambda_ = lambda a, *b, c=1, **d: (a, b, c, d)\nprint(lambda_(1))\n",
    "with open('f') as fh:\n    data = fh.read()\n",
    "x = 1 if 2 else 3\nassert x, 'msg'\ndel x\n",
]
ALPHABET = list("()[]{}:,.'\"#=+-*/\\ \t\n\r\x0c\x00abcdef01 ;@!%&|<>~^`$?\u00a0\u00e9\ufeff")
SPECIALS = ["", " ", "\n", "  \n\t", "\x0c", "\xa0", "a\x00b", "\x00", "x = (", "'''abc", "a\tb", "\x0c a=1",
            "a=1\r\nb=2\r", "def f():\n\treturn 1\n        return 2", "x = 1 +\n", "(" * 300 + ")" * 300,
            "f(**)", "print 'a'", "x = 0777", "a = 1\n b = 2", "\\", "a = '\\x'", "x = [1,2\n", "class",
            "-" * 100000 + "1", 'x="\ud800"', "\ud800", "\ufeffx=1", "x=1\x1a", "if x:\npass",
            "x = 1\n\n\n\n  y = 2\n", "def f(:\n pass", "x = 1\ry y", "a = 1\nb = 2\rc c", "a = 1\r\nb b", "x = 1\r", "a = 1;;", "1 = x", "x = yield", "return 5", "await x",
            "f'{'", "0x", "1__0", "x = $", "x = ?", "\t\tx=1", " \x0c\n"]


def programs():
    progs = list(BASE_PROGRAMS)
    for path in sorted(glob.glob(os.path.join(REPO, "examples", "*.py")))[:12]:
        try:
            with open(path, encoding="utf-8") as fh:
                progs.append(fh.read())
        except Exception:
            pass
    return progs


def newline_variant(rng, text):
    """Rewrite line ends as lone CR / CRLF / a mixture and put a syntax error on a chosen (often the last) line."""
    lines = text.split("\n")
    if lines and lines[-1] == "":
        lines.pop()
    if not lines:
        lines = ["x = 1"]
    if rng.random() < 0.8:
        bad = rng.choice(["y y", "x = (", "1 = 2", "  z = 3", "def f(:", "c c"])
        pos = rng.choice([len(lines), len(lines), rng.randint(0, len(lines))])
        lines.insert(pos, bad)
    style = rng.choice(["cr", "cr", "crlf", "mixed", "last-cr"])
    out = []
    for i, ln in enumerate(lines):
        out.append(ln)
        if i == len(lines) - 1:
            out.append(rng.choice(["", "", "\r", "\n", "\r\n"]))
        elif style == "cr":
            out.append("\r")
        elif style == "crlf":
            out.append("\r\n")
        elif style == "last-cr":
            out.append("\r" if i == len(lines) - 2 else "\n")
        else:
            out.append(rng.choice(["\r", "\n", "\r\n"]))
    return "".join(out)


def gen_text(rng, progs):
    r = rng.random()
    if r < 0.06:
        return rng.choice(SPECIALS)
    if r < 0.20:
        lines = rng.choice(progs).split("\n")
        n = rng.randint(1, 6)
        start = rng.randint(0, max(0, len(lines) - n))
        return newline_variant(rng, "\n".join(lines[start:start + n]))
    lines = rng.choice(progs).split("\n")
    n = rng.randint(1, 12)
    start = rng.randint(0, max(0, len(lines) - n))
    text = "\n".join(lines[start:start + n])
    if rng.random() < 0.5:
        text += "\n"
    k = rng.choice([0, 0, 0, 1, 1, 2, 3])
    chars = list(text)
    for _ in range(k):
        if chars and rng.random() < 0.45:
            del chars[rng.randrange(len(chars))]
        else:
            chars.insert(rng.randint(0, len(chars)), rng.choice(ALPHABET))
    if rng.random() < 0.05:
        chars = list("".join(chars).replace("    ", "\t", 1))
    text = "".join(chars)
    if rng.random() < 0.12:
        text = magic_comments(rng, text)
    return text


# comments that some parser MODE or tool gives a meaning to (type comments, coding cookies, shebangs, pragma-like
# markers): plain ast.parse(text) treats all of them as comments, and so must verify()
MAGIC_COMMENTS = ["# type: int", "# type: console program", "# type: ignore", "# type: (int) -> int", "# type: list[",
                  "# -*- coding: utf-8 -*-", "# coding: latin-1", "#!/usr/bin/env python3", "# noqa", "# fmt: off",
                  "# type:", "#type: str", "# pragma: no cover", "# vim: set fileencoding=utf-8 :"]


def magic_comments(rng, text):
    lines = text.split("\n")
    for _ in range(rng.randint(1, 2)):
        c = rng.choice(MAGIC_COMMENTS)
        i = rng.randrange(len(lines))
        how = rng.randrange(3)
        if how == 0 or not lines[i].strip():
            lines.insert(i, c)                                   # a line of its own (header-style)
        elif how == 1:
            lines[i] = lines[i] + "  " + c                       # trailing on a statement / header line
        else:
            lines.insert(i, (len(lines[i]) - len(lines[i].lstrip())) * " " + c)   # own line, same indentation
    return "\n".join(lines)


def cpython_outcome(code, filename=FILENAME):
    try:
        tree = ast.parse(code, filename)
        return None, tree
    except BaseException as e:  # noqa
        ln = getattr(e, "lineno", None)
        return (type(e).__name__, ln if isinstance(ln, int) else None), None


def run_real(code, offset, load_error=False, filename=FILENAME, explicit=False, style=None):
    """The submission's main file is `filename`; a section offset (if any) is registered for the MAIN FILE,
    as next_section() does.  `style` = which public spelling reaches verify():
      0 bare verify() on MAIN_REPORT          1 verify(code, filename) on MAIN_REPORT
      2 bare verify(report=r) on a Report of the grader's own (MAIN_REPORT cleared and empty)
      3 verify(code, filename, report=r)      4 set_source(code, filename=filename) on a cleared MAIN_REPORT
      5 verify(code, 'snippet_zz.py') of a text that is NOT the submission (main file `filename` holds other code)
    (4 and 5 only without a section offset)."""
    if style is None:
        style = 1 if explicit else 0
    if style in (4, 5) and (offset or load_error):
        style = 0
    clear_report()
    rep = MAIN_REPORT
    if style in (2, 3):
        rep = Report()
        rep.contextualize(Submission({filename: code}, filename))
    elif style == 4:
        pass
    elif style == 5:
        contextualize_report(Submission({filename: "zz_other = 1\n"}, filename))
    else:
        # contextualize_report(code, filename=f) stores the file but leaves the MAIN file at 'answer.py';
        # the main file has to be named explicitly for it to hold the code.
        contextualize_report(Submission({filename: code}, filename))
    if style not in (4, 5):
        sub = rep.submission
        assert sub.main_file == filename and sub.main_code == code, "harness: submission not set up as intended"
        if offset:
            sub.set_line_offset(offset)
        if load_error:
            sub.load_error = FileNotFoundError("nope")
    out = {"raised": None}
    try:
        if style == 0:
            out["returned"] = verify()
        elif style == 1:
            out["returned"] = verify(code, filename)
        elif style == 2:
            out["returned"] = verify(report=rep)
        elif style == 3:
            out["returned"] = verify(code, filename, report=rep)
        elif style == 4:
            set_source(code, filename=filename)
            out["returned"] = MAIN_REPORT["source"]["success"] is not False and code.strip() != ""
        else:
            out["returned"] = verify(code, "snippet_zz.py")
    except BaseException as e:  # noqa
        out["raised"] = type(e).__name__
        out["detail"] = str(e)[:200]
    fbs = []
    for f in rep.feedback:
        line = f.location.line if getattr(f, "location", None) is not None else None
        fbs.append([f.label, f.category, line])
    if rep is not MAIN_REPORT:
        # nothing may be filed on another report than the one the grader passed
        for f in MAIN_REPORT.feedback:
            fbs.append(["LEAKED-TO-MAIN_REPORT:" + str(f.label), f.category, None])
    out["feedback"] = fbs
    out["success"] = rep["source"]["success"]
    out["tree"] = rep["source"]["ast"]
    return out


def model_request(code, offset, outcome, load_error=False):
    blank = code.strip() == ""
    if outcome is None:
        cls, ln = "-", "-"
    else:
        cls, ln = outcome[0], ("-" if outcome[1] is None else str(outcome[1]))
    return "verify %d %d %s %s %d" % (load_error, blank, cls, ln, offset)


def parse_model(ans):
    head, kv = parse_kv(ans)
    if head != "ok":
        return {"bad": ans}
    fbs = []
    body = kv["feedback"].strip("[]")
    for item in body.split(","):
        if item:
            name, line = item.rsplit(":", 1)
            fbs.append([name, None if line == "-" else int(line)])
    return {"feedback": fbs, "success": kv["success"] == "1", "tree": kv["tree"] == "1",
            "raised": None if kv["raised"] == "-" else kv["raised"]}


def tree_is_parse(real, tree):
    if tree is None or real["tree"] is None:
        return False
    try:
        return ast.dump(real["tree"]) == ast.dump(tree)
    except Exception:
        return False


def compare(real, model, tree):
    if "bad" in model:
        return ["bad-request"]
    d = []
    if (real["raised"] or None) != model["raised"]:
        # an 'unmodelled' answer is a correspondence failure too
        d.append("raised")
        return d
    if [[a, c] for a, b, c in real["feedback"]] != model["feedback"]:
        d.append("feedback")
    if real["raised"] is None:
        if bool(real["success"]) != model["success"]:
            d.append("success")
        if tree_is_parse(real, tree) != model["tree"]:
            d.append("tree")
    return d


SYNTAX_ERR_LABELS_EXCLUDED = ("blank_source", "source_file_not_found")


def oracle(code, offset, outcome, tree, real):
    """The property, from its text. None = holds; else (signature, what)."""
    if real["raised"] is not None:
        return ({"raises": real["raised"]}, "verify() raised %s: %s" % (real["raised"], real.get("detail")))
    synt = [f for f in real["feedback"] if f[1] == "syntax" and f[0] not in SYNTAX_ERR_LABELS_EXCLUDED]
    rejected = outcome is not None
    if rejected and not synt:
        return ({"missing": "syntax-feedback"}, "CPython rejects (%s) but no syntax feedback" % (outcome,))
    if not rejected and synt:
        return ({"spurious": "syntax-feedback"}, "CPython accepts but syntax feedback %r attached" % (synt,))
    if rejected:
        if len(synt) != 1:
            return ({"count": "syntax-feedback"}, "%d syntax feedbacks" % len(synt))
        exp = None if outcome[1] is None else outcome[1] + offset
        if synt[0][2] != exp:
            return ({"line": "wrong"}, "feedback line %r, CPython line %r + offset %d" % (synt[0][2], outcome[1], offset))
    if code.strip() == "" and not any(f[0] == "blank_source" for f in real["feedback"]):
        return ({"blank": "unreported"}, "blank source not reported as blank")
    if not rejected and not tree_is_parse(real, tree):
        return ({"tree": "not-stored"}, "text parses but the stored tree is not CPython's")
    return None


def corpus():
    d = os.path.join(os.path.dirname(os.path.dirname(os.path.abspath(__file__))), "corpus", "C12")
    out = []
    if os.path.isdir(d):
        for n in sorted(os.listdir(d)):
            if n.endswith(".json"):
                with open(os.path.join(d, n)) as fh:
                    out.append(json.load(fh))
    return out


def make_cases(rng, n):
    progs = programs()
    cases = [{"code": c["code"], "offset": c.get("offset", 0), "filename": c.get("filename", FILENAME),
              "explicit": c.get("explicit", False)} for c in corpus()]
    for s in SPECIALS:
        cases.append({"code": s, "offset": rng.choice([0, 0, 3]), "filename": rng.choice(FILENAMES),
                      "explicit": rng.random() < 0.3})
    for _ in range(n):
        cases.append({"code": gen_text(rng, progs), "offset": rng.choice([0, 0, 0, 1, 5, 40]),
                      "filename": rng.choice(FILENAMES), "explicit": rng.random() < 0.3})
    for c in cases:
        if "style" not in c:
            st = rng.choice([None, None, None, None, 2, 3, 4, 5])   # None: bare / explicit as `explicit` says
            if st in (4, 5) and c["offset"]:
                st = 2
            c["style"] = st if st is not None else (1 if c["explicit"] else 0)
    return cases


def correspond(rng, tier, driver):
    res = CorrResult()
    res.rule = ("texts = corpus + 44 special strings (NUL, FF, CR, NBSP, BOM, lone surrogate, parser give-up, ...) + "
                "1-12 line windows of 15 built-in programs and /repo/examples with 0-3 random char insertions/deletions; "
                "a line-terminator family (lone CR / CRLF / mixed line ends with a syntax error on the last or a random "
                "line); random section line offsets registered for the main file; main file named answer.py / student.py "
                "/ hw/part_b.py / main.py; verify() called bare or as verify(code, filename); real = pedal.source.verify on MAIN_REPORT, model = Pedal.Source.verify fed "
                "with ast.parse's own outcome; non-trivial = text rejected by the parser, blank, or offset > 0")
    n = 5000 if tier == "quick" else 20000
    cases = make_cases(rng, n)
    # a few load-error cases (correspondence only)
    extra = [{"code": "x = 1", "offset": 0, "load_error": True, "filename": FILENAME, "explicit": False},
             {"code": "x = (", "offset": 2, "load_error": True, "filename": "student.py", "explicit": False}]
    rows, lines = [], []
    for c in cases + extra:
        outcome, tree = cpython_outcome(c["code"], c["filename"])
        real = run_real(c["code"], c["offset"], c.get("load_error", False), c["filename"], c["explicit"], c.get("style"))
        rows.append((c, outcome, tree, real))
        lines.append(model_request(c["code"], c["offset"], outcome, c.get("load_error", False)))
    answers = driver.ask(lines)
    for (c, outcome, tree, real), ans in zip(rows, answers):
        model = parse_model(ans)
        res.evaluations += 1
        res.count("outcome:" + ("parsed" if outcome is None else outcome[0]))
        if outcome is not None and outcome[1] is None:
            res.count("lineno-none")
        if c["code"].strip() == "":
            res.count("blank")
        res.count("file:" + c["filename"])
        res.count("verify-style:%s" % c.get("style"))
        if "\r" in c["code"]:
            res.count("has-CR")
        if outcome is not None or c["code"].strip() == "" or c["offset"]:
            res.nontrivial.add(json.dumps([c["code"], c["offset"], c["filename"], c["explicit"]]))
        d = compare(real, model, tree)
        if d:
            real_c = {k: v for k, v in real.items() if k != "tree"}
            res.disagreements.append({"case": c, "cpython": outcome, "real": real_c, "model": model, "fields": d})
    res.samples = [rows[-1][0], rows[len(rows) // 2][0]]
    res.rows = rows
    return res


def shrink_text(code, offset, fails):
    cur = code
    changed = True
    while changed and len(cur) > 1:
        changed = False
        # drop lines, then characters
        for unit in ("\n", None):
            parts = cur.split("\n") if unit else list(cur)
            i = 0
            while i < len(parts) and len(parts) > 1:
                cand_parts = parts[:i] + parts[i + 1:]
                cand = ("\n" if unit else "").join(cand_parts)
                if fails(cand):
                    parts = cand_parts
                    cur = cand
                    changed = True
                else:
                    i += 1
            if len(cur) > 200:
                break
    return cur


def search(rng, tier, broken, corr):
    failures, seen = [], set()
    info = {"rule": "real verify() vs the property oracle (never raises; syntax feedback iff ast.parse rejects; line = "
                    "CPython line + offset; blank reported; stored tree = CPython's) on the correspondence texts plus "
                    "more seeded mutants", "evaluations": 0, "distinct_nontrivial": 0, "samples": []}
    nt = set()

    def consider(c, outcome, tree, real):
        info["evaluations"] += 1
        if c.get("load_error"):
            return
        if outcome is not None:
            nt.add(c["code"])
        v = oracle(c["code"], c["offset"], outcome, tree, real)
        if v is None:
            return
        sig = v[0]

        def fails(code):
            o, t = cpython_outcome(code, c["filename"])
            r = run_real(code, c["offset"], False, c["filename"], c["explicit"], c.get("style"))
            vv = oracle(code, c["offset"], o, t, r)
            return vv is not None and vv[0] == sig
        small = shrink_text(c["code"], c["offset"], fails) if len(c["code"]) < 5000 else c["code"]
        key = json.dumps([small, sig], sort_keys=True)
        if key in seen:
            return
        seen.add(key)
        o, t = cpython_outcome(small, c["filename"])
        r = run_real(small, c["offset"], False, c["filename"], c["explicit"], c.get("style"))
        vv = oracle(small, c["offset"], o, t, r) or v
        failures.append(Failure(sig, vv[1], {"code": small, "offset": c["offset"], "cpython": o,
                                            "filename": c["filename"], "explicit": c["explicit"], "style": c.get("style")}))

    for row in getattr(corr, "rows", []):
        consider(*row)
        if len(failures) >= 5:
            break
    n = 4000 if tier == "quick" else 30000
    if broken:
        n *= 4
    if not getattr(corr, "rows", None):
        n += 600
    for c in make_cases(rng, n):
        if len(failures) >= 5:
            break
        outcome, tree = cpython_outcome(c["code"], c["filename"])
        real = run_real(c["code"], c["offset"], False, c["filename"], c["explicit"], c.get("style"))
        consider(c, outcome, tree, real)
    info["distinct_nontrivial"] = len(nt)
    return failures, info


def replay(payload):
    rp = payload.get("replay", {})
    if "code" not in rp:
        print(json.dumps(payload, indent=1)[:3000])
        return 0
    outcome, tree = cpython_outcome(rp["code"], rp.get("filename", FILENAME))
    real = run_real(rp["code"], rp.get("offset", 0), False, rp.get("filename", FILENAME), rp.get("explicit", False), rp.get("style"))
    real.pop("tree", None)
    print("code:", repr(rp["code"]))
    print("cpython:", outcome)
    print("real:", real)
    return 0


if __name__ == "__main__":
    sys.exit(run_check("C12", proof_modules=["PedalProofs.C12"], theorems=THEOREMS, driver_exe="driver_c12",
                       translate=translate, correspond=correspond, search=search, replay=replay,
                       model_notes=NOTES, leanchecker_modules=["PedalProofs.C12"]))

"""
C06 API SPELLINGS: every public way of saying "run this program with these inputs", "call the student's function with
these arguments" and "what did it print".

The property speaks of student code run THROUGH PEDAL.  A grader does not reach the sandbox through one door: there are
the module-level command functions of pedal/sandbox/commands.py (run, call, evaluate, set_input, queue_input, clear_input,
get_input, get_output, get_raw_output, get_exception, get_student_data, get_sandbox, get_function, clear_output - each
with an optional `report=`), the Sandbox object's methods of the same names, and - for the arguments of a call - five
channels: positional `*args`, direct `**kwargs`, `function_kwargs={...}` (the documented way for a keyword whose name is
one of call()'s own parameters), `args_locals=[...]` / `kwargs_locals={...}` (expressions over the student's namespace),
the callable made by get_function(), and evaluate("f(...)").  Whatever the spelling, the student's function must get
exactly those arguments and the observations must be those of plain CPython.

Nothing here is hard-coded about the wrappers: the public functions and their parameters are READ FROM THE TREE UNDER
TEST (inspect.signature); the names a keyword of the student's function can collide with are the parameter names found
there; `wrapper_coverage()` lists which (function, parameter) pairs the harness drives and which it does not - a new
wrapper or a new parameter shows up in the evidence as not driven.

Streams (oracle = CPython, the differential search of c06.py):
  * `api_cases`   a kit program whose functions have parameters NAMED like the wrappers' own parameters (positional-or-
                  keyword with defaults, required keyword-only, **collectors, printing, reading input, raising), called
                  through every channel x every entry point, with falsy / long / non-literal values, empty
                  function_kwargs / args_locals, target= and inputs= of the wrapper TOGETHER WITH a student keyword of the
                  same name, output cleared in between; programs reading 0..n inputs started through every spelling of
                  "queue these inputs and run" (set_input list / tuple / single str, run(inputs=), queue_input,
                  set_input(clear=False) in two parts, clear_input first, run(filename=) / run(code, filename=) for a
                  program that is not the main file, threaded=True);
  * `respell`     the same dimensions laid over the cases of every other stream (generated programs, limit sweeps,
                  compile, histories): keyword arguments moved into function_kwargs, the call made through
                  get_function(), the explicit-report commands, another spelling of the run.
"""
import inspect
import json
import os

from common import VERIF, use_repo

use_repo()

# what the harness drives of each public function (checked against the signatures of the tree under test)
DRIVEN = {
    "run": {"code", "filename", "inputs", "threaded", "report"},
    "call": {"function", "args", "target", "threaded", "inputs", "function_kwargs", "args_locals", "kwargs_locals",
             "report", "kwargs"},
    "evaluate": {"code", "target", "threaded", "report"},
    "clear_input": {"report"}, "queue_input": {"inputs", "report"}, "set_input": {"inputs", "clear", "report"},
    "get_input": {"report"}, "clear_output": {"report"}, "get_output": {"report"}, "get_raw_output": {"report"},
    "get_exception": {"report"}, "get_student_data": {"report"}, "get_sandbox": {"report"},
    "get_function": {"function_name", "report"},
}
# kwargs_locals: see KWARGS_LOCALS below (driven only when the gate is open)


def public_wrappers():
    """{name: [parameter names]} of the public functions DEFINED in pedal/sandbox/commands.py of the tree under test."""
    from pedal.sandbox import commands
    out = {}
    for name, obj in sorted(vars(commands).items()):
        if name.startswith("_") or not inspect.isfunction(obj) or obj.__module__ != commands.__name__:
            continue
        if obj.__name__ != name and obj.__name__ in vars(commands):
            continue        # an alias of another public function (reset_output = clear_output)
        try:
            out[name] = list(inspect.signature(obj).parameters)
        except (TypeError, ValueError):
            out[name] = ["?"]
    return out


def wrapper_coverage():
    """-> {"driven": {...}, "not_driven": {...}}  (function -> parameters), for the evidence."""
    driven, not_driven = {}, {}
    for name, params in public_wrappers().items():
        d = [p for p in params if p in DRIVEN.get(name, ())]
        n = [p for p in params if p not in DRIVEN.get(name, ())]
        if name in DRIVEN:
            driven[name] = d
        if n or name not in DRIVEN:
            not_driven[name] = n if name in DRIVEN else params
    if not kwargs_locals_enabled():
        if "kwargs_locals" in driven.get("call", []):
            driven["call"].remove("kwargs_locals")
            not_driven.setdefault("call", []).append("kwargs_locals (withheld, see notes/C06.md)")
    return {"driven": driven, "not_driven": not_driven}


def reserved_names():
    """The parameter names of the call wrappers of the tree under test (commands.call and Sandbox.call, `self`
    included): a keyword argument of the STUDENT'S function with one of these names cannot travel as **kwargs, it has to
    go through function_kwargs=.  Read, not assumed."""
    from pedal.sandbox import commands
    from pedal.sandbox.sandbox import Sandbox
    names = []
    for fn in (commands.call, Sandbox.call):
        for p in inspect.signature(fn).parameters.values():
            if p.kind in (p.VAR_POSITIONAL, p.VAR_KEYWORD):
                continue
            if p.name not in names:
                names.append(p.name)
    return names


def other_wrapper_names():
    """Parameter names of the other execution wrappers (run, evaluate, set_input, get_function): harmless as **kwargs of
    call(), used as student parameter names all the same (a wrapper that grows such a parameter would swallow them)."""
    out = []
    res = set(reserved_names())
    for name in ("run", "evaluate", "set_input", "get_function"):
        for p in public_wrappers().get(name, []):
            if p not in res and p not in out and p.isidentifier():
                out.append(p)
    return out


def kwargs_locals_enabled():
    """kwargs_locals= reproduces a defect of the UNCHANGED tree (the keyword name is dropped from the generated call / a
    key without a placeholder keyword is ignored; notes/C06.md section 8): withheld until KNOWN_FINDINGS has a C06 record
    with KWARGS_LOCALS_SIGNATURE (as the nested groups of sandboxequiv_history), or forced by VERIF_C06_KWARGS_LOCALS=1."""
    if os.environ.get("VERIF_C06_KWARGS_LOCALS"):
        return True
    from sandboxequiv_common import KWARGS_LOCALS_SIGNATURE
    try:
        with open(os.path.join(VERIF, "KNOWN_FINDINGS.jsonl")) as fh:
            for line in fh:
                line = line.strip()
                if line and not line.startswith("#"):
                    try:
                        rec = json.loads(line)
                    except ValueError:
                        continue
                    if rec.get("property") == "C06" and rec.get("signature") == KWARGS_LOCALS_SIGNATURE:
                        return True     # recorded (open: reported as known; fixed: a regression is a violation)
    except OSError:
        pass
    return False


# --------------------------------------------------------------------------
# the kit

def kit(names, others):
    """A program whose functions have parameters named like the wrappers' own parameters."""
    every = list(names) + list(others)
    lines = ["shared = [4, 5]", "label = 'lbl'", "count = 3", "log = []"]
    sig = ", ".join("%s=%d" % (n, i) for i, n in enumerate(every))
    lines += ["def schedule(task, %s, sep='-'):" % sig,
              "    log.append(task)",
              "    return [task, %s, sep]" % ", ".join(every)]
    for n in every:
        lines += ["def need_%s(name, *, %s):" % (n, n),
                  "    return str(name).upper() + '#' + repr(%s)" % n]
    lines += ["def collect(*things, **named):",
              "    return [list(things), sorted(named.items())]",
              "def after_only(first, second=2, /, **named):",
              "    return [first, second, sorted(named.items())]"]
    # three of the reserved names for a printing, a reading and a raising function (whatever the tree calls them)
    def pick(preferred, k):
        return preferred if preferred in names or not names else names[k % len(names)]
    t, i, r = pick("target", 1), pick("inputs", 2), pick("report", 3)
    lines += ["def announce(%s='nobody', end='!'):" % t,
              "    print('announce', %s, end=end + '\\n')" % t,
              "    print()",
              "    return %s" % t,
              "def ask(%s='Value? '):" % i,
              "    reply = input(%s)" % i,
              "    print('got', reply)",
              "    return reply + '!'",
              "def fail(%s=None):" % r,
              "    raise ValueError(%s)" % r,
              "print('kit ready')"]
    return "\n".join(lines) + "\n", {"print": ("announce", t), "ask": ("ask", i), "fail": ("fail", r)}


VALUES = ["3", "'abc'", "None", "[1, 2]", "float('inf')", "'x' * 300", "{'k': 1}", "True", "''", "0", "[]", "{}", "0.0",
          "(1, 'a')", "'it\\'s'", "'a\\rb\\x0c'", "-1", "False", "range(3)", "'y' * 199", "[None]", "b''"]
LOCALS = ["shared", "label", "count", "shared[0]", "len(shared)", "label * 2", "[count]", "undefined_name", "log"]
APIS = ["commands", "sandbox", "commands+report"]


def step(fn, args=(), kwargs=None, **extra):
    c = {"fn": fn, "args": list(args), "kwargs": dict(kwargs or {})}
    c.update(extra)
    return c


def as_evaluate(c):
    """The same call as the text of an expression, for evaluate()."""
    kws = dict(c.get("kwargs", {}))
    kws.update(c.get("fkw", {}))
    parts = list(c.get("args", [])) + ["%s=%s" % kv for kv in kws.items()]
    e = {"op": "evaluate", "expr": "%s(%s)" % (c["fn"], ", ".join(parts))}
    if "target" in c:
        e["target"] = c["target"]
    return e


def mk(code, steps, shape, api, rng, inputs=(), **extra):
    case = {"code": code, "filename": rng.choice(["answer.py", "answer.py", "student.py"]), "inputs": list(inputs),
            "calls": steps, "api": api, "shape": ["api:" + shape]}
    case.update(extra)
    return case


READERS = [
    ("no-input", "print('nothing to read')\ntotal = 1\n", 0),
    ("one", "name = input('Name? ')\nprint('Hello', name)\n", 1),
    ("two", "a = input()\nb = input('second: ')\nprint(a + b)\nprint(b, a, sep='\\n')\n", 2),
    ("five", "values = []\nfor i in range(5):\n    values.append(int(input('n%d? ' % i)))\nprint(sum(values))\nboom = values[9]\n", 5),
    ("blank-out", "x = input()\nprint()\nprint('   ')\n", 1),
]
REPLIES = ["7", "Ada", "", " 8 ", "0", "-3", "it's", "ünï"]


def api_cases(rng, tier):
    """-> (cases, info)"""
    quick = tier == "quick"
    names, others = reserved_names(), other_wrapper_names()
    code, special = kit(names, others)
    every = names + others
    cases = []
    n_steps = 0

    def spell_kw(kws, via_fkw_all=False):
        """split keyword arguments of the student's function over **kwargs and function_kwargs (reserved: always the latter)"""
        direct, fkw = {}, {}
        for k, v in kws.items():
            if k in names or via_fkw_all or rng.random() < 0.4:
                fkw[k] = v
            else:
                direct[k] = v
        return direct, fkw

    # 1. small scope, exhaustive in thorough: every reserved name x every entry point x both callables, value classes sampled
    combos = [(n, api, via) for n in every for api in APIS for via in ("call", "get_function")]
    if quick:
        # every name, every api and every via at least once
        rng.shuffle(combos)
        keep, seen = [], set()
        for n, api, via in combos:
            if n not in seen or (api, via) not in seen:
                keep.append((n, api, via))
                seen.update([n, (api, via)])
        combos = keep + rng.sample(combos, min(len(combos), 10))
    by_api = {}
    for n, api, via in combos:
        by_api.setdefault(api, []).append((n, via))
    for api, items in sorted(by_api.items()):
        for i in range(0, len(items), 6):
            steps = []
            for n, via in items[i:i + 6]:
                v = rng.choice(VALUES)
                direct, fkw = spell_kw({n: v})
                c = step("schedule", [rng.choice(VALUES)], direct, via=via)
                if fkw:
                    c["fkw"] = fkw
                steps.append(c)
                # required keyword-only parameter of that name
                direct, fkw = spell_kw({n: rng.choice(VALUES)})
                c = step("need_" + n, ["'x'"], direct, via=via)
                if fkw:
                    c["fkw"] = fkw
                if rng.random() < 0.5:
                    steps.append(c)
                if rng.random() < 0.3:
                    steps.append(as_evaluate(steps[-1]))
            n_steps += len(steps)
            cases.append(mk(code, steps, "reserved-name", api, rng))
    # 2. mixtures: several channels in ONE call
    for _ in range(12 if quick else 120):
        api = rng.choice(APIS)
        steps = []
        for _ in range(rng.randint(2, 5)):
            kind = rng.random()
            via = rng.choice(["call", "call", "get_function"])
            picked = rng.sample(every, rng.randint(0, min(4, len(every))))
            kws = {k: rng.choice(VALUES) for k in picked}
            if rng.random() < 0.4:
                kws["sep"] = rng.choice(["'+'", "''", "None"])
            direct, fkw = spell_kw(kws, via_fkw_all=rng.random() < 0.2)
            fn = rng.choice(["schedule", "schedule", "collect", "after_only"])
            if fn == "after_only" and rng.random() < 0.5:
                # a keyword with the NAME of a positional-only parameter lands in the collector
                (fkw if rng.random() < 0.5 else direct)["first"] = rng.choice(VALUES)
            args = [rng.choice(VALUES) for _ in range(rng.choice([1, 1, 2]) if fn != "collect" else rng.randint(0, 3))]
            c = step(fn, args, direct, via=via)
            if fkw or rng.random() < 0.25:
                c["fkw"] = fkw                    # an EMPTY function_kwargs is a spelling too
            if kind < 0.3:
                # expressions over the student's namespace instead of values (None = use the positional value)
                al = [rng.choice(LOCALS + [None, None]) for _ in range(rng.randint(0, len(args) + 1))]
                # beyond the positional values there is nothing a None could stand for
                al = [x if (x is not None or k < len(args)) else rng.choice(LOCALS) for k, x in enumerate(al)]
                if fn == "collect" or len(al) <= 2:
                    c["args_locals"] = al
            if kwargs_locals_enabled() and kind > 0.8:
                k = rng.choice(every + ["sep"])
                c["kwargs_locals"] = {k: rng.choice(LOCALS)}
                if rng.random() < 0.5:      # with / without a placeholder keyword
                    (c.setdefault("fkw", {}) if k in names else c["kwargs"]).setdefault(k, "None")
            if rng.random() < 0.3:
                c["target"] = rng.choice(["res", "answer", "_", "target", "inputs"])
            if rng.random() < 0.12:
                c["threaded"] = True
            steps.append(c)
            if rng.random() < 0.2 and "args_locals" not in c and "kwargs_locals" not in c:
                steps.append(as_evaluate(c))
        n_steps += len(steps)
        cases.append(mk(code, steps, "mixed-channels", api, rng))
    # 3. the wrapper's own target= / inputs= / threaded= TOGETHER WITH a student keyword of that name; printing and
    #    reading functions (line view after every step, output cleared in between)
    pf, pn = special["print"]
    af, an = special["ask"]
    ff, fnm = special["fail"]
    for api in APIS:
        for rep in range(1 if quick else 6):
            steps = [
                step(pf, [], {}, fkw={pn: rng.choice(["'Ada'", "''", "'a\\x0cb'", "'   '", "'x\\u2028y'", "'r\\r'"])},
                     target=rng.choice(["res", "shown"])),
                step(pf, [], {"end": rng.choice(["''", "'\\r'", "' '", "'\\n\\n'", "'\\x85'"])}, via="get_function"),
                step(af, [], {}, fkw={an: rng.choice(["'Q? '", "''", "'\\x1d'"])}, inputs=[rng.choice(REPLIES)]),
                {"op": "clear_output"},
                step(af, [], {}, inputs=[rng.choice(REPLIES), "unused"], target="reply"),
                step(pf, [rng.choice(VALUES)]),
                step(ff, [], {}, fkw={fnm: rng.choice(VALUES)}),
                step("collect", [], {}, fkw={n: rng.choice(VALUES) for n in names}),
                as_evaluate(step(pf, ["'evaluated'"], {"end": "'?'"}, target="res")),
                step("schedule", ["'t'"], {}, threaded=True, fkw={names[-1]: "1"}),
            ]
            if rng.random() < 0.5:
                steps.insert(rng.randint(1, len(steps) - 1), {"op": "clear_output"})
            if rep:
                rng.shuffle(steps)
            n_steps += len(steps)
            cases.append(mk(code, steps, "wrapper-parameter-and-student-keyword", api, rng))
    # 4. every spelling of "queue these inputs and run"
    from sandboxequiv_common import RUN_VIAS
    for api in APIS:
        for via in RUN_VIAS:
            for tag, prog, n_in in (READERS if not quick else rng.sample(READERS, 2)):
                inputs = [rng.choice(REPLIES) if tag != "five" else str(rng.randint(-5, 20)) for _ in range(n_in)]
                if via == "single-str" and n_in != 1:
                    continue
                extra = {"run_via": via}
                if rng.random() < 0.15:
                    extra["threaded"] = True
                cases.append(mk(prog, [], "run-spelling:%s:%s" % (via, tag), api, rng, inputs=inputs, **extra))
    info = {"reserved_names_read_from_tree": names, "other_wrapper_parameter_names": others, "cases": len(cases),
            "call_steps": n_steps, "kwargs_locals": "generated" if kwargs_locals_enabled() else
            "withheld (VERIF_C06_KWARGS_LOCALS=1 generates it): defect of the unchanged tree, see notes/C06.md section 8",
            "wrappers": wrapper_coverage()}
    return cases, info


# --------------------------------------------------------------------------
# the same dimensions over the cases of the other streams

def respell(cases, rng, fraction=0.4):
    """Rewrites (in place, before anything ran) a fraction of the cases to other spellings of the same thing; the case
    dictionary keeps the spelling, so the replay is literal.  -> counts per spelling"""
    from sandboxequiv_common import RUN_VIAS
    names = set(reserved_names())
    counts = {}

    def count(k):
        counts[k] = counts.get(k, 0) + 1
    for case in cases:
        if case.get("limit") is not None or rng.random() >= fraction:
            continue
        if rng.random() < 0.3:
            case["api"] = "commands+report"
            count("api:commands+report")
        if rng.random() < 0.4:
            via = rng.choice(RUN_VIAS)
            if via != "single-str" or len(case.get("inputs", [])) == 1:
                case["run_via"] = via
                count("run:" + via)
        for c in case.get("calls", []):
            if c.get("op", "call") != "call":
                continue
            kws = c.get("kwargs", {})
            moved = {k: v for k, v in kws.items() if k in names or rng.random() < 0.5}
            if moved or rng.random() < 0.1:
                c["kwargs"] = {k: v for k, v in kws.items() if k not in moved}
                c["fkw"] = moved
                count("function_kwargs")
            if rng.random() < 0.25:
                c["via"] = "get_function"
                count("get_function")
    return counts

"""
Regenerates lean/PedalModel/Gen/TypeTables.lean:

* `binopTable`   — pedal.types.operations.VALID_BINOP_TYPES, introspected: operator class x left type class x
                   right type class -> the result function, identified by what it returns on fresh operand types;
* `orderable`    — every (left class, right class) pair with `right in left.orderable` (the Compare rule);
* `cpython`      — CPython's own truth, by executing every binary / comparison operator on several representative
                   values per class (the five core classes, plus bool because comparisons of core values produce it): does it raise TypeError for every pair of representatives, and which run-time
                   classes do the successful executions produce.

Anything not understood becomes an explicit `unknown`/`other` constructor so the Lean theorems fail on it.
"""
import ast
import hashlib
import itertools
import operator
import os

from common import LEAN_DIR, lean_list, lean_str, use_repo, write_if_changed

BINOPS = [("add", ast.Add, operator.add, "+"), ("sub", ast.Sub, operator.sub, "-"), ("mult", ast.Mult, operator.mul, "*"),
          ("div", ast.Div, operator.truediv, "/"), ("floordiv", ast.FloorDiv, operator.floordiv, "//"),
          ("mod", ast.Mod, operator.mod, "%"), ("pow", ast.Pow, operator.pow, "**"),
          ("lshift", ast.LShift, operator.lshift, "<<"), ("rshift", ast.RShift, operator.rshift, ">>"),
          ("bitor", ast.BitOr, operator.or_, "|"), ("bitxor", ast.BitXor, operator.xor, "^"),
          ("bitand", ast.BitAnd, operator.and_, "&"), ("matmult", ast.MatMult, operator.matmul, "@")]
CMPOPS = [("eq", ast.Eq, operator.eq, "=="), ("noteq", ast.NotEq, operator.ne, "!="), ("lt", ast.Lt, operator.lt, "<"),
          ("lte", ast.LtE, operator.le, "<="), ("gt", ast.Gt, operator.gt, ">"), ("gte", ast.GtE, operator.ge, ">="),
          ("is", ast.Is, operator.is_, "is"), ("isnot", ast.IsNot, operator.is_not, "is not"),
          ("«in»", ast.In, lambda a, b: operator.contains(b, a), "in"),
          ("notin", ast.NotIn, lambda a, b: not operator.contains(b, a), "not in")]

# several representatives per class, so value-dependent cells (int ** negative, str % int, x // 0) are seen
REPS = {
    "int": [3, -2, 0, 1],
    "float": [2.5, -0.5, 0.0],
    "str": ["ab", "", "%d"],
    "list": [[1, 2], [], [7]],
    "tuple": [(1, 2), (5,), ()],
    "bool": [True, False],          # not a core class: comparisons produce it, so expression trees need its rows
}
CORE = ["int", "float", "str", "list", "tuple"]
CLS_CTORS = {"int", "float", "str", "list", "tuple", "bool", "complex"}

KEY_NAMES = {"AnyType": "any", "ImpossibleType": "impossible", "NoneType": "none", "NumType": "num", "IntType": "int",
             "FloatType": "float", "BoolType": "bool", "StrType": "str", "LiteralInt": "litInt",
             "LiteralFloat": "litFloat", "LiteralBool": "litBool", "LiteralStr": "litStr", "ListType": "list",
             "SetType": "set", "FrozenSetType": "fset", "TupleType": "tuple", "DictType": "dict"}


def key_ctor(cls):
    name = cls.__name__ if isinstance(cls, type) else repr(cls)
    if name in KEY_NAMES:
        return ".%s" % KEY_NAMES[name]
    return "(.other %s)" % lean_str(name)


def cls_ctor(name):
    return (".%s" % name) if name in CLS_CTORS else "(.other %s)" % lean_str(name)


def classify_result_fn(fn, left_cls, right_cls, nt):
    """Identify a VALID_BINOP_TYPES cell *behaviourally*: call it on fresh operand types and look at what comes
    back (survives renaming/re-wrapping of the helper functions, and sees a changed helper body)."""
    scalar = {nt.NumType: "numAny", nt.IntType: "intAny", nt.FloatType: "floatAny", nt.StrType: "strAny",
              nt.BoolType: "boolAny"}

    def make(cls, marker, empty=False):
        if issubclass(cls, nt.ElementContainerType):
            return cls(empty, marker)
        if cls is nt.TupleType:
            return cls(() if empty else (marker,))
        if cls is nt.StrType:
            return cls(False)
        return cls()
    try:
        ma, mb = nt.IntType(), nt.StrType(False)          # element markers, told apart by identity/class
        l, r = make(left_cls, ma), make(right_cls, mb)
        res = fn(l, r)
        if res is l:
            return ".keepLeft"
        if res is r:
            return ".keepRight"
        if type(res) in scalar and not isinstance(res, nt.LiteralValue):
            # must not depend on the operands: try the other emptiness too
            res2 = fn(make(left_cls, ma, True), make(right_cls, mb, True))
            if type(res2) is type(res):
                return "." + scalar[type(res)]
        if isinstance(res, nt.ElementContainerType) and isinstance(l, nt.ElementContainerType) \
                and isinstance(r, nt.ElementContainerType):
            # add_element_container_types: a copy of the left operand, or of the right one when the left is empty
            res_e = fn(make(left_cls, ma, True), make(right_cls, mb))
            if (type(res) is type(l) and type(res.element_type) is type(ma) and not res.is_empty
                    and type(res_e) is type(r) and type(res_e.element_type) is type(mb)):
                return ".addContainers"
        if type(res) is nt.TupleType and left_cls is nt.TupleType and right_cls is nt.TupleType:
            if isinstance(res.element_types, tuple) and len(res.element_types) == 2 \
                    and res.element_types[0] is ma and res.element_types[1] is mb:
                return ".addTuples"
        return "(.unknown %s)" % lean_str("%s -> %s" % (getattr(fn, "__name__", "?"), type(res).__name__))
    except Exception as e:  # noqa
        return "(.unknown %s)" % lean_str("%s raised %s" % (getattr(fn, "__name__", "?"), type(e).__name__))


def binop_rows():
    use_repo()
    from pedal.types import operations as ops
    from pedal.types import new_types as nt
    by_ast = {cls: name for name, cls, _, _ in BINOPS}
    rows = []
    for op_cls, left_table in ops.VALID_BINOP_TYPES.items():
        op = (".%s" % by_ast[op_cls]) if op_cls in by_ast else "(.unknown %s)" % lean_str(getattr(op_cls, "__name__", repr(op_cls)))
        for left, right_table in left_table.items():
            for right, fn in right_table.items():
                if isinstance(left, type) and isinstance(right, type) and callable(fn):
                    res = classify_result_fn(fn, left, right, nt)
                else:
                    res = "(.unknown %s)" % lean_str(repr(fn))
                rows.append("(%s, %s, %s, %s)" % (op, key_ctor(left), key_ctor(right), res))
    return sorted(rows)          # dictionary order is irrelevant to lookups


def orderable_rows():
    use_repo()
    from pedal.types import new_types as nt
    classes = [getattr(nt, n) for n in KEY_NAMES if hasattr(nt, n)]
    rows = []
    for left in classes:
        allowed = getattr(left, "orderable", frozenset())
        for right in allowed:
            rows.append("(%s, %s)" % (key_ctor(left), key_ctor(right)))
    return sorted(set(rows))


def run_cell(fn, a, b):
    try:
        r = fn(a, b)
    except TypeError:
        return ("TypeError",)
    except Exception as e:  # ZeroDivisionError, ValueError, OverflowError ...
        return ("other", type(e).__name__)
    return ("ok", type(r).__name__)


def cpython_cells():
    """[(kind, lean op, symbol, left cls, right cls, always TypeError?, sometimes TypeError?, [result classes])]"""
    cells = []
    for kind, table in (("bin", BINOPS), ("cmp", CMPOPS)):
        for name, _, fn, sym in table:
            for lc, rc in itertools.product(REPS, repeat=2):
                outs = [run_cell(fn, a, b) for a in REPS[lc] for b in REPS[rc]]
                te = [o[0] == "TypeError" for o in outs]
                results = sorted({o[1] for o in outs if o[0] == "ok"})
                cells.append((kind, name, sym, lc, rc, all(te), any(te), results))
    return cells


def translate():
    rows = binop_rows()
    order = orderable_rows()
    cells = cpython_cells()
    cp = []
    for kind, name, sym, lc, rc, always, _some, results in cells:
        cp.append("(.%s .%s, %s, %s, %s, %s)" % (kind, name, cls_ctor(lc), cls_ctor(rc), "true" if always else "false",
                                                 lean_list([cls_ctor(r) for r in results])))
    src = "\n".join([
        "import PedalModel.TypeOpsBase",
        "/- GENERATED by harness/translate_types.py from the tree under test and the running CPython. Do not edit. -/",
        "namespace Pedal.Gen.Types",
        "open Pedal.Types",
        "",
        "/-- pedal.types.operations.VALID_BINOP_TYPES: (operator, type(left), type(right), result function) -/",
        "def binopTable : List (BinOp × Key × Key × ResFn) := " + lean_list(rows),
        "",
        "/-- (type(left), type(right)) with `type(right) in left.orderable` -/",
        "def orderable : List (Key × Key) := " + lean_list(order),
        "",
        "/-- CPython: (operator, left class, right class, TypeError for every pair of representatives?, run-time classes",
        "    of the successful executions) -/",
        "def cpython : List (Op × Cls × Cls × Bool × List Cls) := " + lean_list(cp),
        "",
        "/-- the classes whose values the property's variables hold -/",
        "def coreClasses : List Cls := " + lean_list([cls_ctor(c) for c in CORE]),
        "",
        "end Pedal.Gen.Types",
        "",
    ])
    path = os.path.join(LEAN_DIR, "PedalModel", "Gen", "TypeTables.lean")
    changed = write_if_changed(path, src)
    return {"file": "PedalModel/Gen/TypeTables.lean", "sha1": hashlib.sha1(src.encode()).hexdigest()[:12],
            "changed": changed, "binop_rows": len(rows), "orderable_pairs": len(order), "cpython_cells": len(cells)}


if __name__ == "__main__":
    print(translate())

"""
Regenerates lean/PedalModel/Gen/TypeTables.lean:

* `binopTable`   — pedal.types.operations.VALID_BINOP_TYPES, introspected: operator class x left type class x
                   right type class -> the result function, identified by *function identity*;
* `orderable`    — every (left class, right class) pair with `right in left.orderable` (the Compare rule);
* `cpython`      — CPython's own truth, by executing every binary / comparison operator on several representative
                   values per class (the five core classes, plus bool because comparisons of core values produce it): does it raise TypeError for every pair of representatives, and which run-time
                   classes do the successful executions produce.

Anything not understood becomes an explicit `unknown`/`other` constructor so the Lean theorems fail on it.
"""
import ast
import hashlib
import itertools
import operator
import os

from common import LEAN_DIR, lean_list, lean_str, use_repo, write_if_changed

BINOPS = [("add", ast.Add, operator.add, "+"), ("sub", ast.Sub, operator.sub, "-"), ("mult", ast.Mult, operator.mul, "*"),
          ("div", ast.Div, operator.truediv, "/"), ("floordiv", ast.FloorDiv, operator.floordiv, "//"),
          ("mod", ast.Mod, operator.mod, "%"), ("pow", ast.Pow, operator.pow, "**"),
          ("lshift", ast.LShift, operator.lshift, "<<"), ("rshift", ast.RShift, operator.rshift, ">>"),
          ("bitor", ast.BitOr, operator.or_, "|"), ("bitxor", ast.BitXor, operator.xor, "^"),
          ("bitand", ast.BitAnd, operator.and_, "&"), ("matmult", ast.MatMult, operator.matmul, "@")]
CMPOPS = [("eq", ast.Eq, operator.eq, "=="), ("noteq", ast.NotEq, operator.ne, "!="), ("lt", ast.Lt, operator.lt, "<"),
          ("lte", ast.LtE, operator.le, "<="), ("gt", ast.Gt, operator.gt, ">"), ("gte", ast.GtE, operator.ge, ">="),
          ("is", ast.Is, operator.is_, "is"), ("isnot", ast.IsNot, operator.is_not, "is not"),
          ("«in»", ast.In, lambda a, b: operator.contains(b, a), "in"),
          ("notin", ast.NotIn, lambda a, b: not operator.contains(b, a), "not in")]

# several representatives per class, so value-dependent cells (int ** negative, str % int, x // 0) are seen
REPS = {
    "int": [3, -2, 0, 1],
    "float": [2.5, -0.5, 0.0],
    "str": ["ab", "", "%d"],
    "list": [[1, 2], [], [7]],
    "tuple": [(1, 2), (5,), ()],
    "bool": [True, False],          # not a core class: comparisons produce it, so expression trees need its rows
}
CORE = ["int", "float", "str", "list", "tuple"]
CLS_CTORS = {"int", "float", "str", "list", "tuple", "bool", "complex"}

KEY_NAMES = {"AnyType": "any", "ImpossibleType": "impossible", "NoneType": "none", "NumType": "num", "IntType": "int",
             "FloatType": "float", "BoolType": "bool", "StrType": "str", "LiteralInt": "litInt",
             "LiteralFloat": "litFloat", "LiteralBool": "litBool", "LiteralStr": "litStr", "ListType": "list",
             "SetType": "set", "FrozenSetType": "fset", "TupleType": "tuple", "DictType": "dict"}


def key_ctor(cls):
    name = cls.__name__ if isinstance(cls, type) else repr(cls)
    if name in KEY_NAMES:
        return ".%s" % KEY_NAMES[name]
    return "(.other %s)" % lean_str(name)


def cls_ctor(name):
    return (".%s" % name) if name in CLS_CTORS else "(.other %s)" % lean_str(name)


def binop_rows():
    use_repo()
    from pedal.types import operations as ops
    by_ast = {cls: name for name, cls, _, _ in BINOPS}
    fns = {}
    for lean_name, py_name in [("numAny", "NumType_any"), ("intAny", "IntType_any"), ("floatAny", "FloatType_any"),
                               ("strAny", "StrType_any"), ("boolAny", "BoolType_any"), ("keepLeft", "keep_left"),
                               ("keepRight", "keep_right"), ("addContainers", "add_element_container_types"),
                               ("addTuples", "add_tuples")]:
        if hasattr(ops, py_name):
            fns[id(getattr(ops, py_name))] = lean_name
    rows = []
    for op_cls, left_table in ops.VALID_BINOP_TYPES.items():
        op = (".%s" % by_ast[op_cls]) if op_cls in by_ast else "(.unknown %s)" % lean_str(getattr(op_cls, "__name__", repr(op_cls)))
        for left, right_table in left_table.items():
            for right, fn in right_table.items():
                res = (".%s" % fns[id(fn)]) if id(fn) in fns else "(.unknown %s)" % lean_str(getattr(fn, "__name__", repr(fn)))
                rows.append("(%s, %s, %s, %s)" % (op, key_ctor(left), key_ctor(right), res))
    return rows


def orderable_rows():
    use_repo()
    from pedal.types import new_types as nt
    classes = [getattr(nt, n) for n in KEY_NAMES if hasattr(nt, n)]
    rows = []
    for left in classes:
        allowed = getattr(left, "orderable", frozenset())
        for right in allowed:
            rows.append("(%s, %s)" % (key_ctor(left), key_ctor(right)))
    return sorted(set(rows))


def run_cell(fn, a, b):
    try:
        r = fn(a, b)
    except TypeError:
        return ("TypeError",)
    except Exception as e:  # ZeroDivisionError, ValueError, OverflowError ...
        return ("other", type(e).__name__)
    return ("ok", type(r).__name__)


def cpython_cells():
    """[(kind, lean op, symbol, left cls, right cls, always TypeError?, sometimes TypeError?, [result classes])]"""
    cells = []
    for kind, table in (("bin", BINOPS), ("cmp", CMPOPS)):
        for name, _, fn, sym in table:
            for lc, rc in itertools.product(REPS, repeat=2):
                outs = [run_cell(fn, a, b) for a in REPS[lc] for b in REPS[rc]]
                te = [o[0] == "TypeError" for o in outs]
                results = sorted({o[1] for o in outs if o[0] == "ok"})
                cells.append((kind, name, sym, lc, rc, all(te), any(te), results))
    return cells


def translate():
    rows = binop_rows()
    order = orderable_rows()
    cells = cpython_cells()
    cp = []
    for kind, name, sym, lc, rc, always, _some, results in cells:
        cp.append("(.%s .%s, %s, %s, %s, %s)" % (kind, name, cls_ctor(lc), cls_ctor(rc), "true" if always else "false",
                                                 lean_list([cls_ctor(r) for r in results])))
    src = "\n".join([
        "import PedalModel.TypeOpsBase",
        "/- GENERATED by harness/translate_types.py from the tree under test and the running CPython. Do not edit. -/",
        "namespace Pedal.Gen.Types",
        "open Pedal.Types",
        "",
        "/-- pedal.types.operations.VALID_BINOP_TYPES: (operator, type(left), type(right), result function) -/",
        "def binopTable : List (BinOp × Key × Key × ResFn) := " + lean_list(rows),
        "",
        "/-- (type(left), type(right)) with `type(right) in left.orderable` -/",
        "def orderable : List (Key × Key) := " + lean_list(order),
        "",
        "/-- CPython: (operator, left class, right class, TypeError for every pair of representatives?, run-time classes",
        "    of the successful executions) -/",
        "def cpython : List (Op × Cls × Cls × Bool × List Cls) := " + lean_list(cp),
        "",
        "/-- the classes whose values the property's variables hold -/",
        "def coreClasses : List Cls := " + lean_list([cls_ctor(c) for c in CORE]),
        "",
        "end Pedal.Gen.Types",
        "",
    ])
    path = os.path.join(LEAN_DIR, "PedalModel", "Gen", "TypeTables.lean")
    changed = write_if_changed(path, src)
    return {"file": "PedalModel/Gen/TypeTables.lean", "sha1": hashlib.sha1(src.encode()).hexdigest()[:12],
            "changed": changed, "binop_rows": len(rows), "orderable_pairs": len(order), "cpython_cells": len(cells)}


if __name__ == "__main__":
    print(translate())

"""C07 — runtime assertions pass only when the asserted relation really holds."""
import collections
import contextlib
import itertools
import json
import os
import sys

from common import VERIF, CorrResult, Failure, canon, load_known_findings, run_check, use_repo

use_repo()

import assertions_common as ac  # noqa: E402
import assertions_gen as ag  # noqa: E402
import assertions_lazy as al  # noqa: E402
import assertions_groups as agr  # noqa: E402
from translate_assertions import translate  # noqa: E402

PROVED = [
    "assert_less", "assert_less_equal", "assert_greater", "assert_greater_equal",
    "assert_in", "assert_not_in", "assert_contains_subset", "assert_not_contains_subset",
    "assert_is", "assert_is_not", "assert_is_none", "assert_is_not_none", "assert_true", "assert_false",
    "assert_length_equal", "assert_length_not_equal", "assert_length_less", "assert_length_less_equal",
    "assert_length_greater", "assert_length_greater_equal", "assert_is_instance", "assert_not_is_instance",
    "assert_equal", "assert_not_equal", "assert_almost_equal", "assert_not_almost_equal",
    "assert_regex", "assert_not_regex", "assert_output", "assert_prints", "assert_not_output",
    "assert_output_contains", "assert_not_output_contains", "assert_output_regex", "assert_not_output_regex",
]
THEOREMS = (["Pedal.Assertions.c07_" + n for n in PROVED] + [
    "Pedal.Assertions.c07_table_correct",
    "Pedal.Assertions.c07_silent_iff_holds",
    "Pedal.Assertions.c07_wrapping_invariant",
    "Pedal.Assertions.c07_negation_exclusive",
    "Pedal.Assertions.c07_order_negation_exclusive",
    "Pedal.Assertions.c07_length_negation_exclusive",
    "Pedal.Assertions.c07_error_operand_fails",
    "Pedal.Assertions.c07_tolerance_symmetric",
    "Pedal.Assertions.c07_string_normalisation_symmetric",
    "Pedal.Assertions.c07_normalisation_ignores_case",
    "Pedal.Assertions.c07_equality_symmetric",
    "Pedal.Assertions.c07_equality_evaluable",
    "Pedal.Assertions.c07_equal_negation_exclusive_partial",
    "Pedal.Assertions.c07_equal_negation_exclusive_seq",
    "Pedal.Assertions.c07_equal_negation_exclusive_counterexample",
    "Pedal.Assertions.c07_unit_test_all_and_count",
])
NOTES = [
    "value universe PyVal: None, bool, int, float (finite; exact dyadic rationals), str (code points), list, tuple, "
    "set, dict, the builtin classes, exception instances and instances of a plain class compared by identity; "
    "no NaN/inf, no user-defined __eq__/__lt__/__contains__/__len__/__bool__, no frozenset/bytes/generators",
    "the Python relations pyEq/pyCmp/pyIn/pyLen/truthy/pyIsInstance and the port of equality_test are hand-written "
    "and validated against CPython / pedal on every run (primitive and equality_test streams of the correspondence); "
    "the theorems are about pedal's conditions relative to these relations",
    "floats: generated floats are multiples of 2^-20 of magnitude < 2^10, so the float subtraction in "
    "abs(expected - actual) is exact and agrees with the model's rational arithmetic; rounding is outside the model",
    "string normalisation is modelled on ASCII (lower(), string.punctuation, str.split() whitespace); non-ASCII "
    "strings are answered 'unmodelled' and not compared; punctuation acts as a separator (the implementation's "
    "translate table), not 'removed' as one docstring says",
    "re.search, str() of a non-string operand and the captured output of an execution are parameters of the model "
    "(abstract functions in the theorems, concrete values supplied by the harness per case)",
    "WHICH text an operand of an output assertion stands for is outside the Lean model (the `.output` primitive): the "
    "translator accepts self.get_output as that primitive only after a behavioural probe on a fixed history with nested "
    "CommandBlocks, and the history streams (every execution result and the Sandbox as operand after sequences of "
    "call / evaluate / run / lookups / failing calls / clear_output / open and closed blocks) supply the model and the "
    "oracle with the text that very execution wrote as known to the generator, never read back from pedal",
    "assert_is_instance treats int and float as interchangeable (explicit in the code): the spec relation follows it",
    "assert_type / assert_not_type (pedal type system) are not modelled in Lean: sampled against an oracle only (a table "
    "of value/type-expression pairs incl. nested generics and both spellings, plus the student's own classes given as "
    "class object, evaluate() proxy and name, each with a raw, proxied and error operand); "
    "assert_has_attr / assert_has_variable / assert_has_function are outside the property's list",
    "the value loop of equality_test's dict branch iterates a set: when a False and a raising comparison are both "
    "present the model answers 'unmodelled'",
    "lazy / view / iterator-like operands (range, map, filter, zip, enumerate, reversed, dict views) are not values of the "
    "Lean universe: equality_test turns the classes of its two tables into a list / a set before anything else, and the "
    "harness encoder does the same (hard-coded, like the model) before it asks the model about the equality family and about "
    "equality_test itself; generators, other iterators, deque, OrderedDict views, frozenset, bytes, bytearray, complex, "
    "Fraction, Decimal and dataclass instances are search-only (oracle: every reading of == - Python's own and 'a lazy "
    "object stands for its elements' - must agree for a verdict to be demanded; otherwise only the pairing with the "
    "negation, independence of the argument order and of the wrapping are checked)",
    "dict KEYS under assert_equal: neither the documentation nor the property says whether tolerance/normalisation "
    "extend to keys; for two dicts whose key sets are equal only approximately the oracle abstains and only demands "
    "that assert_equal and assert_not_equal do not both pass or both fail (the code matches the key sets "
    "approximately and then looks keys up exactly -> KeyError: open finding, refuted full statement)",
]
REFUTED = [{"statement": "Pedal.Assertions.C07_equal_negation_exclusive_Full",
            "refuted_by": "Pedal.Assertions.c07_equal_negation_exclusive_counterexample",
            "findings": ["assert_equal / assert_not_equal both fail for dicts whose key sets are equal only approximately"]}]

WRAPS = ("rr", "pr", "rp", "pp")
DELTAS = [None, 0.5, 0.125]

_pool = None


def pool():
    global _pool
    if _pool is None:
        _pool = ag.Pool()
    return _pool


# --------------------------------------------------------------------------------------
# cases

def relevant(P, name):
    """index lists (lefts, rights) of the operands that make `name` interesting"""
    allv = list(range(P.n))
    if name in ac.LENGTH:
        return P.idx("str", "list", "tuple", "set", "dict"), P.idx("int", "float", "bool")
    if name in ac.INSTANCE:
        return allv, P.idx("type") + [i for i in P.idx("tuple") if P.raw[i] and all(isinstance(x, type) for x in P.raw[i])]
    if name in ac.REGEX:
        return P.idx("str"), P.idx("str", "int", "list")
    if name in ac.ORDER:
        same = P.idx("int", "float", "bool", "str", "list", "tuple", "set")
        return same, same
    if name in ("assert_in", "assert_not_in"):
        return allv, P.idx("str", "list", "tuple", "set", "dict")
    if name in ("assert_contains_subset", "assert_not_contains_subset"):
        c = P.idx("str", "list", "tuple", "set", "dict")
        return c, c
    return allv, allv


def gen_binary(rng, tier, P):
    if tier == "thorough":
        for name in ac.BINARY:
            for li in range(P.n):
                for ri in range(P.n):
                    for w in WRAPS:
                        yield {"a": name, "li": li, "ri": ri, "wrap": w}
        return
    per = 420
    for name in ac.BINARY:
        ls, rs = relevant(P, name)
        for k in range(per):
            if k % 3 == 0:
                li, ri = rng.randrange(P.n), rng.randrange(P.n)
            else:
                li, ri = rng.choice(ls), rng.choice(rs)
            if k % 11 == 0:
                ri = li
            yield {"a": name, "li": li, "ri": ri, "wrap": rng.choice(WRAPS)}


def gen_equal_options(rng, tier, P):
    """assert_equal family with exact_strings / other deltas"""
    num = P.idx("int", "float", "bool", "list", "set", "dict", "tuple")
    strs = P.idx("str", "list", "set", "dict")
    n = 700 if tier == "quick" else 40000
    for _ in range(n):
        name = rng.choice(ac.EQUAL)
        if rng.random() < 0.5:
            li, ri = rng.choice(strs), rng.choice(strs)
            yield {"a": name, "li": li, "ri": ri, "wrap": rng.choice(WRAPS), "exact": True, "delta": rng.choice(DELTAS)}
        else:
            li, ri = rng.choice(num), rng.choice(num)
            yield {"a": name, "li": li, "ri": ri, "wrap": rng.choice(WRAPS), "exact": rng.random() < 0.3,
                   "delta": rng.choice(DELTAS[1:])}


def gen_unary(rng, tier, P):
    for name in ac.UNARY:
        for li in range(P.n):
            for w in "rp":
                yield {"a": name, "li": li, "wrap": w}


def gen_spelling(rng, tier, P):
    """the same assertions through the other spellings of the API: operands by keyword, camelCase alias.
    First the whole built-in corpus (it tells every assertion from its neighbours) in both spellings, then random."""
    for case in builtin_corpus():
        if case["wrap"] in ("rr", "r") and case["desc"]["l"].get("t") != "err" and case["desc"].get("r", {}).get("t") != "err":
            for sp in ("keyword", "alias"):
                d = dict(case["desc"], spelling=sp)
                yield {"a": case["a"], "wrap": case["wrap"], "desc": d}
    n = 900 if tier == "quick" else 30000
    names = [x for x in ac.BINARY + ac.UNARY]
    for k in range(n):
        name = rng.choice(names)
        ls, rs = relevant(P, name)
        case = {"a": name, "li": rng.choice(ls), "wrap": rng.choice(WRAPS), "spelling": ("keyword", "alias")[k % 2]}
        if name not in ac.UNARY:
            case["ri"] = rng.choice(rs)
        else:
            case["wrap"] = case["wrap"][0]
        yield case


def gen_after_failure(rng, tier, P):
    """multi-step: call() of a crashing function, then assertions on the results of later call()s"""
    reprable = [i for i in range(P.n) if P.shape[i] not in ("type", "object", "error")
                and not (P.shape[i] == "tuple" and any(isinstance(x, type) for x in P.raw[i]))]
    n = 500 if tier == "quick" else 15000
    names = ac.ORDER + ac.MEMBER + ac.LENGTH + ac.EQUAL + ac.UNARY
    for _ in range(n):
        name = rng.choice(names)
        ls, rs = relevant(P, name)
        ls = [i for i in ls if i in reprable] or reprable
        rs = [i for i in rs if i in reprable] or reprable
        case = {"a": name, "li": rng.choice(ls), "wrap": rng.choice(("pr", "rp", "pp")), "after_failure": True}
        if name not in ac.UNARY:
            case["ri"] = rng.choice(rs)
        else:
            case["wrap"] = "p"
        yield case


TEXTS = ["Hello, World!", "hello world", "HELLO WORLD", "Hello", "a\nb", "b\na", "a b", "", "Ab.", "ab", "caat", "a+",
         "(", "1", "^a.b$", "hello, world", "World", "b", "a b ", "a\rb", "a\x0cb", "a\xa0b", " "]


def gen_output(rng, tier, P):
    combos = [(name, e, t, w, ex) for name in ac.OUTPUT for e in range(len(ag.EXECUTIONS)) for t in range(len(TEXTS))
              for w in "rp" for ex in (False, True)]
    if tier == "quick":
        combos = rng.sample(combos, 1500)
    for name, e, t, w, ex in combos:
        yield {"a": name, "exec": e, "text": t, "wrap": w, "exact": ex}


# --------------------------------------------------------------------------------------
# histories: the asserted operand is produced in the middle of a sequence of executions (steps: assertions_gen)

# clear_sandbox() histories (before /repo 31d4e77 every assertion on a result made after clear_sandbox() raised
# IndexError); VERIF_C07_CLEAR_SANDBOX=0 switches the stream off
HIST_CLEAR_SANDBOX = os.environ.get("VERIF_C07_CLEAR_SANDBOX", "1") == "1"
HA, HB = "Hello there", "Goodbye now"
SMALL_STEPS = [["open"], ["close"], ["clear_output"], ["say", HA], ["say", HB], ["quiet"], ["boom"]]
HIST_TEXTS = [HA, HB, "", "a\nb", "b\na", "Ab.", "a b ", "a\rb", "caat", "1", "hello there", "x\r"]
RAW_TEXTS = ["", "x", "x\n", "x\n\n", "x\r\n", "a\nb", HA]        # written with print(text, end="")
OUTPUT_DISTINCT = [n for n in ac.OUTPUT if n != "assert_prints"]


def well_formed(steps):
    depth = 0
    for st in steps:
        if st[0] == "open":
            depth += 1
        elif st[0] == "close":
            if depth == 0:
                return False
            depth -= 1
    return True


def hist_probes(steps):
    """the operands a history offers to an output assertion: the result of every execution, and the Sandbox"""
    return [i for i, st in enumerate(steps) if st[0] in ag.EXEC_KINDS] + ["sandbox"]


def gen_history_corpus(tier):
    """small scope, exhaustive: every well-formed history of up to 3 (thorough: 4) steps over open / close /
    clear_output / two calls that print different lines / a silent call / a failing call; every operand it offers;
    every output assertion with the text the operand's own execution printed and with the other line"""
    names = OUTPUT_DISTINCT if tier == "quick" else ac.OUTPUT
    for n in range(1, (3 if tier == "quick" else 4) + 1):
        for steps in itertools.product(SMALL_STEPS, repeat=n):
            steps = [list(st) for st in steps]
            if not well_formed(steps) or not any(st[0] in ag.EXEC_KINDS for st in steps):
                continue
            for on in hist_probes(steps):
                own = ac.chomp(ag.hist_expect(steps, on)[0])
                for text in (own, HB if own == HA else HA):
                    for name in names:
                        yield {"a": name, "wrap": "r", "hist": steps, "on": on, "text": text, "exact": False}


# A lookup (`sandbox[name]`) searches the sandbox's whole list of past executions, which only grows during a run:
# the number of lookup steps per run is bounded, later ones become evaluate() steps (decided here, in the generators,
# so that a case description always says what was executed).
_lookup_budget = [0]


def take_lookup():
    if _lookup_budget[0] <= 0:
        return False
    _lookup_budget[0] -= 1
    return True


def random_step(rng, depth):
    st = _random_step(rng, depth)
    if st[0] == "getitem" and not take_lookup():
        return ["eval"]
    return st


def _random_step(rng, depth):
    r = rng.random()
    if r < 0.12:
        return ["open"]
    if r < 0.22 and depth:
        return ["close"]
    if r < 0.28:
        return ["clear_output"]
    if r < 0.52:
        return ["say", rng.choice(HIST_TEXTS)]
    if r < 0.58:
        return ["sayraw", rng.choice(RAW_TEXTS)]
    if r < 0.64:
        return ["quiet"]
    if r < 0.71:
        return ["boom"]
    if r < 0.76:
        return ["sayboom", rng.choice(HIST_TEXTS)]
    if r < 0.82:
        return ["evalsay", rng.choice(HIST_TEXTS)]
    if r < 0.85:
        return ["eval"]
    if r < 0.90:
        return ["runcode", rng.choice(HIST_TEXTS)]
    if r < 0.93:
        return ["rerun"]
    if r < 0.96:
        return ["missing"]
    return ["getitem"]


def random_steps(rng, n):
    steps, depth = [], 0
    for _ in range(n):
        st = random_step(rng, depth)
        depth += (st[0] == "open") - (st[0] == "close")
        steps.append(st)
    return steps


def gen_history_random(rng, tier):
    """longer histories over the whole step vocabulary (nested blocks, evaluate, run of instructor code, the student
    program again, output without a final newline, a call that prints and then fails, a call of a missing function,
    variable lookups), several probes each: any operand, any output assertion, exact or not, raw or proxied text"""
    n, per = (500, 8) if tier == "quick" else (5000, 12)
    for _ in range(n):
        steps = random_steps(rng, rng.randrange(2, 8))
        probes = hist_probes(steps)
        printed = sorted({ac.chomp(ag.step_effect(st)[0]) for st in steps if st[0] in ag.EXEC_KINDS})
        cases = []
        for _ in range(per):
            on = rng.choice(probes)
            own = ac.chomp(ag.hist_expect(steps, on)[0])
            r = rng.random()
            text = (own if r < 0.5 else rng.choice(printed) if r < 0.8 and printed else
                    ac.chomp(ag.hist_expect(steps, "sandbox")[0]) if r < 0.9 else rng.choice(TEXTS))
            cases.append({"a": rng.choice(ac.OUTPUT), "wrap": rng.choice("rrp"), "hist": steps, "on": on,
                          "text": text, "exact": rng.random() < 0.3})
        cases.sort(key=lambda c: c["wrap"])       # raw texts first: a new text proxy restarts the history
        for c in cases:
            yield c


NOISE = [["boom"], ["say", HA], ["quiet"], ["open"], ["close"], ["clear_output"], ["missing"], ["getitem"], ["eval"],
         ["sayboom", HB], ["runcode", HA]]
HOWS = ["ident", "ident", "evalv", "getv"]


def value_history(rng, name, wrap, boom_side=None):
    """steps that produce the operands of a value assertion among other executions"""
    def noise(k):
        out = [list(rng.choice(NOISE)) for _ in range(k)]
        return [["eval"] if st[0] == "getitem" and not take_lookup() else st for st in out]
    steps = noise(rng.randrange(0, 3))
    sides = [("L", wrap[0])] + ([("R", wrap[1])] if name not in ac.UNARY else [])
    if rng.random() < 0.5:
        sides.reverse()
    for side, w in sides:
        if w == "p":
            how = "boom" if side == boom_side else rng.choice(HOWS)
            if how == "getv" and not take_lookup():
                how = "evalv"
            steps.append([side, how])
            steps += noise(rng.randrange(0, 3))
    if not well_formed(steps):
        steps = [st for st in steps if st[0] != "close"]
    return steps


def gen_value_history(rng, tier, P):
    """every assertion family on operands made by call / evaluate / lookup before, between and after other executions
    (failed ones included), inside open blocks, after closed ones; also the result of an earlier failed call"""
    reprable = [i for i in range(P.n) if P.shape[i] not in ("type", "object", "error")
                and not (P.shape[i] == "tuple" and any(isinstance(x, type) for x in P.raw[i]))]
    # fixed part: one holding and one failing pair per family under a fixed set of histories
    fixed = [("assert_equal", 1, 1), ("assert_equal", 1, 2), ("assert_not_equal", 1, 2), ("assert_less", 1, 2),
             ("assert_less", 2, 1), ("assert_in", "a", "abc"), ("assert_in", "z", "abc"), ("assert_true", 1, None),
             ("assert_true", 0, None), ("assert_is_none", None, None), ("assert_is_none", 0, None),
             ("assert_length_equal", [1], 1), ("assert_length_equal", [1], 2), ("assert_is_instance", 1, int),
             ("assert_is_instance", "a", int), ("assert_regex", "a+", "caat"), ("assert_regex", "z", "caat"),
             ("assert_contains_subset", [1], [1, 2]), ("assert_false", 0, None), ("assert_is_not_none", 0, None)]
    shapes = [lambda l, r: [["open"], ["boom"]] + l + r, lambda l, r: l + [["boom"]] + r, lambda l, r: l + r + [["boom"]],
              lambda l, r: [["open"]] + l + [["close"]] + r, lambda l, r: [["open"], ["say", HA]] + l + [["say", HB]] + r,
              lambda l, r: l + [["open"]] + r + [["missing"]], lambda l, r: [["open"], ["open"]] + r + [["close"]] + l,
              lambda l, r: [["getitem"]] + l + [["getitem"]] + r + [["clear_output"]]]
    for name, l, r in fixed:
        for how in ("ident", "evalv", "getv"):
            for k, shp in enumerate(shapes):
                unary = name in ac.UNARY
                wrap = "p" if unary else ("pp" if isinstance(r, (int, str, list)) and not isinstance(r, type) else "pr")
                steps = shp([["L", how]], [] if unary or wrap[1] == "r" else [["R", how]])
                d = {"a": name, "wrap": wrap, "l": _v(l), "history": steps}
                if not unary:
                    d["r"] = _v(r)
                yield {"a": name, "wrap": wrap, "desc": d, "vhist": steps}
    n = 1600 if tier == "quick" else 12000
    names = ac.ORDER + ac.MEMBER + ac.IDENT + ac.LENGTH + ac.EQUAL + ac.REGEX + ac.UNARY
    for _ in range(n):
        name = rng.choice(names)
        ls, rs = relevant(P, name)
        ls = [i for i in ls if i in reprable] or reprable
        rs = [i for i in rs if i in reprable] or reprable
        wrap = "p" if name in ac.UNARY else rng.choice(("pr", "rp", "pp"))
        boom_side = rng.choice("LR") if rng.random() < 0.1 else None
        case = {"a": name, "li": rng.choice(ls), "wrap": wrap, "vhist": value_history(rng, name, wrap, boom_side)}
        if name not in ac.UNARY:
            case["ri"] = case["li"] if rng.random() < 0.1 else rng.choice(rs)
        yield case


def case_label(case):
    """where the asserted operand stands in its history (None for a case without one)"""
    if "hist" in case:
        return ag.hist_label(case["hist"], case["on"])
    d = case.get("desc") or {}
    if "history" in d and "on" in d:
        return ag.hist_label(d["history"], d["on"])
    steps = case.get("vhist") or d.get("history")
    if not steps:
        return None
    sides = [sd for sd in "LR" if any(st[0] == sd for st in steps)]
    return " & ".join(sd + ":" + ag.hist_label(steps, sd) for sd in sides) if sides else None


_hist_text_proxy = {}
_in_clear_stream = [False]


def hist_operands(name, steps, on, text, wrap, exact):
    t = text
    if wrap == "p":
        if text not in _hist_text_proxy:
            ag.end_history()            # making the proxy is itself an execution: do it before the history starts
            _hist_text_proxy[text] = ac.proxy_of(text)
        t = _hist_text_proxy[text]
    out = ag.live_history(steps)
    a = ac.get_sandbox() if on == "sandbox" else out["ops"][on]
    printed, failed = ag.hist_expect(steps, on)
    return name, a, t, {"exact": exact}, {"printed": printed, "failed": failed}


def vhist_operands(name, steps, lo, ro, wrap, kw):
    out = ag.run_history(steps, lo, ro)
    a = out["L"] if any(st[0] == "L" for st in steps) else lo
    if name in ac.UNARY:
        return name, a, None, kw, {}
    b = out["R"] if any(st[0] == "R" for st in steps) else ro
    return name, a, b, kw, {}


_exec_cache = {}


def execution(k):
    how = ag.EXECUTIONS[k][0]
    if how.startswith("sandbox"):
        return ag.make_execution(*ag.EXECUTIONS[k])      # depends on the sandbox state: set it up every time
    if k not in _exec_cache:
        _exec_cache[k] = ag.make_execution(*ag.EXECUTIONS[k])
    return _exec_cache[k]


_text_proxy = {}


def materialise(case, P):
    """(name, a, b, kwargs for run_real/oracle/request_line)"""
    name = case["a"]
    if "hist" in case:
        return hist_operands(name, case["hist"], case["on"], case["text"], case["wrap"], case["exact"])
    ag.end_history()
    if "desc" in case:
        return from_description(case["desc"])
    if "vhist" in case:
        kw = {"exact": case.get("exact", False), "delta": case.get("delta")} if name in ac.EQUAL else {}
        return vhist_operands(name, case["vhist"], P.raw[case["li"]], P.raw[case["ri"]] if "ri" in case else None,
                              case["wrap"], kw)
    if "exec" in case:
        a, printed = execution(case["exec"])
        t = TEXTS[case["text"]]
        if case["wrap"] == "p":
            if case["text"] not in _text_proxy:
                _text_proxy[case["text"]] = ac.proxy_of(t)
            t = _text_proxy[case["text"]]
        return name, a, t, {"exact": case["exact"]}, {"printed": printed}
    w = case["wrap"]
    kw = {}
    if case.get("spelling"):
        kw["spelling"] = case["spelling"]
    if case.get("after_failure"):
        # multi-step: a call that crashes, then fresh calls whose results are asserted on
        ac.call("boom")
        a = ac.call("ident", P.raw[case["li"]]) if w[0] == "p" else P.raw[case["li"]]
        if name in ac.UNARY:
            return name, a, None, kw, {}
        b = ac.call("ident", P.raw[case["ri"]]) if w[1] == "p" else P.raw[case["ri"]]
    else:
        a = P.operand(case["li"], w[0])
        if name in ac.UNARY:
            return name, a, None, kw, {}
        b = P.operand(case["ri"], w[1])
    if name in ac.EQUAL:
        kw.update({"exact": case.get("exact", False), "delta": case.get("delta")})
    return name, a, b, kw, {}


def describe(case, P):
    """JSON-able, self-contained version of a case for replay files"""
    if "desc" in case:
        return case["desc"]
    d = {"a": case["a"], "wrap": case["wrap"]}
    if "hist" in case:
        d.update({"history": case["hist"], "on": case["on"], "text": case["text"], "exact": case["exact"]})
        return d
    if "vhist" in case:
        d["history"] = case["vhist"]
    if "exec" in case:
        d["execution"] = list(ag.EXECUTIONS[case["exec"]])
        d["text"] = TEXTS[case["text"]]
        d["exact"] = case["exact"]
        return d
    d["l"] = P.specs[case["li"]]
    if "ri" in case:
        d["r"] = P.specs[case["ri"]]
        d["same_object"] = case["li"] == case["ri"]
    for k in ("exact", "delta", "spelling", "after_failure"):
        if k in case:
            d[k] = case[k]
    return d


def from_description(d):
    """rebuild operands from a replay description: (name, a, b, kw, okw)"""
    ac.setup()
    name = d["a"]
    if d.get("after_clear_sandbox") and not _in_clear_stream[0]:
        from pedal.sandbox.commands import clear_sandbox
        ag.end_history()
        ac.renew()
        ac.call("say", HA)
        clear_sandbox()
        ac.run()
    if "history" in d and "on" in d:
        return hist_operands(name, d["history"], d["on"], d["text"], d["wrap"], d["exact"])
    if "history" in d:
        lo = ac.build(d["l"])
        ro = None if "r" not in d else (lo if d.get("same_object") else ac.build(d["r"]))
        kw = {k: d[k] for k in ("exact", "delta") if k in d} if name in ac.EQUAL else {}
        return vhist_operands(name, d["history"], lo, ro, d["wrap"], kw)
    if "execution" in d:
        a, printed = ag.make_execution(*d["execution"])
        t = d["text"]
        if d["wrap"] == "p":
            t = ac.proxy_of(t)
        return name, a, t, {"exact": d["exact"]}, {"printed": printed}
    w = d["wrap"]
    kw = {"spelling": d["spelling"]} if d.get("spelling") else {}
    lo = ac.build(d["l"])
    if d.get("after_failure"):
        ac.call("boom")
        wrap = lambda o: ac.call("ident", o)
    else:
        wrap = ac.proxy_of
    a = wrap(lo) if w[0] == "p" else ac.raw(lo)
    if "r" not in d:
        return name, a, None, kw, {}
    ro = lo if d.get("same_object") else ac.build(d["r"])
    b = wrap(ro) if w[1] == "p" else ac.raw(ro)
    if name in ac.EQUAL:
        kw.update({k: d[k] for k in ("exact", "delta") if k in d})
    return name, a, b, kw, {}


def want_of(name, a, b, kw, okw):
    """what the property demands: 'silent' | 'fires' | 'either' (the oracle abstains, see ac.o_equal)"""
    o = ac.oracle(name, a, b, **kw, **okw)
    return "either" if o is None else ("silent" if o else "fires")


COUNTERPART = dict(list(ac.NEGATION_PAIRS) + [(y, x) for x, y in ac.NEGATION_PAIRS])


def pair_outcomes(name, a, b, kw):
    """real outcomes of (name, its negated counterpart) on the very same operands"""
    return ac.run_real(name, a, b, **kw), ac.run_real(COUNTERPART[name], a, b, **kw)


def sig_of(name, real, want, a, b, wrap, hist=None):
    if real.startswith("escapes"):
        kind = "escapes"
    elif real == "inconsistent":
        kind = "inconsistent"
    else:
        kind = "false-pass" if real == "silent" else "false-fail"
    sig = {"assertion": name, "kind": kind, "left": ac.shape(a), "wrap": wrap}
    if name not in ac.UNARY:
        sig["right"] = ac.shape(b) if not isinstance(b, ag.ac.rt.Sandbox) else "sandbox"
    if hist:
        sig["history"] = hist
    return sig


# --------------------------------------------------------------------------------------
# unit_test

def gen_unit(rng, tier, P):
    vals = P.idx("int", "float", "bool", "str", "list", "tuple", "set", "dict", "none")
    n = 150 if tier == "quick" else 4000
    for i in range(n):
        k = rng.randrange(0, 5)
        rows = []
        for j in range(k):
            r = rng.random()
            stored = rng.choice(vals)
            if r < 0.55:
                expected = stored
            elif r < 0.65:
                expected = stored
                stored = None           # table(key) raises KeyError
            else:
                expected = rng.choice(vals)
            rows.append([j, stored, expected])
        case = {"rows": rows, "partial": rng.random() < 0.3}
        if rng.random() < 0.5:
            # unit_test in the middle of a history: earlier executions, a failed one, an open CommandBlock
            case["pre"] = random_steps(rng, rng.randrange(1, 5))
        # group context: the unit_test is written inside one / two enclosing assert_groups that hold an assertion of
        # their own (chosen from the counter, so the tables themselves are the ones generated without this dimension)
        if i % 4 == 3:
            case["ctx"] = 1 if i % 8 == 3 else 2
        yield case


def enclosing_groups(stack, depth):
    """enter `depth` nested assert_groups, each with one passing assertion of its own before the payload"""
    from pedal.assertions.feedbacks import assert_group
    for _ in range(depth or 0):
        stack.enter_context(assert_group("enclosing"))
        ac.rt.assert_true(True)


def run_unit(case, P):
    """real unit_test(): (returned, success_count, total_count, left operands as seen by the case assertions).
    unit_test is called the way instructors call it (default assert function); `partial` switches partial credit on,
    which must not change the verdict or the counts."""
    if case.get("pre"):
        ag.run_history(case["pre"])
    else:
        ag.end_history()
    sb = ac.get_sandbox()            # after the history: it may have started on a fresh sandbox
    sb.data["TABLE"] = {j: P.raw[s] for j, s, _ in case["rows"] if s is not None}
    ac.clear_report()
    seen = []
    try:
        extra = {"partial_credit": True} if case.get("partial") else {}
        with contextlib.ExitStack() as stack:
            enclosing_groups(stack, case.get("ctx"))
            ok = ac.unit_test("table", *[([j], P.raw[e]) for j, _, e in case["rows"]], **extra)
        groups = [f for f in ac.MAIN_REPORT.feedback + ac.MAIN_REPORT.ignored_feedback
                  if type(f).__name__ == "unit_test"]
        if len(groups) != 1:
            return {"error": "found %d unit_test feedbacks" % len(groups)}, seen
        g = groups[0]
        seen = [f.fields["left"] for f in g.all_feedback]
        return {"passed": bool(ok), "succ": g.fields.get("success_count"), "total": g.fields.get("total_count"),
                "reported": any(f is g for f in ac.MAIN_REPORT.feedback)}, seen
    except Exception as e:
        return {"error": "escapes:" + type(e).__name__}, seen
    finally:
        ac.clear_report()
        ag.end_history()


def oracle_unit(case, P):
    """None when the oracle abstains on one of the rows (ac.Ambiguous)"""
    good = 0
    try:
        for _, s, e in case["rows"]:
            if s is not None and ac.o_equal(P.raw[s], P.raw[e], False, ac.DEFAULT_DELTA):
                good += 1
    except ac.Ambiguous:
        return None
    return {"passed": good == len(case["rows"]), "succ": good, "total": len(case["rows"]),
            "reported": good != len(case["rows"])}


def unit_line(case, P, seen):
    toks = ["u", str(len(case["rows"])), "0"] + ac.enc_val(ac.code_delta(), [])
    for (j, s, e), left in zip(case["rows"], seen):
        toks += ac.enc_operand(left) + ac.enc_operand(P.raw[e])
    return " ".join(toks)


# --------------------------------------------------------------------------------------
# assert_type: sampled against an oracle only (the pedal type system is not modelled in Lean)

TYPE_CASES = [
    # (value, type expression, conforms?)
    (1, int, True), (1, "int", True), ("a", str, True), ("a", "str", True), (1.5, float, True), (True, bool, True),
    (None, None, True), (None, "None", True), ([1, 2], list, True), ([1, 2], "list[int]", True),
    ([1, 2], list[int], True), (["a"], "list[str]", True), ((1, "a"), "tuple[int, str]", True),
    ((1, "a"), tuple[int, str], True), ({"a": 1}, dict, True), ({"a": 1}, "dict[str, int]", True),
    ({1, 2}, "set[int]", True), ([], list, True),
    (1, str, False), ("a", int, False), (1.5, str, False), ([1, 2], "list[str]", False), (["a"], "list[int]", False),
    ((1, "a"), "tuple[str, int]", False), ((1, "a"), tuple[str, int], False), ({"a": 1}, "dict[str, str]", False),
    ([1], dict, False), ({"a": 1}, list, False), (None, int, False), ("1", int, False), (1, "list[int]", False),
    ({1, 2}, "set[str]", False), ((1, 2), list, False),
    # nested generics, both spellings of the type, unambiguous cases only (appended: replay files refer to indices)
    ([[1], [2]], "list[list[int]]", True), ([["a"]], "list[list[int]]", False), ({"a": [1]}, "dict[str, list[int]]", True),
    ({"a": [1]}, "dict[str, list[str]]", False), ([1, 2], "list", True), ("a", "list[str]", False), ((1, 2), tuple, True),
    ({1}, set, True), ({1}, list, False), (1.5, int, False), (1, bool, False), (None, "int", False),
    ({"a": 1}, dict[str, int], True), ({"a": 1}, dict[int, int], False), ([1], list[str], False), (1.5, "float", True),
    ((1,), "tuple[int]", True), ("", str, True), (0, int, True), ([], "list", True), ("", int, False), (0, str, False),
]


def type_shape(t):
    """`tuple[...]`, `list[...]`, `int`, ... — the head of the type expression and whether it has arguments"""
    text = t if isinstance(t, str) else (getattr(t, "__name__", None) or repr(t))
    if not isinstance(t, str) and getattr(t, "__args__", None):
        return t.__origin__.__name__ + "[...]"
    return text.split("[")[0] + ("[...]" if "[" in text else "")


def run_type_cases():
    out = []
    for vi, (v, t, conforms) in enumerate(TYPE_CASES):
        for w in "rp":
            a = ac.proxy_of(v) if w == "p" and v is not None else v
            for name, want in (("assert_type", conforms), ("assert_not_type", not conforms)):
                real = ac.run_real(name, a, t)
                out.append((vi, w, name, real, "silent" if want else "fires"))
        for how in ("boom",):
            for name in ("assert_type", "assert_not_type"):
                real = ac.run_real(name, ac.call(how), t)
                out.append((vi, "e", name, real, "fires"))
    return out


def class_type_cases():
    """assert_type with the student's own classes: (label, value, type expression, conforms, type shape).
    The class is given as the class object, as the proxy `evaluate('Thing')` returns, and by name."""
    data = ac.get_sandbox().data
    thing, other, doc = data["Thing"], data["Other"], data["Documented"]
    t1, o1, d1 = thing(), other(), doc()
    rows = []
    for tw in ("raw", "proxy", "str"):
        def ty(cls):
            return cls if tw == "raw" else (ac.proxy_of(cls) if tw == "proxy" else cls.__name__)
        plain, docd = "class", "class with a docstring"
        rows += [("Thing() : Thing / " + tw, t1, ty(thing), True, plain),
                 ("Other() : Thing / " + tw, o1, ty(thing), False, plain),
                 ("1 : Thing / " + tw, 1, ty(thing), False, plain),
                 ("None : Thing / " + tw, None, ty(thing), False, plain),
                 ("Documented() : Documented / " + tw, d1, ty(doc), True, docd),
                 ("Thing() : Documented / " + tw, t1, ty(doc), False, docd),
                 ("1 : Documented / " + tw, 1, ty(doc), False, docd)]
    rows += [("Thing() : int", t1, int, False, "int"), ("Thing() : 'list[int]'", t1, "list[int]", False, "list[...]"),
             ("[Thing()] : 'list[Thing]'", [t1], "list[Thing]", True, "list[...]"),
             ("[Other()] : 'list[Thing]'", [o1], "list[Thing]", False, "list[...]"),
             ("Documented() : int", d1, int, False, "class with a docstring"),
             ("Documented() : Thing", d1, thing, False, "class with a docstring")]
    return rows


def run_class_type_cases():
    out = []
    for label, v, t, conforms, shp in class_type_cases():
        for w in "rp":
            a = ac.proxy_of(v) if w == "p" and v is not None else v
            for name, want in (("assert_type", conforms), ("assert_not_type", not conforms)):
                out.append((label, w, name, ac.run_real(name, a, t), "silent" if want else "fires", shp))
    return out


# --------------------------------------------------------------------------------------
# primitive relations and equality_test, real (CPython / pedal) vs model

def prim_real(rel, a, b):
    def t(f):
        try:
            return f()
        except Exception:
            return "raised"
    if rel == "eq":
        return "1" if a == b else "0"
    if rel == "cmp":
        r = [t(lambda: a < b), t(lambda: a == b), t(lambda: a > b), t(lambda: a <= b), t(lambda: a >= b)]
        if "raised" in r:
            return "raised"
        lt, eq, gt, le, ge = map(bool, r)
        code = {(True, False, False, True, False): "lt", (False, True, False, True, True): "eq",
                (False, False, True, False, True): "gt", (False, False, False, False, False): "un"}
        return code.get((lt, eq, gt, le, ge), "incoherent")
    if rel == "in":
        r = t(lambda: a in b)
        return r if r == "raised" else ("true" if r else "false")
    if rel == "allin":
        r = t(lambda: all(x in b for x in a))
        return r if r == "raised" else ("true" if r else "false")
    if rel == "len":
        r = t(lambda: len(a))
        return str(r)
    if rel == "truthy":
        return "1" if a else "0"
    if rel == "isinstance":
        r = t(lambda: isinstance(a, b))
        return r if r == "raised" else ("true" if r else "false")
    if rel == "hashable":
        r = t(lambda: hash(a))
        return "0" if r == "raised" else "1"
    raise ValueError(rel)


def prim_stream(rng, tier, P, driver, res):
    plain = [i for i in range(P.n) if P.shape[i] != "error"]
    pairs = [(i, j) for i in plain for j in plain]
    if tier == "quick":
        pairs = rng.sample(pairs, 1500)
    enc = {i: " ".join(ac.enc_val(P.raw[i], [])) for i in plain}
    rels = ["eq", "cmp", "in", "allin", "len", "truthy", "isinstance", "hashable"]
    lines, meta = [], []
    done_unary = set()
    for i, j in pairs:
        for rel in rels:
            if rel in ("len", "truthy", "hashable"):
                if i in done_unary:
                    continue
                j2 = i
            else:
                j2 = j
            lines.append("p %s %s %s" % (rel, enc[i], enc[j2]))
            meta.append((rel, i, j2))
        done_unary.add(i)
    answers = driver.ask(lines)
    for (rel, i, j), line, ans in zip(meta, lines, answers):
        res.evaluations += 1
        res.count("prim:" + rel)
        real = prim_real(rel, P.raw[i], P.raw[j])
        if ans == "unmodelled":
            res.count("prim-unmodelled")
            continue
        if real != ans:
            res.disagreements.append({"case": {"primitive": rel, "a": P.specs[i], "b": P.specs[j]}, "real": real,
                                      "model": ans, "request": line})


def eqtest_stream(rng, tier, P, driver, res):
    from pedal.utilities.comparisons import equality_test
    plain = [i for i in range(P.n) if P.shape[i] != "error"]
    pairs = [(i, j) for i in plain for j in plain]
    if tier == "quick":
        pairs = rng.sample(pairs, 2500)
    enc = {i: " ".join(ac.enc_val(P.raw[i], [])) for i in plain}
    lines, meta = [], []
    for i, j in pairs:
        for exact in (False, True):
            for d in DELTAS:
                if tier == "quick" and rng.random() < 0.5:
                    continue
                dv = ac.DEFAULT_DELTA if d is None else d
                lines.append("e %d %s %s %s" % (exact, ac.enc_val(dv, [])[0], enc[i], enc[j]))
                meta.append((i, j, exact, dv))
    answers = driver.ask(lines)
    for (i, j, exact, dv), line, ans in zip(meta, lines, answers):
        res.evaluations += 1
        res.count("equality_test")
        try:
            real = "true" if equality_test(P.raw[i], P.raw[j], exact, dv) else "false"
        except Exception:
            real = "raised"
        if ans == "unmodelled":
            res.count("equality_test-unmodelled")
            continue
        if real == "true":
            res.nontrivial.add("eq:%d:%d:%d:%s" % (i, j, exact, dv))
        if real != ans:
            res.disagreements.append({"case": {"equality_test": [P.specs[i], P.specs[j]], "exact": exact, "delta": dv},
                                      "real": real, "model": ans, "request": line})


# --------------------------------------------------------------------------------------
# correspondence

def all_cases(rng, tier, P):
    _lookup_budget[0] = 700 if tier == "quick" else 2500
    return itertools.chain(corpus_cases(P), gen_history_corpus(tier), gen_unary(rng, tier, P), gen_output(rng, tier, P),
                           gen_history_random(rng, tier), gen_value_history(rng, tier, P),
                           gen_equal_options(rng, tier, P), gen_spelling(rng, tier, P),
                           gen_after_failure(rng, tier, P), gen_binary(rng, tier, P))


def _v(x):
    return ac.spec_of(x)


def builtin_corpus():
    """The cells behind every defect found so far (DESIGN section 4 C07 and the fix: commits), in all wrappings
    and both orders — always run first, in every tier."""
    near, far = ag.f20(ag.ONE + ag.IN), ag.f20(ag.ONE + ag.OUT)
    pairs = [
        ("assert_less", 1, "a"), ("assert_less", {1, 2}, {3}), ("assert_less_equal", {1, 2}, {3}),
        ("assert_greater", {1, 2}, {3}), ("assert_greater_equal", {1, 2}, {3}), ("assert_less", {1}, {1, 2}),
        ("assert_less", 1, 2), ("assert_less", 2, 1), ("assert_less", [1, "a"], [1, 2]),
        ("assert_in", 1, None), ("assert_not_in", 1, None), ("assert_in", "a", "abc"), ("assert_in", "z", "abc"),
        ("assert_not_in", "a", "abc"), ("assert_not_in", "z", "abc"), ("assert_in", [1], {1}), ("assert_in", {1}, {1}),
        ("assert_contains_subset", ["a", 1], "abc"), ("assert_contains_subset", ["z", 1], "abc"),
        ("assert_not_contains_subset", ["z", 1], "abc"), ("assert_contains_subset", 5, [5]),
        ("assert_length_equal", 5, 1), ("assert_length_equal", [1], 1), ("assert_length_equal", [1], 1.0),
        ("assert_length_less", [1], "a"), ("assert_length_greater_equal", [1, 2], 2),
        ("assert_equal", near, 1), ("assert_equal", 1, near), ("assert_equal", far, 1), ("assert_equal", 1, far),
        ("assert_not_equal", near, 1), ("assert_not_equal", 1, near), ("assert_equal", near, True),
        ("assert_equal", [1, [near]], [1, [1]]), ("assert_equal", {"a": near}, {"a": 1}),
        ("assert_equal", {1.0, ag.f20(ag.ONE + 1900)}, {ag.f20(ag.ONE + 950), 7.0}),
        ("assert_equal", {"a", "A"}, {"a", "c"}), ("assert_not_equal", {"a", "A"}, {"a", "c"}),
        ("assert_equal", {"A": 1}, {"a": 1}), ("assert_not_equal", {"A": 1}, {"a": 1}),
        ("assert_not_equal", {ag.f20(ag.ONE + 500): "x"}, {1: "x"}),
        ("assert_equal", "Ab.", "ab"), ("assert_equal", "a.b", "ab"), ("assert_equal", "a.b", "a b"),
        ("assert_equal", "a\nb", "b\na"), ("assert_equal", "a\rb", "a b"), ("assert_equal", "a\x0cb", "a b"),
        ("assert_equal", "a b ", "a b"), ("assert_equal", "", " "), ("assert_equal", None, ""),
        ("assert_equal", 0, False), ("assert_equal", [], ()), ("assert_equal", 0, None),
        ("assert_is", None, None), ("assert_is_not", None, None), ("assert_is", [], []), ("assert_is", 0, False),
        ("assert_is_instance", 1.5, int), ("assert_is_instance", True, float), ("assert_is_instance", "a", (int, str)),
        ("assert_not_is_instance", "a", int), ("assert_is_instance", 1, 1),
        ("assert_regex", "a+", "caat"), ("assert_regex", "(", "caat"), ("assert_not_regex", "z", "caat"),
        ("assert_regex", "1", 1),
    ]
    # every ordering / length assertion on a smaller, an equal and a larger operand (tells each from its neighbours)
    for name in ac.ORDER:
        pairs += [(name, 1, 1), (name, 2, 1), (name, 1, 2), (name, "a", "b"), (name, "b", "b"), (name, {1}, {1}),
                  (name, {1, 2}, {1}), (name, 1.0, 1), (name, [1], [1, 2])]
    for name in ac.LENGTH:
        pairs += [(name, [1], 0), (name, [1], 1), (name, [1], 2), (name, "", 0), (name, {1: 2}, 1)]
    # one approximately-but-not-exactly equal pair per branch of equality_test, and its near miss
    for name in ("assert_equal", "assert_not_equal"):
        pairs += [(name, {"A"}, {"a"}), (name, {near, 5.0}, {1, 5.0}), (name, {far, 5.0}, {1, 5.0}),
                  (name, [{"A"}], [{"a"}]), (name, ("Ab.", near), ("ab", 1)), (name, ("Ab.", far), ("ab", 1)),
                  (name, {"a": ["Ab."]}, {"a": ["ab"]}), (name, {"a": {"b": near}}, {"a": {"b": 1}}),
                  (name, {"a": {"b": far}}, {"a": {"b": 1}}), (name, [near], (1,)), (name, True, 1), (name, 1, 1.0),
                  (name, "1", 1), (name, [1, 2], [1, 2, 3]), (name, {1: "x"}, {1: "X."}), (name, {1: "x", 2: "y"}, {1: "x"})]
    out = []
    for name, l, r in pairs:
        for w in WRAPS:
            if w[1] == "p" and isinstance(r, type):
                pass
            out.append({"a": name, "wrap": w, "desc": {"a": name, "wrap": w, "l": _v(l), "r": _v(r)}})
    # exactly on the tolerance (`abs(a - b) < delta` is strict) and exact_strings, with explicit parameters
    for fam in (("assert_equal", "assert_not_equal"), ("assert_almost_equal", "assert_not_almost_equal")):
        for name in fam:
            for l, r, extra in [(1.0, 0.5, {"delta": 0.5}), (0.5, 1.0, {"delta": 0.5}), (1, 1.125, {"delta": 0.125}),
                                (1.125, 1, {"delta": 0.125}), (1.0, 1.125, {"delta": 0.125}), (True, 1.5, {"delta": 0.5}),
                                ([1, 1.5], [1, 2], {"delta": 0.5}), ({"a": 1.5}, {"a": 2}, {"delta": 0.5}),
                                ({1.5}, {2.0}, {"delta": 0.5}), (1.0, 1.25, {"delta": 0.5}), (3, 3.0, {"delta": 0.125}),
                                ("Ab.", "ab", {"exact": True}), ("ab", "ab", {"exact": True}),
                                (["Ab."], ["ab"], {"exact": True}), ({"k": "Ab."}, {"k": "ab"}, {"exact": True}),
                                ("a b", "a  b", {"exact": True}), ("a\nb", "b\na", {"exact": True})]:
                for w in ("rr", "pp"):
                    d = {"a": name, "wrap": w, "l": _v(l), "r": _v(r)}
                    d.update(extra)
                    out.append({"a": name, "wrap": w, "desc": d})
    unary = [None, 0, 0.0, "", [], (), {}, set(), False, True, 1, "a", [0], " "]
    for name in ac.UNARY:
        for v in unary:
            for w in "rp":
                out.append({"a": name, "wrap": w, "desc": {"a": name, "wrap": w, "l": _v(v)}})
    for how in ("boom", "mkexc", "raw"):
        for name in ac.BINARY:
            for side in "lr":
                d = {"a": name, "wrap": "rr", "l": {"t": "err", "how": how}, "r": _v(1)}
                if side == "r":
                    d["l"], d["r"] = d["r"], d["l"]
                out.append({"a": name, "wrap": "rr", "desc": d})
        for name in ac.UNARY:
            out.append({"a": name, "wrap": "r", "desc": {"a": name, "wrap": "r", "l": {"t": "err", "how": how}}})
    return out


def corpus_cases(P):
    """built-in corpus + corpus/C07/*.json (replay descriptions of past failures)"""
    out = builtin_corpus()
    d = os.path.join(VERIF, "corpus", "C07")
    if os.path.isdir(d):
        for fn in sorted(os.listdir(d)):
            if fn.endswith(".json"):
                with open(os.path.join(d, fn)) as fh:
                    desc = json.load(fh)
                if "a" in desc and "wrap" in desc:
                    out.append({"a": desc["a"], "wrap": desc["wrap"], "desc": desc})
    return out


def correspond(rng, tier, driver):
    P = pool()
    res = CorrResult()
    res.rule = ("every modelled assert_* x pool of %d values (None, bools, ints, dyadic floats straddling the 0.001 "
                "tolerance, strings differing by case/punctuation/whitespace/line order, lists, tuples, sets, dicts, nested, "
                "builtin classes and class tuples, plain objects, three kinds of error operand) x raw/proxy wrapping (real "
                "SandboxResult proxies of the very same objects) x both orders; output assertions over executions that print; "
                "HISTORIES: every well-formed sequence of <= 3 (thorough 4) steps over open / close / clear_output / two calls "
                "printing different lines / a silent call / a failing call, and random longer ones over call, evaluate, "
                "run, lookups, calls that print and fail, output without final newline, nested blocks - every execution "
                "result and the Sandbox as operand of every output assertion, operands of every other family made "
                "before / between / after other executions, unit_test after a history, operands made after clear_sandbox; "
                "VALUE CLASSES: every class named in the tables / isinstance tests of pedal.utilities.comparisons (read from the "
                "tree) and a dozen more lazy classes x relation of the contents x this side / that side / both / the same "
                "object x top level / nested x wrapping x both orders, built afresh from a recipe for every call, the model "
                "asked on the materialised operands; "
                "real = bool(assertion) and membership in report.feedback, model = Pedal.Assertions.outcome on the generated "
                "CondExpr; plus CPython's ==,<,in,len,bool,isinstance,hash and pedal's equality_test vs the model relations; "
                "plus unit_test tables; non-trivial = the assertion is silent (the relation holds) or equality_test is True"
                % P.n)
    results = []
    lines, metas = [], []
    CHUNK = 150000

    def flush():
        if not lines:
            return
        answers = driver.ask(lines)
        for (case, real, want, name, wrap), line, ans in zip(metas, lines, answers):
            res.evaluations += 1
            parts = ans.split(" ")
            model = parts[0]
            spec = parts[1][5:] if len(parts) > 1 and parts[1].startswith("spec=") else "?"
            res.count("real:" + real.split(":")[0])
            if model == "unmodelled":
                res.count("model-unmodelled")
                continue
            if real == "silent":
                res.nontrivial.add((name, case.get("li"), case.get("ri"), case.get("exec"), case.get("text"),
                                    json.dumps(case["desc"], sort_keys=True) if "desc" in case else None,
                                    repr(case.get("hist") or case.get("vhist")), case.get("on")))
            if model != real:
                res.disagreements.append({"case": describe(case, P), "real": real, "model": model, "request": line})
            elif spec in ("silent", "fires") and want != "either" and spec != want:
                res.disagreements.append({"case": describe(case, P), "real": real, "model": "lean spec says " + spec,
                                          "oracle": want, "request": line, "kind": "spec-vs-oracle"})
        del lines[:]
        del metas[:]

    for case in all_cases(rng, tier, P):
        name, a, b, kw, okw = materialise(case, P)
        real = ac.run_real(name, a, b, **kw)
        want = want_of(name, a, b, kw, okw)
        results.append((case, real, want))
        res.count("assertion:" + name)
        label = case_label(case)
        if label:
            for part in label.split(" & "):
                res.count("history:" + part.split(":")[-1])
        line = ag.request_line(name, a, b, **kw, **okw)
        if line is None:
            res.count("unencodable")
            continue
        lines.append(line)
        metas.append((case, real, want, name, case["wrap"]))
        if len(lines) >= CHUNK:
            flush()
    flush()
    ag.end_history()
    res.samples = [describe(c, P) for c, _, _ in results[-3:]]
    # unit_test
    units = []
    ulines, umeta = [], []
    for case in gen_unit(rng, tier, P):
        real, seen = run_unit(case, P)
        units.append((case, real))
        if "error" in real or len(seen) != len(case["rows"]):
            res.disagreements.append({"case": {"unit_test": case}, "real": real, "model": "-"})
            continue
        ulines.append(unit_line(case, P, seen))
        umeta.append((case, real))
    for (case, real), line, ans in zip(umeta, ulines, driver.ask(ulines)):
        res.evaluations += 1
        res.count("unit_test")
        if ans == "unmodelled":
            res.count("unit_test-unmodelled")
            continue
        got = "ok passed=%d succ=%s total=%s" % (real["passed"], real["succ"], real["total"])
        if real["passed"] and case["rows"]:
            res.nontrivial.add(("unit", json.dumps(case)))
        if got != ans or real["reported"] == real["passed"]:
            res.disagreements.append({"case": {"unit_test": case}, "real": real, "model": ans, "request": line})
    prim_stream(rng, tier, P, driver, res)
    eqtest_stream(rng, tier, P, driver, res)
    res.results = results
    res.units = units
    if LAZY:
        res.lazy = lazy_stream(rng, tier, driver, res)
        ag.end_history()
        ac.renew()              # the stream made thousands of executions on the shared sandbox
    return res


# --------------------------------------------------------------------------------------
# operand value classes beyond the plain containers (assertions_lazy): range / map / filter / zip / enumerate / reversed /
# dict views / generators / iterators / deque / frozenset / bytes / complex, Fraction, Decimal, dataclasses - on one side, on
# both, nested.  VERIF_C07_LAZY=0 switches the stream off.  Four families of inputs break the property on the unchanged
# tree (open findings; a failure on such an input has the signature {"family": <name>}, see al.family_of): same-iterator,
# unhashable-views, decimal-proxy, hashed-iterators.  They are generated by default; VERIF_C07_LAZY_EXTRA=none (or a
# comma-separated subset) leaves them out.
LAZY = os.environ.get("VERIF_C07_LAZY", "1") == "1"
# unit_test / assert_group while other feedback groups of the report are alive (assertions_groups): enclosing assert_groups,
# the group of the current source section, a Report of its own, several groups in a row.  VERIF_C07_GROUPS=0 switches it off.
GROUPS = os.environ.get("VERIF_C07_GROUPS", "1") == "1"
_gate = os.environ.get("VERIF_C07_LAZY_EXTRA", "all")
LAZY_EXTRA = frozenset(al.GATES if _gate in ("1", "all") else [g for g in _gate.split(",") if g in al.GATES])


def concrete_operand(value, proxied):
    toks = ["1" if proxied else "0", str(ac.oid(value)), str(ac.oid(object())) if proxied else "0"]
    ac.enc_val(value, toks)
    return toks


def concrete_line(name, ml, mr, wrap, exact, delta):
    """request for the model on operands given as the concrete values equality_test works on after materialising"""
    d = ac.code_delta(name) if delta is None else delta
    try:
        return " ".join(["a", name, "1" if exact else "0", "-", "-", "r"] + ac.enc_val(d, []) +
                        concrete_operand(ml, wrap[0] == "p") + concrete_operand(mr, wrap[1] == "p"))
    except ac.Unencodable:
        return None


def lazy_desc(row):
    return {"how": row["how"], "assertions": list(row["names"]), "l": row["l"], "r": row["r"], "wrap": row["wrap"],
            "kw": row["kw"], "left": al.describe(row["l"]), "right": al.describe(row["r"])}


def lazy_stream(rng, tier, driver=None, res=None):
    """runs the value-class cases once: real outcomes + oracle verdicts (search) and, with a driver, the model's answers
    on the materialised operands (correspondence).  -> dict(eq=rows, other=rows, units=[(case, real)], info=...)"""
    counts = collections.Counter()
    in_table, outside, missing, untested = al.classify_kinds()
    eq_rows, requests = al.run_equality(rng, tier, LAZY_EXTRA, counts)
    other_rows = al.run_other(rng, tier, LAZY_EXTRA, counts)
    units = [(c, al.run_unit(c)) for c in al.unit_cases(rng, tier, LAZY_EXTRA)]
    info = {"classes named in the tree's tables": {k: in_table[k] for k in sorted(in_table)},
            "classes generated besides": outside, "table classes without a recipe": missing,
            "isinstance-tested classes without a recipe": untested,
            "equality cases": counts["lazy:definite"] + counts["lazy:oracle-abstains"],
            "oracle definite": counts["lazy:definite"], "oracle abstains (pairing / order / wrapping only)":
            counts["lazy:oracle-abstains"], "assertion calls": 2 * len(eq_rows) + len(other_rows),
            "unit_test tables": len(units), "input families of the open findings that are generated (VERIF_C07_LAZY_EXTRA)": sorted(LAZY_EXTRA),
            "left out": sorted(set(al.GATES) - LAZY_EXTRA)}
    out = {"eq": eq_rows, "other": other_rows, "units": units, "info": info}
    if res is not None:
        for k, v in counts.items():
            res.count(k, v)
    if driver is None or res is None:
        return out
    lines, meta = [], []
    for row, ml, mr in requests:
        for k, name in enumerate(row["names"]):
            line = concrete_line(name, ml, mr, row["wrap"], row["kw"].get("exact", False), row["kw"].get("delta"))
            if line is None:
                res.count("lazy:unencodable")
                continue
            lines.append(line)
            meta.append((row, k))
    for (row, k), line, ans in zip(meta, lines, driver.ask(lines)):
        res.evaluations += 1
        res.count("assertion:" + row["names"][k])
        res.count("lazy:model-asked")
        model = ans.split(" ")[0]
        if model == "unmodelled":
            res.count("model-unmodelled")
            continue
        real = row["real"][k]
        if real == "silent":
            res.nontrivial.add(("lazy", row["names"][k], json.dumps([row["l"], row["r"]], sort_keys=True), row["wrap"]))
        if model != real:
            res.disagreements.append({"case": dict(lazy_desc(row), assertion=row["names"][k]), "real": real, "model": model,
                                      "request": line, "note": "model asked on the operands as equality_test materialises them"})
    direct = al.direct_equality(rng, tier, LAZY_EXTRA)
    lines = []
    for how, x, y, exact, dv, real, (mx, my) in direct:
        lines.append("e %d %s %s %s" % (exact, ac.enc_val(dv, [])[0], " ".join(ac.enc_val(mx, [])), " ".join(ac.enc_val(my, []))))
    for (how, x, y, exact, dv, real, _), line, ans in zip(direct, lines, driver.ask(lines)):
        res.evaluations += 1
        res.count("equality_test:lazy")
        if ans == "unmodelled":
            res.count("equality_test-unmodelled")
            continue
        if real == "true":
            res.nontrivial.add(("lazy-eq", json.dumps([x, y], sort_keys=True), exact))
        if real != ans:
            res.disagreements.append({"case": {"equality_test": [al.describe(x), al.describe(y)], "exact": exact, "delta": dv,
                                               "how": how, "l": x, "r": y}, "real": real, "model": ans, "request": line})
    return out


def lazy_failures(lazy, best, info):
    """failing inputs among the value-class rows (see assertions_lazy for the oracle)"""
    info["value_classes"] = lazy["info"]

    families = info["value_classes"].setdefault("failures on inputs of a known family", {})

    def offer(sig, size, what, replay, family=None):
        if family:
            # an input of one of the open findings' families: the family is the whole signature (shown once)
            families[family] = families.get(family, 0) + 1
            sig = {"family": family}
        key = json.dumps(sig, sort_keys=True)
        if key not in best or size < best[key][0]:
            best[key] = (size, Failure(sig, what, replay))

    def opts(kw):
        return "".join(", %s=%r" % (k, kw[k]) for k in ("exact", "delta") if kw.get(k) not in (None, False))

    groups = {}
    for row in lazy["eq"]:
        info["evaluations"] += 2
        if row["want"] == al.UNEVALUABLE:
            info["value_classes"]["python == raises (nothing demanded)"] = \
                info["value_classes"].get("python == raises (nothing demanded)", 0) + 1
            continue
        groups.setdefault(row["case"], []).append(row)
        pos, neg = row["real"]
        l, r, wrap = row["l"], row["r"], row["wrap"]
        d = lazy_desc(row)
        size = len(json.dumps([l, r]))
        text = "(%s, %s%s) [%s]" % (al.describe(l), al.describe(r), opts(row["kw"]), wrap)
        if row["want"] is not None:
            k = al.kind_of_failure(pos, neg, row["want"])
            if k:
                name = row["names"][1 if k[0] else 0]
                sig = {"assertion": name, "kind": k[1], "left": al.label(l), "right": al.label(r), "wrap": wrap}
                offer(sig, size, "%s%s is %s but the operands are %s under every reading of == (Python's own, and the lazy "
                      "objects standing for their elements)" % (name, text, row["real"][1 if k[0] else 0],
                                                                "equal" if row["want"] else "not equal"),
                      {"lazy_case": d, "real": list(row["real"]), "expected": "equal" if row["want"] else "not equal"},
                      al.family_of(l, r, wrap))
        elif sorted(row["real"]) != ["fires", "silent"]:
            kind = ("both-fail" if row["real"] == ("fires", "fires") else
                    "both-pass" if row["real"] == ("silent", "silent") else "escapes")
            sig = {"assertion": row["names"][0], "kind": kind + "-with-negation", "left": al.label(l), "right": al.label(r),
                   "wrap": wrap}
            if al.keys_ambiguous(l, r, row["kw"].get("exact", False), row["kw"].get("delta")):
                # the open finding of the main stream (same signature): dict keys matched approximately, looked up exactly
                sig = {"assertion": row["names"][0].replace("almost_", ""), "kind": kind + "-with-negation",
                       "operands": "dicts whose key sets are equal only approximately"}
            offer(sig, size, "%s%s is %s and %s is %s: they must not both pass or both fail" % (
                row["names"][0], text, pos, row["names"][1], neg),
                {"lazy_case": d, "real": list(row["real"]), "expected": "exactly one of the two silent"},
                al.family_of(l, r, wrap))
    mirror = {"rr": "rr", "pp": "pp", "pr": "rp", "rp": "pr"}
    for rows in groups.values():
        by = {(r["order"], r["wrap"]): r for r in rows}
        for (order, wrap), row in by.items():
            other = by.get(("rl", mirror[wrap])) if order == "lr" else None
            if other is not None and other["real"] != row["real"]:
                sig = {"assertion": row["names"][0], "kind": "order-dependent", "left": al.label(row["l"]),
                       "right": al.label(row["r"]), "wrap": wrap}
                offer(sig, len(json.dumps([row["l"], row["r"]])),
                      "%s / %s on (%s, %s) [%s] are %s, with the operands swapped %s: equality must not depend on the "
                      "argument order" % (row["names"][0], row["names"][1], al.describe(row["l"]), al.describe(row["r"]), wrap,
                                          list(row["real"]), list(other["real"])),
                      {"lazy_case": lazy_desc(row), "real": list(row["real"]), "swapped": list(other["real"]),
                       "expected": "the same outcomes in both orders"}, al.family_of(row["l"], row["r"], wrap))
            base = by.get((order, "rr"))
            if base is not None and base["real"] != row["real"]:
                sig = {"assertion": row["names"][0], "kind": "wrapping-dependent", "left": al.label(row["l"]),
                       "right": al.label(row["r"]), "wrap": wrap}
                offer(sig, len(json.dumps([row["l"], row["r"]])),
                      "%s / %s on (%s, %s) are %s with raw operands and %s with wrapping %s: the outcome must not depend on "
                      "whether an operand is proxied" % (row["names"][0], row["names"][1], al.describe(row["l"]),
                                                         al.describe(row["r"]), list(base["real"]), list(row["real"]), wrap),
                      {"lazy_case": lazy_desc(row), "real": list(row["real"]), "raw": list(base["real"]),
                       "expected": "the same outcomes in every wrapping"}, al.family_of(row["l"], row["r"], wrap))
    for row in lazy["other"]:
        info["evaluations"] += 1
        if row["real"] != row["want"]:
            real = row["real"]
            kind = ("escapes" if real.startswith("escapes") else "inconsistent" if real == "inconsistent" else
                    "false-pass" if real == "silent" else "false-fail")
            sig = {"assertion": row["a"], "kind": kind, "left": al.label(row["l"]), "wrap": row["wrap"]}
            if row["r"] is not None:
                sig["right"] = al.label(row["r"])
            offer(sig, len(json.dumps([row["l"], row["r"]])),
                  "%s(%s%s) [%s] is %s but the Python relation %s" % (
                      row["a"], al.describe(row["l"]), "" if row["r"] is None else ", " + al.describe(row["r"]), row["wrap"],
                      real, "holds" if row["want"] == "silent" else "does not hold / cannot be evaluated"),
                  {"lazy_other": {"a": row["a"], "l": row["l"], "r": row["r"], "wrap": row["wrap"]}, "real": real,
                   "expected": row["want"]})
    for case, real in lazy["units"]:
        info["evaluations"] += 1
        want = al.oracle_unit(case)
        if want is None:
            info["unit_oracle_abstained"] = info.get("unit_oracle_abstained", 0) + 1
            continue
        if real != want:
            sig = {"unit_test": "escapes" if "error" in real else
                   ("verdict" if real.get("passed") != want["passed"] else
                    ("count" if (real.get("succ"), real.get("total")) != (want["succ"], want["total"]) else "report")),
                   "operands": "lazy"}
            offer(sig, len(json.dumps(case)), "unit_test on %d cases with lazy values %s returned %s, expected %s" % (
                len(case["rows"]), [(al.describe(a), al.describe(b)) for _, a, b in case["rows"]], real, want),
                {"lazy_unit": case, "real": real, "expected": want},
                next((f for f in (al.family_of(a, b, "pr") for _, a, b in case["rows"]) if f), None))


# --------------------------------------------------------------------------------------
# search: real code vs the oracle written from the property text

def search(rng, tier, broken, corr):
    P = pool()
    info = {"rule": "real assertion outcome vs the plain Python relation on the raw operands (unevaluable or error operand "
                    "=> must fail; relation holds => must be silent; for an operand made in a history the text it stands "
                    "for is the text its own execution wrote, for the Sandbox everything since the last clear_output - both "
                    "computed from the steps), for every correspondence case, the unit_test tables "
                    "(success iff all cases pass, true pass count), a table of assert_type / assert_not_type cases, and the "
                    "value-class stream (lazy / view / iterator-like operands and the other classes equality_test has a branch "
                    "for: a verdict is demanded where Python's own == and 'a lazy object stands for its elements' agree, "
                    "otherwise pairing with the negation, order independence and wrapping independence; every other "
                    "assertion family against the plain Python relation on fresh objects; unit_test with lazy values), and the "
                    "group-context stream (unit_test / assert_group / single assertions while enclosing assert_groups, the "
                    "group of the current source section or both are open, on MAIN_REPORT or a Report of its own: verdict "
                    "== all of its own cases pass, counts == true counts of its own cases)",
            "evaluations": 0, "distinct_nontrivial": 0, "samples": []}
    best = {}
    results = getattr(corr, "results", None)
    if results is None:
        results = []
        for case in all_cases(rng, tier, P):
            name, a, b, kw, okw = materialise(case, P)
            real = ac.run_real(name, a, b, **kw)
            want = want_of(name, a, b, kw, okw)
            results.append((case, real, want))
    nt = set()
    for case, real, want in results:
        info["evaluations"] += 1
        if want == "silent":
            nt.add(json.dumps(case, sort_keys=True))
        if want == "either":
            # the property leaves the answer open (dicts whose keys are equal only approximately); what it does
            # demand is that the assertion and its negated counterpart neither both pass nor both fail
            info["oracle_abstained"] = info.get("oracle_abstained", 0) + 1
            name, a, b, kw, okw = materialise(case, P)
            pair = pair_outcomes(name, a, b, kw)
            if sorted(pair) != ["fires", "silent"]:
                pos = (name if "not" not in name else COUNTERPART[name]).replace("almost_", "")   # the alias class
                kind = ("both-fail" if pair == ("fires", "fires") else
                        "both-pass" if pair == ("silent", "silent") else "escapes")
                sig = {"assertion": pos, "kind": kind + "-with-negation",
                       "operands": "dicts whose key sets are equal only approximately"}
                d = describe(case, P)
                key = json.dumps(sig, sort_keys=True)
                size = len(json.dumps(d))
                if key not in best or size < best[key][0]:
                    what = "%s(%s, %s) [%s] is %s and %s is %s: they must not both pass or both fail" % (
                        name, _short(a), _short(b), case["wrap"], pair[0], COUNTERPART[name], pair[1])
                    best[key] = (size, Failure(sig, what, {"case": d, "real": list(pair),
                                                           "expected": "exactly one of the two silent"}))
            continue
        if real != want:
            name, a, b, kw, okw = materialise(case, P)
            sig = sig_of(name, real, want, a, b, case["wrap"], case_label(case))
            d = describe(case, P)
            key = json.dumps(sig, sort_keys=True)
            size = len(json.dumps(d))
            if key not in best or size < best[key][0]:
                opts = "".join(", %s=%r" % (k, kw[k]) for k in ("exact", "delta", "spelling")
                               if kw.get(k) not in (None, False))
                what = "%s(%s%s%s) [%s] is %s but the relation %s" % (
                    name, _short(a), "" if name in ac.UNARY else ", " + _short(b), opts, case["wrap"], real,
                    "holds" if want == "silent" else "does not hold / cannot be evaluated")
                if "history" in d:
                    what += "; operands made in the history %s" % json.dumps(d["history"])
                    if "on" in d:
                        what += (", left operand = %s, whose execution printed %r%s" % (
                            "the Sandbox" if d["on"] == "sandbox" else "result of step %d" % d["on"],
                            okw.get("printed"), " and failed" if okw.get("failed") else ""))
                best[key] = (size, Failure(sig, what, {"case": d, "real": real, "expected": want}))
    # unit_test
    units = getattr(corr, "units", None)
    if units is None:
        units = [(c, run_unit(c, P)[0]) for c in gen_unit(rng, tier, P)]
    for case, real in units:
        info["evaluations"] += 1
        want = oracle_unit(case, P)
        if want is None:
            info["unit_oracle_abstained"] = info.get("unit_oracle_abstained", 0) + 1
            continue
        if real != want:
            sig = {"unit_test": "escapes" if "error" in real else
                   ("verdict" if real.get("passed") != want["passed"] else
                    ("count" if (real.get("succ"), real.get("total")) != (want["succ"], want["total"]) else "report"))}
            key = json.dumps(sig, sort_keys=True)
            size = len(json.dumps(case))
            if key not in best or size < best[key][0]:
                rows = [[j, None if s is None else P.specs[s], P.specs[e]] for j, s, e in case["rows"]]
                best[key] = (size, Failure(sig, "unit_test on %d cases%s returned %s, expected %s" % (
                    len(case["rows"]), " written inside %d enclosing assert_group(s)" % case["ctx"] if case.get("ctx")
                    else "", real, want), {"unit_test_rows": rows, "partial_credit": bool(case.get("partial")),
                                                     "pre": case.get("pre"), "enclosing_groups": case.get("ctx", 0),
                                                     "real": real, "expected": want}))
    # assert_type
    for vi, w, name, real, want in run_type_cases():
        info["evaluations"] += 1
        if real != want:
            v, t, _ = TYPE_CASES[vi]
            sig = {"assertion": name, "kind": ("escapes" if real.startswith("escapes") else
                                               ("false-pass" if real == "silent" else "false-fail")),
                   "type": type_shape(t)}
            key = json.dumps(sig, sort_keys=True)
            if key not in best:
                best[key] = (5000, Failure(sig, "%s(%r, %r) [%s] is %s, expected %s" % (name, v, t, w, real, want),
                                        {"type_case": vi, "wrap": w, "assertion": name, "real": real, "expected": want}))
    for label, w, name, real, want, shp in run_class_type_cases():
        info["evaluations"] += 1
        if real != want:
            sig = {"assertion": name, "kind": ("escapes" if real.startswith("escapes") else
                                               ("false-pass" if real == "silent" else "false-fail")), "type": shp}
            key = json.dumps(sig, sort_keys=True)
            if key not in best:
                best[key] = (5000, Failure(sig, "%s(%s) [%s] is %s, expected %s" % (name, label, w, real, want),
                                           {"class_type_case": label, "wrap": w, "assertion": name, "real": real,
                                            "expected": want}))
    # operand value classes beyond the plain containers
    if LAZY:
        lazy = getattr(corr, "lazy", None)
        if lazy is None:
            lazy = lazy_stream(rng, tier)
            ag.end_history()
            ac.renew()
        lazy_failures(lazy, best, info)
    else:
        info["value_classes"] = "not visited (switched off by VERIF_C07_LAZY=0)"
    # unit_test / assert_group / single assertions while other groups of the report are alive (own reports and programs)
    if GROUPS:
        group_failures(rng, tier, best, info)
        ag.end_history()
        ac.renew()
    else:
        info["group_contexts"] = "not visited (switched off by VERIF_C07_GROUPS=0)"
    # clear_sandbox() histories (last: they invalidate every proxy made so far)
    if HIST_CLEAR_SANDBOX:
        for d, real, want in clear_sandbox_stream():
            info["evaluations"] += 1
            info["after_clear_sandbox"] = info.get("after_clear_sandbox", 0) + 1
            if want != "either" and real != want:
                kind = ("escapes" if real.startswith("escapes") else "inconsistent" if real == "inconsistent" else
                        "false-pass" if real == "silent" else "false-fail")
                sig = {"assertion": "any", "kind": kind, "history": "after clear_sandbox"}
                key = json.dumps(sig, sort_keys=True)
                size = len(json.dumps(d))
                if key not in best or size < best[key][0]:
                    best[key] = (size, Failure(sig, "after clear_sandbox(); run(): %s on operands made in the history %s "
                                               "is %s, expected %s" % (d["a"], json.dumps(d["history"]), real, want),
                                               {"case": d, "real": real, "expected": want}))
    else:
        info["after_clear_sandbox"] = "not visited (switched off by VERIF_C07_CLEAR_SANDBOX=0)"
    info["distinct_nontrivial"] = len(nt)
    info["samples"] = [json.loads(x) for x in list(nt)[:2]]
    failures = [f for _, f in sorted(best.values(), key=lambda x: x[0])]
    # one failure per root cause first: signatures that differ only in the wrapping come after the others
    seen, first, rest = set(), [], []
    for f in failures:
        k = json.dumps({x: y for x, y in f.signature.items() if x != "wrap"}, sort_keys=True)
        (rest if k in seen else first).append(f)
        seen.add(k)
    # listed open findings are shown (once each) without using up the places of other failures
    known = {canon(k["signature"]) for k in load_known_findings("C07")}
    ordered = first + rest
    return ([f for f in ordered if canon(f.signature) not in known][:12] +
            [f for f in ordered if canon(f.signature) in known]), info


def group_failures(rng, tier, best, info):
    """the group-context stream: real unit_test / assert_group / assertions inside other open groups vs the oracle of
    assertions_groups (verdict == all cases pass, counts == true counts of the group's own cases)"""
    ag.end_history()
    seen = collections.Counter()
    worst = {}
    scs = agr.scenarios(rng, tier)
    for sc in scs:
        info["evaluations"] += 1
        real = agr.run(sc)
        want = agr.expect(sc)
        seen["section" if sc.get("section") is not None else "no section"] += 1
        seen["report=" + str(sc.get("report"))] += 1
        seen["unit_tests"] += sum(1 for w in want if w["what"] == "u")
        seen["unit_tests with a failing case"] += sum(1 for w in want if w["what"] == "u" and not w["passed"])
        seen["assert_groups"] += sum(1 for w in want if w["what"] == "g")
        seen["outer verdict left open (only an inner group fails)"] += sum(
            1 for w in want if w["what"] == "g" and w["failed"] is None)
        diff = agr.compare(real, want)
        if diff is None:
            continue
        kind, index, field = diff
        what, where = agr.context_of(sc, index)
        sig = {"group_context": where, "of": what, "kind": kind}
        key = json.dumps(sig, sort_keys=True)
        size = len(json.dumps(sc))
        if key not in worst or size < worst[key][0]:
            worst[key] = (size, sig, sc)
    info["group_contexts"] = dict(seen, scenarios=len(scs))
    for key, (size, sig, sc) in worst.items():
        def still(cand, sig=sig):
            d = agr.compare(agr.run(cand), agr.expect(cand))
            if d is None:
                return False
            what, where = agr.context_of(cand, d[1])
            return {"group_context": where, "of": what, "kind": d[0]} == sig
        sc = agr.shrink(sc, still)
        real, want = agr.run(sc), agr.expect(sc)
        d = agr.compare(real, want)
        at = ("observation %d, field %r: real %r, expected %r" % (d[1], d[2], real[d[1]].get(d[2]), want[d[1]].get(d[2]))
              if d and d[1] is not None and d[2] else str(real)[:200])
        size = len(json.dumps(sc))
        if key not in best or size < best[key][0]:
            best[key] = (size, Failure(sig, "grading script [ %s ]: the %s %s (%s): %s" % (
                " ; ".join(agr.render(sc)), sig["of"], {"verdict": "reports success / failure wrongly",
                                                          "count": "reports a wrong pass count",
                                                          "report": "is listed / not listed in the report wrongly",
                                                          "escapes": "raises", "shape": "is missing"}[sig["kind"]],
                "inside " + sig["group_context"] if sig["group_context"] != "top" else "no other group open", at),
                {"group_scenario": sc, "real": real, "expected": want}))


def clear_sandbox_stream():
    """clear_sandbox(); run(); then assertions on operands made afterwards (value and output assertions, with and
    without earlier executions / an open block).  Runs on a sandbox of its own (ac.renew() before and after): proxies
    made from a sandbox before it was cleared refer to executions it has forgotten.
    -> [(description, real, want)]"""
    from pedal.sandbox.commands import clear_sandbox
    rows = []
    ag.end_history()
    ac.renew()
    _in_clear_stream[0] = True
    values = [("assert_equal", 1, 1), ("assert_equal", 1, 2), ("assert_true", 1, None), ("assert_true", 0, None),
              ("assert_in", "a", "abc"), ("assert_less", 2, 1), ("assert_is_none", None, None),
              ("assert_length_equal", [1], 1), ("assert_regex", "z", "caat")]
    try:
        for prefix in ([], [["say", HA]], [["open"], ["boom"]], [["say", HA], ["open"], ["say", HA]]):
            ag.end_history()
            clear_sandbox()
            ac.run()
            for name, l, r in values:
                d = {"a": name, "wrap": "p" if name in ac.UNARY else "pr", "l": _v(l), "history": prefix + [["L", "ident"]],
                     "after_clear_sandbox": True}
                if name not in ac.UNARY:
                    d["r"] = _v(r)
                nm, a, b, kw, okw = from_description(d)
                rows.append((d, ac.run_real(nm, a, b, **kw), want_of(nm, a, b, kw, okw)))
            steps = prefix + [["say", HB]]
            for name in OUTPUT_DISTINCT:
                for text in (HB, HA):
                    d = {"a": name, "wrap": "r", "history": steps, "on": len(steps) - 1, "text": text, "exact": False,
                         "after_clear_sandbox": True}
                    nm, a, b, kw, okw = from_description(d)
                    rows.append((d, ac.run_real(nm, a, b, **kw), want_of(nm, a, b, kw, okw)))
    finally:
        _in_clear_stream[0] = False
        ag.end_history()
        ac.renew()
    return rows


def _short(v):
    r = repr(ac.raw(v))
    return r if len(r) < 40 else r[:37] + "..."


# --------------------------------------------------------------------------------------

def replay(payload):
    from common import Driver
    rp = payload.get("replay", {})
    P = None
    if "case" in rp:
        name, a, b, kw, okw = from_description(rp["case"])
        real = ac.run_real(name, a, b, **kw)
        want = want_of(name, a, b, kw, okw)
        print("case     :", json.dumps(rp["case"]))
        print("real     :", real)
        if want == "either":
            pair = pair_outcomes(name, a, b, kw)
            print("property : the oracle abstains on these operands; %s and %s must not both pass or both fail" % (
                name, COUNTERPART[name]))
            print("pair     :", pair)
            line = ag.request_line(name, a, b, **kw, **okw)
            drv = Driver("driver_c07")
            if line and drv.available:
                print("model    :", drv.ask([line])[0])
            return 0 if sorted(pair) == ["fires", "silent"] else 1
        print("property :", want, "(the relation %s)" % ("holds" if want == "silent" else "does not hold"))
        line = ag.request_line(name, a, b, **kw, **okw)
        drv = Driver("driver_c07")
        if line and drv.available:
            print("model    :", drv.ask([line])[0])
        return 0 if real == want else 1
    if "lazy_case" in rp:
        ac.setup()
        d = rp["lazy_case"]
        kw = d.get("kw", {})
        print("case     : %s / %s (%s, %s) [%s] %s" % (d["assertions"][0], d["assertions"][1], al.describe(d["l"]),
                                                       al.describe(d["r"]), d["wrap"], kw or ""))
        print("recipes  :", json.dumps([d["l"], d["r"]]))
        real = al.run_pair(d["l"], d["r"], d["wrap"], kw, tuple(d["assertions"]))
        print("real     :", dict(zip(d["assertions"], real)))
        try:
            rd = al.readings(d["l"], d["r"], kw.get("exact", False), kw.get("delta"))
        except ac.Ambiguous:
            rd = "ambiguous (dict keys equal only approximately)"
        except TypeError as e:
            rd = "Python's == raises: %s" % e
        print("readings :", rd)
        want = al.want_equal(d["l"], d["r"], kw.get("exact", False), kw.get("delta"))
        if want == al.UNEVALUABLE:
            print("property : Python's own == raises on these operands; nothing is demanded")
            return 0
        swapped = al.run_pair(d["r"], d["l"], d["wrap"][::-1], kw, tuple(d["assertions"]))
        raw = al.run_pair(d["l"], d["r"], "rr", kw, tuple(d["assertions"]))
        print("swapped  :", dict(zip(d["assertions"], swapped)), "   raw operands:", dict(zip(d["assertions"], raw)))
        if want is None:
            print("property : the readings differ, the oracle abstains about the verdict; the two assertions must not both "
                  "pass or both fail, and the outcome must depend neither on the order nor on the wrapping")
            return 0 if sorted(real) == ["fires", "silent"] and swapped == real and raw == real else 1
        print("property : the operands are %s: %s must be %s, %s must be %s" % (
            "equal" if want else "not equal", d["assertions"][0], "silent" if want else "fires", d["assertions"][1],
            "fires" if want else "silent"))
        return 0 if al.kind_of_failure(real[0], real[1], want) is None else 1
    if "lazy_other" in rp:
        ac.setup()
        d = rp["lazy_other"]
        env = {}
        lo = al.build(d["l"], env)
        ro = None if d["r"] is None else al.build(d["r"], env)
        want = "silent" if al.py_relation(d["a"], lo, ro) else "fires"
        env = {}
        lo = al.build(d["l"], env)
        a = al.proxy(lo) if d["wrap"][0] == "p" else lo
        b = None
        if d["r"] is not None:
            ro = al.build(d["r"], env)
            b = (a if ro is lo and d["wrap"][0] == "p" else al.proxy(ro, "r")) if d["wrap"][1] == "p" else ro
        real = ac.run_real(d["a"], a, b)
        print("case     : %s(%s%s) [%s]" % (d["a"], al.describe(d["l"]), "" if d["r"] is None else ", " + al.describe(d["r"]),
                                          d["wrap"]))
        print("real     :", real)
        print("property :", want, "(the plain Python relation on fresh raw objects)")
        return 0 if real == want else 1
    if "lazy_unit" in rp:
        ac.setup()
        real = al.run_unit(rp["lazy_unit"])
        print("case     :", [(al.describe(a), al.describe(b)) for _, a, b in rp["lazy_unit"]["rows"]])
        print("real     :", real)
        print("property :", al.oracle_unit(rp["lazy_unit"]))
        return 0 if real == al.oracle_unit(rp["lazy_unit"]) else 1
    if "type_case" in rp:
        ac.setup()
        v, t, conforms = TYPE_CASES[rp["type_case"]]
        a = ac.proxy_of(v) if rp["wrap"] == "p" else (ac.call("boom") if rp["wrap"] == "e" else v)
        real = ac.run_real(rp["assertion"], a, t)
        print("real     :", real)
        print("property :", rp["expected"])
        return 0 if real == rp["expected"] else 1
    if "class_type_case" in rp:
        ac.setup()
        for label, v, t, conforms, shp in class_type_cases():
            if label == rp["class_type_case"]:
                a = ac.proxy_of(v) if rp["wrap"] == "p" and v is not None else v
                real = ac.run_real(rp["assertion"], a, t)
                print("case     : %s(%s) [%s]" % (rp["assertion"], label, rp["wrap"]))
                print("real     :", real)
                print("property :", rp["expected"])
                return 0 if real == rp["expected"] else 1
        print("unknown class_type_case", rp["class_type_case"])
        return 2
    if "group_scenario" in rp:
        sc = rp["group_scenario"]
        print("script   :")
        for line in agr.render(sc):
            print("    " + line)
        real, want = agr.run(sc), agr.expect(sc)
        print("real     :", json.dumps(real))
        print("property :", json.dumps(want), "(null = left open)")
        d = agr.compare(real, want)
        print("verdict  :", "satisfies the property" if d is None else "violates it: %s at observation %s field %s" % d)
        return 0 if d is None else 1
    if "unit_test_rows" in rp:
        ac.setup()
        rows = rp["unit_test_rows"]
        if rp.get("pre"):
            ag.run_history(rp["pre"])
        sb = ac.get_sandbox()
        sb.data["TABLE"] = {j: ac.build(s) for j, s, _ in rows if s is not None}
        extra = {"partial_credit": True} if rp.get("partial_credit") else {}
        with contextlib.ExitStack() as stack:
            enclosing_groups(stack, rp.get("enclosing_groups"))
            ok = ac.unit_test("table", *[([j], ac.build(e)) for j, _, e in rows], **extra)
        g = [f for f in ac.MAIN_REPORT.feedback + ac.MAIN_REPORT.ignored_feedback if type(f).__name__ == "unit_test"]
        print("real     : returned", ok, "success_count", g[0].fields.get("success_count") if g else None,
              "total_count", g[0].fields.get("total_count") if g else None)
        print("property :", rp["expected"])
        return 0
    print(json.dumps(payload, indent=1)[:3000])
    return 0


if __name__ == "__main__":
    sys.exit(run_check("C07", proof_modules=["PedalProofs.C07"], theorems=THEOREMS, driver_exe="driver_c07",
                       translate=translate, correspond=correspond, search=search, replay=replay,
                       model_notes=NOTES, refuted_full=REFUTED, leanchecker_modules=["PedalProofs.C07"]))

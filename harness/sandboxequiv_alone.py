"""
C06: judge ONE case in a fresh process (nothing any earlier case of a run left behind in pedal's classes or
modules can play a part).  Used by the search to make sure that a failing call HISTORY it reports is
self-contained, i.e. that `./check C06 --replay` shows it.

    python sandboxequiv_alone.py <case.json>      ->  prints the signature (JSON) or `null`
"""
import json
import os
import sys

if os.environ.get("PYTHONHASHSEED") != "0":
    os.environ["PYTHONHASHSEED"] = "0"
    os.execv(sys.executable, [sys.executable, "-X", "utf8", "-W", "ignore"] + sys.argv)

import sandboxequiv_common as sc        # noqa: E402


def main(argv):
    with open(argv[1]) as fh:
        case = json.load(fh)
    r = sc.run_reference([case])[0]
    if "timeout" in r or "harness_error" in r:
        print(json.dumps({"infrastructure": r}))
        return 2
    v = sc.judge(case, r, sc.run_sandbox_guarded(case, 30))
    print(json.dumps(v[0] if v else None, sort_keys=True))
    return 0


if __name__ == "__main__":
    sys.exit(main(sys.argv))

"""Check body shared by C04 / C05 (model PedalModel/SandboxExec.lean, driver driver_c04 / driver_c05)."""
import json
import os

from common import VERIF, CorrResult, Failure, run_check
import sandboxexec_common as sx
import sandboxexec_sizes as sz
import sandboxexec_dims as dm
import sandboxexec_special as sp
import sandboxexec_where as wh
from translate_sandbox import translate

RULE_CORR = ("histories of 1-6 executions on one sandbox: every builtin exception class, user subclasses of "
             "Exception/BaseException/SystemExit/KeyError, exception objects with failing __str__/__repr__/"
             "__setattr__/__getattribute__, exit()/sys.exit/raise SystemExit, unbounded recursion, 12 compile "
             "failures (incl. NUL byte), every blocked builtin / restricted open / import pedal, errors created in "
             "library and C code and in nested functions, normal programs (some replacing sys.stdout / time.sleep / "
             "sys.modules entries / their own __builtins__), each also with a second student file helper.py that the "
             "code imports (failing before/inside/after the import, or not compiling), through run(), call(), "
             "evaluate() (main file answer.py or another name; run() bare / by file name / with code and file name; "
             "call with and without arguments), 4 tracer styles, "
             "with a pre-installed trace function, optionally with a failure injected into the recording of the "
             "exception; PLUS the size dimension (sandboxexec_sizes.py): every integer limit constant / literal of the "
             "modules that record a failure and render its feedback is read from the tree under test, and inputs "
             "consumed (also added up over a group of calls, also pedal's own give-up limit), traceback depth (chain "
             "and bounded recursion), printed output, exception message / constructor arguments / class-name length, "
             "length / number / line span of the failing source line, and length / number / faithfulness of call() "
             "arguments are swept over the values just below, at, just above, at half and at twice each limit, plus 0 "
             "and one LARGE value per dimension; PLUS what the rendering is handed (30 message values, 13 class names, "
             "12 positions of a hand-made SyntaxError, 21 exceptions with constructor arguments / notes / causes / "
             "groups); default, HTML and text formatter; inputs queued by set_input or by inputs=; PLUS "
             "(sandboxexec_dims.py) odd exception OBJECTS (falsy / zero-length / equal to everything or to None / "
             "unequal to themselves / unhashable instances, odd __iter__ __getitem__ __contains__ __format__ __dir__ "
             "__reduce__ __copy__ __lt__ __call__ __int__ __slots__ __new__ __init__, truth test raising or returning "
             "nonsense) through run / call / evaluate, also after a successful call; THREADED executions that end by "
             "themselves (sandbox.threaded = True, threaded=True passed, only the imports threaded; allowed_time far "
             "beyond need) for the termination sweep, imports of a second student file in particular; NESTED "
             "executions on one sandbox (student code reaching a mocked builtin / a function in its namespace / the "
             "input callable that runs call, evaluate or run on the same sandbox; depth 2 and 3; inner and outer "
             "ending normally, by Exception, SystemExit, BaseException propagating or caught, compile failure; one or "
             "two inner executions; threaded or not); PLUS (sandboxexec_special.py) the exception classes the sandbox's own code "
             "names (read from the tree under test: every class in an except / isinstance / issubclass / raise of "
             "pedal/sandbox/*.py, of the traceback renderer and of the library modules the tracer styles are built on, "
             "and all their base classes - Exception and BaseException themselves, BdbQuit, ...) raised EXACTLY (as "
             "instance, as bare class, inside a function, re-raised) and as a student subclass, crossed with every "
             "tracer style and every place (module level, call, evaluate, imported student file, also threaded); and "
             "the THREAD THE GRADER RUNS ON (main thread, plain threading.Thread, pool worker, _thread dummy thread, "
             "Timer) crossed with every ending, entry point, threaded mode and with nested executions; PLUS "
             "(sandboxexec_where.py) WHICH REPORT is graded (MAIN_REPORT; a Report of its own through the commands with "
             "report=; a Sandbox(report=...) object through its methods - MAIN_REPORT and a third report alive beside "
             "it with a healthy decoy program each, which must gain nothing) crossed with every ending and entry point; "
             "and EXECUTED TEXT vs STORED TEXT (run(text, filename=<student file>) with 0-40 lines appended, the failure "
             "raised on / passing through the last stored line, one past, two past, ...; fewer lines; another student "
             "file; call / evaluate of a function defined past the stored end; CR-only and splitlines-only line ends - "
             "expected class and lines from CPython executing the text); real = pedal.sandbox.commands / Sandbox methods "
             "on the graded report, model = "
             "Pedal.SandboxExec.runObserved / runObservedN via the driver (threaded executions are compared with the "
             "model's unthreaded answer); non-trivial = history containing a failing execution")


def corpus_cases(prop):
    d = os.path.join(VERIF, "corpus", prop)
    out = []
    if os.path.isdir(d):
        for name in sorted(os.listdir(d)):
            if name.endswith(".json"):
                with open(os.path.join(d, name)) as fh:
                    out.append(json.load(fh))
    return out


def histories(prop, rng, tier):
    hs = [c["ops"] for c in corpus_cases("sandboxexec") + corpus_cases(prop)]
    sweep = sx.coverage_histories(rng)
    if tier == "quick":
        # the sweep is ~330 short histories; quick runs a seeded third of it plus the fixed essentials
        keep = [h for h in sweep if rng.random() < 0.34 or h[-1].get("inject") or h[-1].get("pin")
                or (h[-1]["shape"] in ESSENTIAL_SHAPES and not h[-1].get("nested"))]
        hs += keep
    else:
        hs += sweep
    # the size dimension: every limit constant of the recording / rendering path, read from the tree under test
    hs += sz.sized_histories(rng, tier)
    # odd exception objects, threaded executions that end by themselves, nested executions on one sandbox
    hs += dm.odd_exception_histories(rng, tier)
    # the exception classes the sandbox's own code names (read from the tree), exactly, x every tracer style x place
    special = sp.special_histories(rng, tier)
    hs += special
    # (threaded: the classes of the tracer family; in thorough also a tenth of the others)
    hs += dm.threaded_histories(rng, tier, sweep + [h for h in special if h[-1].get("special_level2")
                                                    or (tier != "quick" and rng.random() < 0.1)])
    nested = dm.nested_histories(rng, tier)
    hs += nested
    # the thread the grader itself runs on
    hs += sp.grader_thread_histories(rng, tier, sweep + special, nested)
    if sp.gated_enabled():
        hs += sp.gated_histories(rng, tier)
    if wh.gated_enabled():
        hs += wh.gated_histories()
    # round 4: which report is graded (own Report / own Sandbox beside a contextualised MAIN_REPORT); the executed
    # text is not the text stored under that file name (lines appended / fewer / CR line ends)
    hs += wh.report_histories(rng, tier)
    hs += wh.text_histories(rng, tier)
    snippets = sx.failing_snippets(rng) + dm.odd_exception_snippets() + sp.special_snippets()
    sized = [s for s in sz.sized_snippets(rng) + sz.rendering_snippets() if not s.get("slow")]
    n = 60 if tier == "quick" else 4000
    for _ in range(n):
        hs.append(random_history(rng, snippets, sized))
    return hs


def random_history(rng, snippets, sized, inject_rate=0.06):
    r = rng.random()
    if r < 0.15:
        h = dm.random_nested_history(rng)
        return sp.on_thread(h, rng.choice(sp.GRADER_THREADS)) if rng.random() < 0.15 else h
    h = sx.gen_history(rng, snippets, inject_rate=inject_rate, sized=sized)
    if r < 0.40 and not any(op.get("size") for op in h):
        h = dm.threaded(h, rng.choice(dm.THREAD_MODES))
    if rng.random() < 0.15:
        h = sp.on_thread(h, rng.choice(sp.GRADER_THREADS))
    return h


MODE_FIELD_TAG = {"on": "grader-thread", "threaded": "threaded"}      # op field -> tag in a signature
MODE_TAGS = set(MODE_FIELD_TAG.values())

ESSENTIAL_SHAPES = {
    "builtin:KeyboardInterrupt", "builtin:GeneratorExit", "user:BaseException", "str-raises", "repr-raises",
    "setattr-raises", "exception-attribute-read-raises", "syntaxerror-no-position", "syntaxerror-unknown-file",
    "compile:nul-byte", "compile:unclosed-paren", "sys.exit", "raise-SystemExit", "blocked:exit", "blocked:eval",
    "open:missing", "open:.py", "import:pedal", "library:json", "recursion", "nested-functions", "c:keyerror",
    "user:SystemExit", "user:SystemExit, Exception", "user:KeyError", "builtin:TimeoutError", "builtin:OSError",
    "builtin:SystemExit", "builtin:IndentationError", "normal", "call-missing", "eval:syntax",
    "stdout-closed-then-fail", "print-after-close", "stdout-replaced-and-closed-then-fail",
    "stdout-getvalue-replaced-then-fail", "stdout-closed-then-systemexit", "stdout-closed-then-keyboardinterrupt",
}


def make(prop, theorems, *, model_notes=None, refuted_full=None, driver_exe=None):
    driver_exe = driver_exe or ("driver_" + prop.lower())
    state = {}

    def do_translate():
        info = translate()
        state["translate"] = info
        return info

    def correspond(rng, tier, driver):
        res = CorrResult()
        res.rule = RULE_CORR
        sx.warm_up()
        hs = histories(prop, rng, tier)
        runs, lines = [], []
        for ops in hs:
            obs = sx.run_history(ops)
            runs.append((ops, obs))
            lines.append(sx.request_line(ops))
        answers = driver.ask(lines)
        for (ops, obs), line, ans in zip(runs, lines, answers):
            model = sx.parse_answer(ans)
            res.evaluations += 1
            res.count("ops=%d" % len(ops))
            for op in sx.walk_ops(ops):
                res.count("entry:" + op["entry"])
                res.count("style:" + str(op["style"]))
                res.count("term:" + op["term"][0] + (":inject" if op.get("inject") else ""))
                if op.get("threaded"):
                    res.count("threaded:" + op["threaded"])
                if op.get("report"):
                    res.count("graded-report:" + op["report"])
                if op.get("exec_code") is not None:
                    res.count("executed-text-differs-from-stored-text")
            if any(sx.has_inner(op) for op in ops):
                res.count("nested-executions:depth=%d" % sx.nesting_depth(ops))
            if any(op["term"][0] != "N" for op in sx.walk_ops(ops)):
                res.nontrivial.add(line)
            flat = sx.flatten(ops, obs)
            if prop == "C05" and model is not None and len(model) != len(flat) and any(sx.has_inner(op) for op in ops):
                # a nested execution did not take place, or let something through that its descriptor does not
                # predict (whether a call returns is C04's business): the executions that DID take place are judged
                # by the oracle in the search; there is no model answer to compare them with
                res.count("not-compared:nested executions took another course than the descriptors say")
                continue
            if model is None or len(model) != len(flat):
                res.disagreements.append({"case": {"ops": ops}, "real": obs, "model": ans[:200],
                                          "fields": ["bad-request" if model is None else "number-of-executions"],
                                          "request": line})
                continue
            top = -1
            for (op, o, level), m in zip(flat, model):
                if level == 0:
                    top += 1
                d = sx.compare_op(prop, o, m, op)
                if d:
                    res.disagreements.append({"case": {"ops": ops[:top + 1]}, "real": o, "model": m,
                                              "fields": d, "op_index": top, "nesting_level": level,
                                              "shape": op["shape"], "request": line})
                    break
        res.samples = [{"ops": [{k: v for k, v in op.items() if k != "code"} for op in ops]} for ops, _ in runs[-2:]]
        res.runs = runs
        return res

    def search(rng, tier, broken, corr):
        info = {"rule": "real sandbox vs the property oracle written from the statement (returned, exception "
                        "available, exactly one runtime feedback naming the class ON THE GRADED REPORT and nothing on "
                        "any other live report, student line / every borrowed "
                        "global and both stacks as before) on the correspondence histories, the full termination "
                        "sweep when something is broken, and seeded random histories"
                        + ("; search-only: failures injected into the storing of the output; TIMEOUT as an ending of "
                           "executions nested in another one (every nesting route, also a thread that survives its "
                           "SystemExit), judged right after the inner call AND after the abandoned thread has ended; "
                           "an abandoned thread released by, and ending during, the NEXT top-level execution"
                           if prop == "C05" else ""),
                "evaluations": 0, "distinct_nontrivial": 0, "samples": []}
        failures, seen = [], set()
        nt = set()

        sizes_seen = {}     # (signature key | None for "fine", dimension) -> set of sizes
        per_kind = {}

        def consider(ops, obs):
            info["evaluations"] += 1
            if any(op["term"][0] != "N" for op in sx.walk_ops(ops)):
                nt.add(sx.request_line(ops))
            failed_at = {}
            found = [(i, sig, what, ()) for i, sig, what in sx.failures_in(prop, ops, obs)]
            if any(MODE_TAGS & set(sig) for _, sig, _, _ in found):
                found = untag(found, ops)
            for idx, sig, what, stripped in found:
                key = json.dumps(sig, sort_keys=True)
                failed_at[idx] = key
                if key in seen:
                    continue
                seen.add(key)
                # one root cause usually shows under many program shapes: report at most 6 signatures per kind of
                # breach (each one costs a shrink and a VIOLATION line)
                kind = str(sig.get(prop.lower()))
                per_kind[kind] = per_kind.get(kind, 0) + 1
                if per_kind[kind] > 6:
                    info["signatures_not_reported_beyond_6_per_kind"] = \
                        info.get("signatures_not_reported_beyond_6_per_kind", 0) + 1
                    continue
                # (a failure that does not need the worker threads / the grader's thread is replayed without them)
                small, small_obs = sx.shrink_history(prop, strip_modes(ops, stripped), idx, sig)
                if small_obs is None and stripped:
                    small = ops[:idx + 1]
                failures.append(Failure(sig, what, {"ops": small, "real": small_obs if small_obs else obs[:idx + 1]}))
            for idx, op in enumerate(ops):
                if op.get("size"):
                    sizes_seen.setdefault((failed_at.get(idx), op["size"]["dim"]), set()).add(op["size"]["n"])

        def strip_modes(ops, fields):
            if not fields:
                return ops
            import copy
            plain = copy.deepcopy(ops)
            for op in sx.walk_ops(plain):
                for f in fields:
                    op.pop(f, None)
            return plain

        def untag(found, ops):
            """`threaded` / `grader-thread` in a signature mean: ONLY when executed that way.  The history is run
            again with the worker threads and / or the grader's thread taken away (both, then each alone); a failure
            that shows the same way in such a twin is reported under the signature without the tag(s) the twin lacks."""
            twins = {}

            def twin_found(fields):
                if fields not in twins:
                    plain = strip_modes(ops, fields)
                    try:
                        twins[fields] = {(i, json.dumps(sig, sort_keys=True)) for i, sig, _ in
                                         sx.failures_in(prop, plain, sx.run_history(plain))}
                    except Exception:
                        twins[fields] = set()
                return twins[fields]
            out = []
            for idx, sig, what, _ in found:
                present = tuple(f for f in ("on", "threaded") if MODE_FIELD_TAG[f] in sig)
                choice, gone = sig, ()
                for fields in ([present] if len(present) < 2 else [present, ("on",), ("threaded",)]):
                    if not fields:
                        break
                    bare = {k: v for k, v in sig.items() if k not in {MODE_FIELD_TAG[f] for f in fields}}
                    if (idx, json.dumps(bare, sort_keys=True)) in twin_found(fields):
                        choice, gone = bare, fields
                        break
                out.append((idx, choice, what, gone))
            return out

        def add_size_ranges():
            """Where a failure is one of the size dimension: between which sizes does it start?"""
            for f in failures:
                shape = str(f.signature.get("shape", ""))
                if not shape.startswith("size:"):
                    continue
                dim = shape[len("size:"):]
                bad = sorted(sizes_seen.get((json.dumps(f.signature, sort_keys=True), dim), ()))
                good = sorted(sizes_seen.get((None, dim), ()))
                if bad:
                    below = [n for n in good if n < bad[0]]
                    f.what += " [size dimension %r: this replay has size %s; sizes that fail: %s%s; %s]" % (
                        dim, f.replay["ops"][-1].get("size", {}).get("n"), ", ".join(map(str, bad[:10])),
                        " ..." if len(bad) > 10 else "",
                        "largest smaller size that is fine: %d" % below[-1] if below else "no smaller size is fine")

        for ops, obs in getattr(corr, "runs", []):
            consider(ops, obs)
        extra = []
        if prop == "C05":
            # search-only: pedal itself failing while it stores the captured output (not a step of the model)
            extra += sx.store_failure_histories(rng)
            # search-only: TIMEOUT as an ending of an execution nested in another one (the time limit itself is C14's;
            # that whoever gives an execution up undoes exactly ITS patches, and that the abandoned thread touches
            # nothing when it ends later, is judged here by the snapshot oracle)
            extra += wh.timeout_histories(rng, tier)
        if broken or not getattr(corr, "runs", None):
            sx.warm_up()
            extra += sx.coverage_histories(rng)
        snippets = sx.failing_snippets(rng) + dm.odd_exception_snippets() + sp.special_snippets()
        sized = [s for s in sz.sized_snippets(rng) + sz.rendering_snippets() if not s.get("slow")]
        n = 40 if tier == "quick" else 1500
        if broken:
            n *= 3
            extra += sz.sized_histories(rng, "thorough" if tier != "quick" else "quick")
            extra += dm.nested_histories(rng, tier) + dm.odd_exception_histories(rng, tier)
            extra += sp.special_histories(rng, tier) + sp.grader_thread_histories(rng, tier)
            extra += wh.report_histories(rng, tier) + wh.text_histories(rng, tier)
        for _ in range(n):
            extra.append(random_history(rng, snippets, sized, inject_rate=0.1))
        for ops in extra:
            if len(failures) >= 8:
                break
            consider(ops, sx.run_history(ops))
        add_size_ranges()
        info["distinct_nontrivial"] = len(nt)
        info["oracle_clauses_skipped"] = dict(sx.SKIPPED)
        info["size_limits_read_from_the_tree"] = sz.describe_limits()
        info["special_exception_classes"] = sp.describe_special()
        info["grader_threads"] = list(sp.GRADER_THREADS) + (["GATED inputs on"] if sp.gated_enabled() else []) + (
            ["round-4 GATED inputs on"] if wh.gated_enabled() else [])
        if prop == "C05":
            info["executions_given_up_on_by_timeout"] = sum(
                1 for ops in extra for op in sx.walk_ops(ops) if op.get("timeout"))
        return failures, info

    def replay(payload):
        rp = payload.get("replay") or {}
        ops = rp.get("ops")
        if ops is None:
            print(json.dumps(payload, indent=1)[:4000])
            return 0
        sx.warm_up()
        obs = sx.run_history(ops)
        for op, o in zip(ops, obs):
            print("op:", json.dumps({k: v for k, v in op.items()}))
            print("  real:", json.dumps(o, default=str))
            print("  oracle:", sx.ORACLES[prop](op, o))
        from common import Driver
        drv = Driver(driver_exe)
        if drv.available:
            print("model:", drv.ask([sx.request_line(ops)])[0])
        return 0

    def go():
        # which full-strength statements are refuted depends on the probed tables of THIS tree
        try:
            pre = translate()
        except Exception:
            pre = {}
        refuted = refuted_full(pre) if refuted_full else []
        return run_check(prop, proof_modules=["PedalProofs." + prop], theorems=theorems, driver_exe=driver_exe,
                         translate=do_translate, correspond=correspond, search=search, replay=replay,
                         model_notes=model_notes, refuted_full=refuted, leanchecker_modules=["PedalProofs." + prop])
    return go

"""
Shared pieces of the C07 check: the sandbox with the student program that produces real proxies,
JSON-able value specs, the wire encoding for the Lean driver, the runner for the real assertions,
and the oracle written from the property text (plain Python relations on the raw values).
"""
import re
import string
from fractions import Fraction

from common import use_repo

use_repo()

from pedal import contextualize_report, run, call, evaluate, get_sandbox  # noqa: E402
from pedal.core.report import MAIN_REPORT  # noqa: E402
import pedal.assertions.runtime as rt  # noqa: E402
from pedal.assertions.commands import unit_test  # noqa: E402
from pedal.sandbox.result import is_sandbox_result  # noqa: E402

STUDENT = '''
def ident(x):
    return x
def boom():
    return 1/0
def mkexc():
    return ValueError("x")
class Thing:
    pass
class Other:
    pass
class Documented:
    """A documented class."""
def say(text):
    print(text)
def say_quiet():
    return 5
def say_raw(text):
    print(text, end="")
def say_boom(text):
    print(text)
    return 1/0
def table(key):
    return TABLE[key]
TABLE = {}
print("main ran")
'''
MAIN_PRINTS = "main ran\n"        # what one run() of the student program writes

_ready = False


def setup():
    global _ready
    if _ready:
        return
    MAIN_REPORT.clear()
    contextualize_report(STUDENT)
    run()
    if get_sandbox().exception is not None:
        raise RuntimeError("student program failed: %r" % (get_sandbox().exception,))
    _ready = True


def renew():
    """A fresh report and sandbox.  The old sandbox stays alive behind the proxies made from it, which remain valid;
    used by the history streams to keep the sandbox's list of past executions short (pedal's context message for a
    result made before the innermost open CommandBlock formats the WHOLE list up to that result)."""
    global _ready
    _ready = False
    setup()


def clear_report():
    MAIN_REPORT.feedback.clear()
    MAIN_REPORT.ignored_feedback.clear()
    MAIN_REPORT.groups.clear()


def error_operand():
    return call("boom")


# --------------------------------------------------------------------------------------
# value specs  (JSON-able description -> Python object)

TYPES = {"int": int, "float": float, "bool": bool, "str": str, "list": list, "tuple": tuple, "set": set,
         "dict": dict, "object": object, "exception": Exception, "type": type}
TYPE_TAG = {v: k for k, v in TYPES.items()}


def F(m, k=20):
    """spec of the float m * 2^-k"""
    return {"t": "float", "m": m, "k": k}


def build(spec):
    """Python object for a spec (fresh object each time, except singletons)."""
    t = spec["t"]
    if t == "none":
        return None
    if t == "bool":
        return bool(spec["v"])
    if t == "int":
        return int(spec["v"])
    if t == "float":
        return float(Fraction(spec["m"], 1 << spec["k"]))
    if t == "str":
        return str(spec["v"])
    if t == "list":
        return [build(x) for x in spec["v"]]
    if t == "tuple":
        return tuple(build(x) for x in spec["v"])
    if t == "set":
        return set(build(x) for x in spec["v"])
    if t == "dict":
        return {build(k): build(v) for k, v in spec["v"]}
    if t == "type":
        return TYPES[spec["v"]]
    if t == "obj":
        return get_sandbox().data["Thing"]()
    if t == "err":
        if spec["how"] == "raw":
            return ValueError("x")
        if spec["how"] == "mkexc":
            return call("mkexc")
        return call("boom")
    raise ValueError(spec)


def spec_of(v):
    if v is None:
        return {"t": "none"}
    if isinstance(v, bool):
        return {"t": "bool", "v": v}
    if isinstance(v, int):
        return {"t": "int", "v": v}
    if isinstance(v, float):
        n, d = v.as_integer_ratio()
        return {"t": "float", "m": n, "k": d.bit_length() - 1}
    if isinstance(v, str):
        return {"t": "str", "v": v}
    if isinstance(v, list):
        return {"t": "list", "v": [spec_of(x) for x in v]}
    if isinstance(v, tuple):
        return {"t": "tuple", "v": [spec_of(x) for x in v]}
    if isinstance(v, set):
        return {"t": "set", "v": [spec_of(x) for x in v]}
    if isinstance(v, dict):
        return {"t": "dict", "v": [[spec_of(k), spec_of(x)] for k, x in v.items()]}
    if isinstance(v, type) and v in TYPE_TAG:
        return {"t": "type", "v": TYPE_TAG[v]}
    raise ValueError(v)


def shape(v):
    v = raw(v)
    if v is None:
        return "none"
    if isinstance(v, BaseException):
        return "error"
    for cls, name in ((bool, "bool"), (int, "int"), (float, "float"), (str, "str"), (list, "list"),
                      (tuple, "tuple"), (set, "set"), (dict, "dict"), (type, "type")):
        if isinstance(v, cls):
            return name
    return "object"


def raw(v):
    return v._actual_value if is_sandbox_result(v) else v


_proxy_counter = [0]


def proxy_of(obj):
    """A real SandboxResult whose underlying object is `obj` itself (evaluated in the student namespace)."""
    if is_sandbox_result(obj):
        return obj
    _proxy_counter[0] += 1
    name = "_c07_value_%d" % _proxy_counter[0]
    sb = get_sandbox()
    sb.data[name] = obj
    p = evaluate(name)
    if not is_sandbox_result(p) or p._actual_value is not obj:
        raise RuntimeError("could not proxy %r" % (obj,))
    return p


# --------------------------------------------------------------------------------------
# wire encoding of values (lean/Drivers/C07.lean parses this)

class Unencodable(Exception):
    pass


_ids = {}
_keep = []


def oid(obj):
    """small stable identity number of a live object (objects are kept alive)."""
    k = id(obj)
    if k not in _ids:
        _ids[k] = len(_ids) + 1
        _keep.append(obj)
    return _ids[k]


def enc_val(v, out):
    if v is None:
        out.append("N")
    elif v is True:
        out.append("T")
    elif v is False:
        out.append("F")
    elif isinstance(v, int):
        out.append("I%d" % v)
    elif isinstance(v, float):
        if v != v or v in (float("inf"), float("-inf")):
            raise Unencodable("non-finite float")
        n, d = v.as_integer_ratio()
        out.append("D%d/%d" % (n, d.bit_length() - 1))
    elif isinstance(v, str):
        out.append("S" + (",".join(str(ord(c)) for c in v) if v else "-"))
    elif isinstance(v, list):
        out.append("L%d" % len(v))
        for x in v:
            enc_val(x, out)
    elif isinstance(v, tuple):
        out.append("U%d" % len(v))
        for x in v:
            enc_val(x, out)
    elif isinstance(v, set):
        out.append("E%d" % len(v))
        for x in v:
            enc_val(x, out)
    elif isinstance(v, dict):
        out.append("M%d" % len(v))
        for k, x in v.items():
            enc_val(k, out)
            enc_val(x, out)
    elif isinstance(v, type):
        if v not in TYPE_TAG:
            raise Unencodable("type %r" % v)
        out.append("Y" + TYPE_TAG[v])
    elif isinstance(v, BaseException):
        out.append("X%d" % oid(v))
    elif type(v).__name__ == "Thing":
        out.append("O%d" % oid(v))
    else:
        raise Unencodable(repr(type(v)))
    return out


def enc_operand(x):
    """`px oid poid value...` for an operand as passed to the assertion (raw or proxy)."""
    r = raw(x)
    px = is_sandbox_result(x)
    toks = ["1" if px else "0", str(oid(r)), str(oid(x)) if px else "0"]
    enc_val(r, toks)
    return toks


# --------------------------------------------------------------------------------------
# the assertions and how each is called

ORDER = ["assert_less", "assert_less_equal", "assert_greater", "assert_greater_equal"]
MEMBER = ["assert_in", "assert_not_in", "assert_contains_subset", "assert_not_contains_subset"]
IDENT = ["assert_is", "assert_is_not"]
UNARY = ["assert_is_none", "assert_is_not_none", "assert_true", "assert_false",
         "assert_is_dataclass", "assert_is_not_dataclass"]
LENGTH = ["assert_length_equal", "assert_length_not_equal", "assert_length_less", "assert_length_less_equal",
          "assert_length_greater", "assert_length_greater_equal"]
INSTANCE = ["assert_is_instance", "assert_not_is_instance"]
EQUAL = ["assert_equal", "assert_not_equal", "assert_almost_equal", "assert_not_almost_equal"]
REGEX = ["assert_regex", "assert_not_regex"]
OUTPUT = ["assert_output", "assert_not_output", "assert_prints", "assert_output_contains",
          "assert_not_output_contains", "assert_output_regex", "assert_not_output_regex"]
TYPE = ["assert_type", "assert_not_type"]
BINARY = ORDER + MEMBER + IDENT + LENGTH + INSTANCE + EQUAL + REGEX
MODELLED = BINARY + UNARY + OUTPUT

NEGATION_PAIRS = [("assert_equal", "assert_not_equal"), ("assert_in", "assert_not_in"),
                  ("assert_contains_subset", "assert_not_contains_subset"), ("assert_is", "assert_is_not"),
                  ("assert_is_none", "assert_is_not_none"), ("assert_true", "assert_false"),
                  ("assert_length_equal", "assert_length_not_equal"),
                  ("assert_length_less", "assert_length_greater_equal"),
                  ("assert_length_less_equal", "assert_length_greater"),
                  ("assert_is_instance", "assert_not_is_instance"), ("assert_regex", "assert_not_regex"),
                  ("assert_output", "assert_not_output"), ("assert_output_contains", "assert_not_output_contains"),
                  ("assert_output_regex", "assert_not_output_regex"), ("assert_type", "assert_not_type"),
                  ("assert_almost_equal", "assert_not_almost_equal")]

DOCUMENTED_DELTA = 0.001        # "If delta is None, then the default Delta will be used (.001)"


def code_delta(name="assert_equal"):
    """the default the code under test actually uses (what the model is told)"""
    return float(getattr(getattr(rt, name, rt.assert_equal), "DELTA", rt.assert_equal.DELTA))


DEFAULT_DELTA = DOCUMENTED_DELTA


_param_names = {}


def param_names(name):
    """names of the two operand parameters of the assertion's constructor"""
    if name not in _param_names:
        import inspect
        _param_names[name] = [p for p in inspect.signature(getattr(rt, name).__init__).parameters][1:3]
    return _param_names[name]


def camel(name):
    parts = name.split("_")
    return parts[0] + "".join(p.capitalize() for p in parts[1:])


def run_real(name, a, b=None, exact=False, delta=None, spelling="positional"):
    """Outcome of the real assertion: 'silent' | 'fires' | 'escapes:<Exc>' | 'inconsistent'.
    spelling: positional | keyword (operands passed by parameter name) | alias (camelCase name if it exists)"""
    fn = getattr(rt, name)
    if spelling == "alias":
        fn = getattr(rt, camel(name), fn)
    clear_report()
    try:
        if name in UNARY:
            operands, extra = [a], {}
        elif name in EQUAL:
            operands, extra = [a, b], {"exact_strings": exact}
            if delta is not None:
                extra["delta"] = delta          # otherwise the assertion's own default is exercised
        elif name in OUTPUT:
            operands = [b, a] if name in ("assert_output_regex", "assert_not_output_regex") else [a, b]
            extra = {"exact_strings": exact}
        else:
            operands, extra = [a, b], {}
        if spelling == "keyword":
            fb = fn(**dict(zip(param_names(name), operands)), **extra)
        else:
            fb = fn(*operands, **extra)
        fired = bool(fb)
        listed = any(f is fb for f in MAIN_REPORT.feedback)
        ignored = any(f is fb for f in MAIN_REPORT.ignored_feedback)
    except Exception as e:
        return "escapes:" + type(e).__name__
    finally:
        clear_report()
    if fired and listed and not ignored:
        return "fires"
    if not fired and not listed:
        return "silent"
    return "inconsistent"


# --------------------------------------------------------------------------------------
# oracle: the plain Python relation on the raw values; unevaluable or error operand => does not hold

def o_norm(s):
    s = s.lower()
    s = "".join(" " if c in string.punctuation else c for c in s)
    lines = [line.split() for line in s.split("\n")]
    return sorted(line for line in lines if line)


def is_num(v):
    return isinstance(v, (bool, int, float))


class Ambiguous(Exception):
    """The property does not say what the answer is (see o_equal): the oracle abstains and only the
    assertion/negation pairing is checked."""


def _approx_same_keys(a, b, exact, delta):
    return (len(a) == len(b) and all(any(o_equal(x, y, exact, delta) for y in b) for x in a)
            and all(any(o_equal(x, y, exact, delta) for x in a) for y in b))


def o_equal(a, b, exact, delta):
    """Equality with the documented float tolerance and string normalisation, symmetric by construction.
    Raises Ambiguous for two dicts whose key sets are equal only approximately ({'A': 1} vs {'a': 1},
    {1.0004: 'x'} vs {1: 'x'}): neither the documentation nor the property says whether tolerance and
    normalisation extend to dict *keys*, so either answer is accepted there - as long as assert_equal
    and assert_not_equal do not both pass or both fail (checked separately)."""
    if is_num(a) and is_num(b):
        if isinstance(a, float) or isinstance(b, float):
            return abs(Fraction(a) - Fraction(b)) < Fraction(delta)
        return a == b
    if isinstance(a, str) and isinstance(b, str):
        return a == b if exact else o_norm(a) == o_norm(b)
    if a == b:
        return True
    if isinstance(a, list) and isinstance(b, list) or isinstance(a, tuple) and isinstance(b, tuple):
        if len(a) != len(b):
            return False
        # no short circuit: an ambiguous pair anywhere makes the whole comparison ambiguous
        return all([o_equal(x, y, exact, delta) for x, y in zip(a, b)])
    if isinstance(a, set) and isinstance(b, set):
        # approximate matching lifted to sets symmetrically: each element has a partner in the other set
        return (len(a) == len(b) and all(any(o_equal(x, y, exact, delta) for y in b) for x in a)
                and all(any(o_equal(x, y, exact, delta) for x in a) for y in b))
    if isinstance(a, dict) and isinstance(b, dict):
        if set(a.keys()) != set(b.keys()):
            if _approx_same_keys(list(a.keys()), list(b.keys()), exact, delta):
                raise Ambiguous()
            return False
        return all([o_equal(a[k], b[k], exact, delta) for k in a])
    return False


def widen(cls):
    """pedal's stated convention for assert_is_instance: int and float are interchangeable."""
    if cls is int or cls is float:
        return (int, float)
    return cls


def oracle(name, a, b=None, exact=False, delta=None, printed=None, spelling=None, failed=None):
    """Does the asserted relation hold for the RAW operands?  (=> the assertion must be silent)
    True / False, or None where the property leaves the answer open (o_equal's Ambiguous).
    `failed` (history cases): the generator's knowledge of whether the execution the left operand stands for
    ended in an error; without it a Sandbox operand is asked."""
    a, b = raw(a), raw(b)
    if isinstance(a, BaseException) or isinstance(b, BaseException):
        return False
    if failed or (failed is None and isinstance(a, rt.Sandbox) and a.exception is not None):
        return False            # an execution that ended in an error satisfies nothing
    d = DEFAULT_DELTA if delta is None else delta
    table = {
        "assert_less": lambda: a < b,
        "assert_less_equal": lambda: a <= b,
        "assert_greater": lambda: a > b,
        "assert_greater_equal": lambda: a >= b,
        "assert_in": lambda: a in b,
        "assert_not_in": lambda: a not in b,
        "assert_contains_subset": lambda: all(x in b for x in a),
        "assert_not_contains_subset": lambda: not all(x in b for x in a),
        "assert_is": lambda: a is b,
        "assert_is_not": lambda: a is not b,
        "assert_is_none": lambda: a is None,
        "assert_is_not_none": lambda: a is not None,
        "assert_true": lambda: bool(a),
        "assert_false": lambda: not bool(a),
        "assert_is_dataclass": lambda: hasattr(a, "__dataclass_fields__"),
        "assert_is_not_dataclass": lambda: not hasattr(a, "__dataclass_fields__"),
        "assert_length_equal": lambda: len(a) == b,
        "assert_length_not_equal": lambda: len(a) != b,
        "assert_length_less": lambda: len(a) < b,
        "assert_length_less_equal": lambda: len(a) <= b,
        "assert_length_greater": lambda: len(a) > b,
        "assert_length_greater_equal": lambda: len(a) >= b,
        "assert_is_instance": lambda: isinstance(a, widen(b)),
        "assert_not_is_instance": lambda: not isinstance(a, widen(b)),
        "assert_equal": lambda: o_equal(a, b, exact, d),
        "assert_not_equal": lambda: not o_equal(a, b, exact, d),
        "assert_almost_equal": lambda: o_equal(a, b, exact, d),
        "assert_not_almost_equal": lambda: not o_equal(a, b, exact, d),
        "assert_regex": lambda: re.search(a, str(b)) is not None,
        "assert_not_regex": lambda: re.search(a, str(b)) is None,
        # output assertions: `printed` is what the execution wrote (known to the generator), b the text
        "assert_output": lambda: o_equal(chomp(printed), str(b), exact, d),
        "assert_prints": lambda: o_equal(chomp(printed), str(b), exact, d),
        "assert_not_output": lambda: not o_equal(chomp(printed), str(b), exact, d),
        "assert_output_contains": lambda: (str(b) in chomp(printed)) if exact else (str(b).lower() in chomp(printed).lower()),
        "assert_not_output_contains": lambda: not ((str(b) in chomp(printed)) if exact
                                                   else (str(b).lower() in chomp(printed).lower())),
        "assert_output_regex": lambda: re.search(str(b), chomp(printed)) is not None,
        "assert_not_output_regex": lambda: re.search(str(b), chomp(printed)) is None,
    }
    try:
        return bool(table[name]())
    except Ambiguous:
        return None             # the oracle abstains (only the pairing with the negation is checked)
    except Exception:
        return False


def chomp(text):
    """the output without its final newline (what pedal documents as 'the printed output')"""
    return text[:-1] if text.endswith("\n") else text

"""
C06 boundary dimensions: SIZES and ODD TEXT.

The grammar-based generator (sandboxequiv_gen.py) writes programs a first-year student would write by hand: a
handful of frames, a handful of lines, printable ASCII plus a few accents.  Two whole dimensions of the input
space are invisible to it:

  * anything that exceeds a built-in limit constant of the code between the student's exec() and the observation
    (how deep the call stack is when the exception is raised, how many inputs are read, how many lines are printed,
    how long a line / a literal / an argument list is, on which line of a long file the error sits), and
  * text that is not "printable characters and \\n": carriage returns, the other line separators, NUL, escape
    sequences, non-BMP characters, whitespace-only and whitespace-terminated output - in every channel (print
    arguments, sep, end, sys.stdout.write, prompts, replies, globals, return values, call arguments).

The limit constants are READ FROM THE TREE UNDER TEST (every ALL-CAPS integer constant, every integer a len() is
compared with, every integer slice bound, every integer `limit=`-like keyword in pedal/sandbox/*.py and
pedal/utilities/exceptions.py), then sizes around each constant c are used: c-4 .. c+3 (the stack also holds the
sandbox's own frames and <module>, so the effective boundary is shifted by a few), c//2 +- 1, 2c, 2c+1.
The oracle for all of it is CPython itself (the differential search of c06.py).
"""
import ast
import glob
import os

from common import REPO

SCAN = ["pedal/sandbox/*.py", "pedal/utilities/exceptions.py"]
GENERIC = [16, 64]          # always visited, whatever the tree says ("deep/long/many" variants)
MAX_DEPTH = 260             # call-chain depth (CPython's own recursion limit is 1000; the sandbox adds frames)
MAX_COUNT = 420             # lines / items / characters
BIG_DEPTHS = [300, 500, 800]
BIG_LENGTHS = [1000, 4097, 8193, 65537, 100001]
BIG_LINES = [1000, 1025, 5000]


def limit_constants(repo=REPO):
    """-> {value: [where...]} integer limit constants (2..400) found in the anchored code of the tree under test."""
    found = {}

    def add(v, where):
        if type(v) is int and 2 <= abs(v) <= 400:
            found.setdefault(abs(v), []).append(where)
    for pat in SCAN:
        for path in sorted(glob.glob(os.path.join(repo, pat))):
            rel = os.path.relpath(path, repo)
            try:
                with open(path, encoding="utf-8") as fh:
                    tree = ast.parse(fh.read())
            except (OSError, SyntaxError):
                continue
            for n in ast.walk(tree):
                if isinstance(n, (ast.Assign, ast.AnnAssign)):
                    targets = n.targets if isinstance(n, ast.Assign) else [n.target]
                    v = n.value
                    if isinstance(v, ast.Constant):
                        for t in targets:
                            name = t.id if isinstance(t, ast.Name) else (t.attr if isinstance(t, ast.Attribute) else None)
                            if name and name.isupper():
                                add(v.value, "%s:%s" % (rel, name))
                elif isinstance(n, ast.Compare):
                    sides = [n.left] + list(n.comparators)
                    has_len = any(isinstance(c, ast.Call) and isinstance(c.func, ast.Name) and c.func.id == "len"
                                  for s in sides for c in ast.walk(s))
                    if has_len:
                        for s in sides:
                            if isinstance(s, ast.Constant):
                                add(s.value, "%s:%d:len-compare" % (rel, n.lineno))
                elif isinstance(n, ast.Slice):
                    for s in (n.lower, n.upper):
                        if isinstance(s, ast.UnaryOp):
                            s = s.operand
                        if isinstance(s, ast.Constant):
                            add(s.value, "%s:slice" % rel)
                elif isinstance(n, ast.keyword) and n.arg in ("limit", "maxsplit", "width", "maxlen", "depth", "count") \
                        and isinstance(n.value, ast.Constant):
                    add(n.value.value, "%s:%s=" % (rel, n.arg))
    return found


def boundary_sizes(consts, cap):
    """-> {size: tag}: sizes around every constant (and its half and double), within 1..cap."""
    out = {}
    for c in sorted(set(consts) | set(GENERIC)):
        near = list(range(c - 4, c + 4)) if c <= 40 else list(range(c - 2, c + 3))
        for v, tag in [(x, "c%d%+d" % (c, x - c)) for x in near] + \
                      [(c // 2 - 1, "c%d/2-1" % c), (c // 2, "c%d/2" % c), (c // 2 + 1, "c%d/2+1" % c),
                       (2 * c, "2c%d" % c), (2 * c + 1, "2c%d+1" % c)]:
            if 1 <= v <= cap:
                out.setdefault(v, tag)
    return out


# --------------------------------------------------------------------------
# depth: the exception is raised (or the value is produced) at the bottom of a call chain of n student frames

def t_recursive_sum(n):
    return ("def total(values, i):\n"
            "    if i == len(values):\n"
            "        return values[i]\n"
            "    return values[i] + total(values, i + 1)\n"
            "data = list(range(%d))\n"
            "print(total(data, 0))\n" % (n - 1)), []


def t_countdown(n):
    return ("def countdown(n):\n"
            "    print(n)\n"
            "    if n == 0:\n"
            "        return 10 // n\n"
            "    rest = countdown(n - 1)\n"
            "    return rest + 1\n"
            "countdown(%d)\n" % (n - 1)), []


def t_chain(n):
    lines = []
    for i in range(n - 1):
        lines += ["def step%d(x):" % i, "    y = x + 1", "    return step%d(y)" % (i + 1)]
    lines += ["def step%d(x):" % (n - 1), "    table = {'a': x}", "    return table['missing']", "print(step0(0))"]
    return "\n".join(lines) + "\n", []


def t_method(n):
    return ("class Node:\n"
            "    def __init__(self, depth):\n"
            "        self.depth = depth\n"
            "        self.child = None\n"
            "    def size(self):\n"
            "        if self.child is None:\n"
            "            return self.depth + self.missing\n"
            "        return 1 + self.child.size()\n"
            "root = Node(0)\n"
            "cur = root\n"
            "for d in range(1, %d):\n"
            "    cur.child = Node(d)\n"
            "    cur = cur.child\n"
            "print(root.size())\n" % n), []


def t_mutual(n):
    return ("def is_even(n):\n"
            "    if n == 0:\n"
            "        return int('even')\n"
            "    return is_odd(n - 1)\n"
            "def is_odd(n):\n"
            "    if n == 0:\n"
            "        return int('odd')\n"
            "    return is_even(n - 1)\n"
            "answer = is_even(%d)\n" % (n - 1)), []


def t_reraise(n):
    k = max(1, n // 2)
    return ("def down(n):\n"
            "    if n == 0:\n"
            "        raise ValueError('bottom')\n"
            "    try:\n"
            "        return down(n - 1)\n"
            "    except ValueError:\n"
            "        if n == %d:\n"
            "            raise KeyError('middle')\n"
            "        raise\n"
            "    except KeyError as err:\n"
            "        raise\n"
            "down(%d)\n" % (k, n - 1)), []


def t_chained_exceptions(n):
    return ("def wrap(n):\n"
            "    if n == 0:\n"
            "        return [][0]\n"
            "    try:\n"
            "        return wrap(n - 1)\n"
            "    except Exception as err:\n"
            "        raise RuntimeError('level %%d' %% n) from err\n"
            "wrap(%d)\n" % (n - 1)), []


def t_generator(n):
    return ("def walk(n):\n"
            "    if n == 0:\n"
            "        yield 1 // n\n"
            "    else:\n"
            "        yield n\n"
            "        yield from walk(n - 1)\n"
            "seen = []\n"
            "for v in walk(%d):\n"
            "    seen.append(v)\n" % (n - 1)), []


def t_callback(n):
    return ("def pick(values, depth):\n"
            "    if depth == 0:\n"
            "        return sorted(values, key=lambda v: 1 / v)\n"
            "    return [pick(values, depth - 1)][0]\n"
            "best = pick([3, 0, 2], %d)\n" % max(0, n - 2)), []


def t_deep_ok(n):
    """no error: the value comes from the bottom of the chain; an error at top level afterwards"""
    return ("def depth(n):\n"
            "    if n == 0:\n"
            "        return 0\n"
            "    return 1 + depth(n - 1)\n"
            "reached = depth(%d)\n"
            "print('reached', reached)\n"
            "try:\n"
            "    depth('x')\n"
            "except TypeError as err:\n"
            "    print('caught', type(err).__name__)\n"
            "last = [reached][1]\n" % (n - 1)), []


def t_call_depth(n):
    """the program only defines; the failure is inside follow-up calls at depth n (and a shallow / a working one)"""
    code = ("def total(values, i):\n"
            "    if i == len(values):\n"
            "        return values[i]\n"
            "    return values[i] + total(values, i + 1)\n"
            "def depth(n):\n"
            "    if n == 0:\n"
            "        return 0\n"
            "    return 1 + depth(n - 1)\n"
            "class Walker:\n"
            "    def go(self, n):\n"
            "        if n <= 0:\n"
            "            return {}['bottom']\n"
            "        return self.go(n - 1)\n"
            "def walk(n):\n"
            "    return Walker().go(n)\n")
    calls = [{"fn": "total", "args": ["list(range(%d))" % (n - 1), "0"], "kwargs": {}},
             {"fn": "depth", "args": [str(n)], "kwargs": {}},
             {"fn": "walk", "args": [str(max(0, n - 2))], "kwargs": {}, "target": "res"},
             {"fn": "total", "args": ["[5, 6]", "0"], "kwargs": {}}]
    return code, calls


DEPTH_TEMPLATES = [("recursive-sum", t_recursive_sum), ("countdown", t_countdown), ("chain", t_chain),
                   ("method", t_method), ("mutual", t_mutual), ("reraise", t_reraise),
                   ("chained-exceptions", t_chained_exceptions), ("generator", t_generator),
                   ("callback", t_callback), ("deep-ok", t_deep_ok), ("call-depth", t_call_depth)]


# --------------------------------------------------------------------------
# counts and lengths

def c_many_inputs(n):
    return ("total = 0\n"
            "for i in range(%d):\n"
            "    total += int(input())\n"
            "print(total)\n" % n), [], [str(i % 7) for i in range(n)]


def c_many_prompted_inputs(n):
    return ("names = []\n"
            "while len(names) < %d:\n"
            "    names.append(input('Name %%d? ' %% len(names)))\n"
            "print(len(names), names[-1])\n" % n), [], ["n%d" % i for i in range(n)]


def c_many_lines(n):
    return "for i in range(%d):\n    print('row', i)\n" % n, [], []


def c_long_line(n):
    return ("import sys\n"
            "print('x' * %d)\n"
            "sys.stdout.write('ab' * %d)\n"
            "word = 'w' * %d\n" % (n, n, n)), [], []


def c_long_prompt(n):
    return "reply = input('p' * %d)\nprint(reply)\n" % n, [], ["r" * n]


def c_error_at_line(n):
    lines = ["v = 0"] + ["v = v + 1"] * max(0, n - 2) + ["boom = v // 0"]
    return "\n".join(lines) + "\n", [], []


def c_error_in_function_at_line(n):
    lines = ["def late():"] + ["    v = 1"] * max(0, n - 2) + ["    return v.missing", "late()"]
    return "\n".join(lines) + "\n", [], []


def c_many_globals(n):
    return "".join("g%d = %d\n" % (i, i) for i in range(n)) + "print(g%d)\n" % (n - 1), [], []


def c_many_args(n):
    code = "def count(*a, **k):\n    return (len(a), sorted(k)[:2], a[-1] if a else None)\n"
    calls = [{"fn": "count", "args": [str(i) for i in range(n)], "kwargs": {}},
             {"fn": "count", "args": [], "kwargs": {"k%d" % i: "'v'" for i in range(min(n, 60))}},
             {"fn": "count", "args": ["list(range(%d))" % n, "'s' * %d" % n, "{'k': 'v' * %d}" % n], "kwargs": {}},
             {"fn": "count", "args": ["'q' * %d" % max(0, n - 2), "'q' * %d" % max(0, n - 1)], "kwargs": {}}]
    return code, calls, []


def c_nested_value(n):
    n = min(n, 60)
    code = ("def nest(n):\n"
            "    v = []\n"
            "    for _ in range(n):\n"
            "        v = [v]\n"
            "    return v\n"
            "def depth_of(v):\n"
            "    d = 0\n"
            "    while v:\n"
            "        v = v[0]\n"
            "        d += 1\n"
            "    return d\n"
            "deep = nest(%d)\n"
            "print(depth_of(deep))\n" % n)
    calls = [{"fn": "nest", "args": [str(n)], "kwargs": {}},
             {"fn": "depth_of", "args": ["[" * n + "]" * n], "kwargs": {}}]
    return code, calls, []


def c_many_calls(n):
    n = min(n, 40)
    code = "log = []\ndef note(x, tag='t'):\n    log.append(x)\n    return len(log)\n"
    calls = [{"fn": "note", "args": ["'a' * %d" % (195 + i % 10) if i % 3 == 0 else str(i)], "kwargs": {}}
             for i in range(n)]
    return code, calls, []


COUNT_TEMPLATES = [("many-inputs", c_many_inputs), ("many-prompted-inputs", c_many_prompted_inputs),
                   ("many-lines", c_many_lines), ("long-line", c_long_line), ("long-prompt", c_long_prompt),
                   ("error-at-line", c_error_at_line), ("error-in-function-at-line", c_error_in_function_at_line),
                   ("many-globals", c_many_globals), ("many-args", c_many_args), ("nested-value", c_nested_value),
                   ("many-calls", c_many_calls)]


# --------------------------------------------------------------------------
# odd text (python string-literal bodies: the escape sequence is written in the source, CPython makes the character)

ODD = [
    ("cr", "\\r"), ("crlf", "\\r\\n"), ("lfcr", "\\n\\r"), ("cr-inside", "a\\rb"), ("crcr", "\\r\\r"),
    ("vt", "\\x0b"), ("ff", "\\x0c"), ("fs", "\\x1c"), ("gs", "\\x1d"), ("rs", "\\x1e"), ("nel", "\\x85"),
    ("ls", "\\u2028"), ("ps", "\\u2029"), ("nul", "\\x00"), ("bs", "\\x08"), ("esc", "\\x1b[31mred\\x1b[0m"),
    ("del", "\\x7f"), ("tab", "\\t"), ("bom", "\\ufeff"), ("emoji", "\\U0001F600"), ("combining", "e\\u0301"),
    ("nbsp", "\\xa0"), ("zwsp", "\\u200b"), ("backslash", "\\\\"), ("quotes", "\\'\\\""), ("percent", "%s %d {}"),
    ("spaces", "   "), ("trailing-space-nl", " \\n"), ("blank-lines", "\\n\\n\\n"), ("nl-space", "\\n "),
    ("bell", "\\x07"), ("rtl", "\\u202e"), ("wide", "\\uff21"),
]
# replies come from stdin: a line cannot contain \n, and `python file.py` reads stdin with universal newlines (a \r
# would end the line there too), so neither appears in a reply; NUL is left out (C-level input paths differ)
ODD_REPLY = [(t, s) for t, s in ODD if not any(x in s for x in ("\\r", "\\n", "\\x00"))]


def o_end(s):
    return ("for i in range(3):\n"
            "    print('Progress', i, end='%s')\n"
            "print()\n"
            "print('finished')\n" % s), [], []


def o_sep(s):
    return "print('a', 'b', 'c', sep='%s')\nprint(1, 2, sep='%s', end='%s')\n" % (s, s, s), [], []


def o_literal(s):
    return ("line = 'name,score%s'\n"
            "print(line, end='')\n"
            "print(len(line))\n"
            "rows = [line, line * 2]\n" % s), [], []


def o_write(s):
    return ("import sys\n"
            "count = sys.stdout.write('x%sy')\n"
            "sys.stdout.writelines(['%s', 'z%s'])\n"
            "sys.stdout.flush()\n" % (s, s, s)), [], []


def o_only(s):
    return "print('%s')\n" % s, [], []


def o_only_no_newline(s):
    return "print('%s', end='')\n" % s, [], []


def o_leading_trailing(s):
    return "print('%sstart')\nprint('middle')\nprint('end%s', end='%s')\n" % (s, s, s), [], []


def o_prompt(s):
    return "name = input('Name%s')\nprint('Hello', name)\nage = input('%s')\n" % (s, s), [], ["Ada", "7"]


def o_format(s):
    return ("text = '%s'\n"
            "print(f'[{text}]', '<%%s>' %% text, '{}'.format(text), text.center(5, '.'), sep='|')\n"
            "print(repr(text), [text], {'k': text})\n" % s), [], []


def o_function(s):
    code = ("def echo(x, suffix='%s'):\n"
            "    print(x, end=suffix)\n"
            "    return x + suffix\n"
            "shown = echo('top')\n" % s)
    calls = [{"fn": "echo", "args": ["'arg'"], "kwargs": {}},
             {"fn": "echo", "args": ["'%s'" % s], "kwargs": {"suffix": "'%s!'" % s}},
             {"fn": "echo", "args": ["'%s' * 120" % s], "kwargs": {}, "target": "res"}]
    return code, calls, []


def o_error_after(s):
    return "print('before%s', end='')\nboom = int('%s')\n" % (s, s), [], []


def o_reply(s):
    return "word = input('Word? ')\nprint(word, len(word))\nprint(word.split())\n", [], [None]   # reply filled in


ODD_TEMPLATES = [("end", o_end), ("sep", o_sep), ("literal", o_literal), ("write", o_write), ("only", o_only),
                 ("only-no-newline", o_only_no_newline), ("leading-trailing", o_leading_trailing),
                 ("prompt", o_prompt), ("format", o_format), ("function", o_function), ("error-after", o_error_after)]


# --------------------------------------------------------------------------

def mk(code, calls, inputs, shape, rng=None, filename=None):
    api = rng.choice(["commands", "sandbox"]) if rng is not None else "commands"
    if filename is None:
        filename = rng.choice(["answer.py", "answer.py", "student.py", "hw 1.py"]) if rng is not None else "answer.py"
    return {"code": code, "filename": filename, "inputs": list(inputs), "calls": calls, "api": api, "shape": [shape]}


def limit_cases(rng, tier, consts=None):
    """-> (cases, info).  Deterministic sweep in thorough; in quick every (template, size-class) is still visited
    but sizes far from the small constants are sampled."""
    consts = limit_constants() if consts is None else consts
    depths = boundary_sizes(consts, MAX_DEPTH)
    counts = boundary_sizes(consts, MAX_COUNT)
    cases = []
    small = lambda sizes: [n for n in sorted(sizes) if n <= 45]       # noqa: E731
    large = lambda sizes: [n for n in sorted(sizes) if n > 45]        # noqa: E731

    def pick(sizes, k_small, k_large):
        if tier != "quick":
            return sorted(sizes)
        s, l = small(sizes), large(sizes)
        return sorted(rng.sample(s, min(len(s), k_small)) + rng.sample(l, min(len(l), k_large)))
    for name, fn in DEPTH_TEMPLATES:
        for n in pick(depths, 20, 4):
            if n < 2:
                continue
            code, calls = fn(n)
            cases.append(mk(code, calls, [], "limit:depth:%s:%d(%s)" % (name, n, depths[n]), rng))
    # far beyond any constant of the tree, well inside what CPython itself allows (powers of two and of ten a
    # buffer or a cut-off would plausibly use; recursion stays clear of CPython's default limit of 1000, the sandbox's own frames included)
    for name, fn, sizes in [("deep-ok", t_deep_ok, BIG_DEPTHS), ("recursive-sum", t_recursive_sum, BIG_DEPTHS),
                            ("call-depth", t_call_depth, BIG_DEPTHS)]:
        for n in (sizes if tier != "quick" or name == "deep-ok" else [rng.choice(sizes)]):
            code, calls = fn(n)
            cases.append(mk(code, calls, [], "limit:depth:%s:%d(big)" % (name, n), rng))
    for name, fn, sizes in [("long-line", c_long_line, BIG_LENGTHS), ("many-lines", c_many_lines, BIG_LINES),
                            ("error-at-line", c_error_at_line, BIG_LINES), ("many-inputs", c_many_inputs, BIG_LINES[:2])]:
        for n in (sizes if tier != "quick" or name == "long-line" else [rng.choice(sizes)]):
            code, calls, inputs = fn(n)
            cases.append(mk(code, calls, inputs, "limit:count:%s:%d(big)" % (name, n), rng))
    for name, fn in COUNT_TEMPLATES:
        for n in pick(counts, 8, 3):
            code, calls, inputs = fn(n)
            cases.append(mk(code, calls, inputs, "limit:count:%s:%d(%s)" % (name, n, counts[n]), rng))
    for name, fn in ODD_TEMPLATES:
        pool = ODD if tier != "quick" else ODD[:6] + rng.sample(ODD[6:], 16)
        for tag, s in pool:
            code, calls, inputs = fn(s)
            cases.append(mk(code, calls, inputs, "odd:%s:%s" % (name, tag), rng))
    env = {"__builtins__": {}}
    for tag, s in (ODD_REPLY if tier != "quick" else rng.sample(ODD_REPLY, 12)):
        code, calls, _ = o_reply(s)
        reply = eval("'x%sy%s'" % (s, s), env)
        cases.append(mk(code, calls, [reply], "odd:reply:%s" % tag, rng))
    info = {"constants_read_from_tree": {str(k): sorted(set(v))[:3] for k, v in sorted(consts.items())},
            "depths": len(depths), "counts": len(counts), "cases": len(cases)}
    return cases, info

"""C10 — every CAIT match is a genuine embedding of the pattern in the student's code."""
import sys

import cait_check as ck
from common import run_check

THEOREMS = [
    "Pedal.Cait.c10_match_is_embedding",
    "Pedal.Cait.c10_absent_content_no_match",
    "Pedal.Cait.deep_good",
    "Pedal.Cait.shallowMatch_good",
    "Pedal.Cait.confInv_merged",
    "Pedal.Cait.required_of_embAt",
]
NOTES = [
    "the theorems are about the Lean port `findMatches` of find_matches(pattern, code) (check_meta=True, "
    "use_previous=None) over abstract trees; that the real matcher equals the port is SAMPLED by the "
    "correspondence on every run, not proved; the embedding checker `checkMatch` the theorem is about is the very "
    "function the driver evaluates on every match the REAL code returns (incl. find_match, CaitNode.find_matches "
    "and sub-matches with use_previous, which the port does not model)",
    "the embedding notion does not look at AST field names of the partners (kind, plain content, child-of-partner, "
    "order, bindings only — DESIGN §4 C10): below a + or * the matcher compares no field and 'x[1:] + 0' matches "
    "'x[:1] + 0'; that is an embedding in C10's sense (its consequence for C11 is an open C11 finding)",
    "equal content = plain field values equal as Python values of the same type, identifier lists equal as lists; "
    "Fields called ctx / args hold no plain values in CPython's grammar and are not content",
    "report state between calls (the parse cache, cait['ast'] / cait['success'], the Source tool's tree, the "
    "submission replaced by set_source / restore_code) is not modelled: the search asks its questions also as steps of "
    "random and small-scope exhaustive HISTORIES on one report and judges every answer against a fresh ast.parse of the "
    "text that step asked about (the harness keeps its own record of what the submission is)",
    "pattern trees satisfy opLeaves (Add/Mult operator nodes are leaves): true of every ast tree, checked by the "
    "driver on every request",
    "continued matches (use_previous) are not in the port: the search runs them on the real code only and reads "
    "'bound to a single student identifier throughout the match' for the continued match TOGETHER with the match it "
    "continues - the inherited AstMap's symbol tables are added to the returned map's before checkMatch, whether or "
    "not the matcher copied them",
]

if __name__ == "__main__":
    sys.exit(run_check("C10", proof_modules=["PedalProofs.C10"], theorems=THEOREMS, driver_exe="driver_c10",
                       correspond=ck.correspond("C10"), search=ck.search_c10, replay=ck.replay,
                       model_notes=NOTES, unproved_full=[], leanchecker_modules=["PedalProofs.C10"]))

"""C10 — every CAIT match is a genuine embedding of the pattern in the student's code."""
import sys

import cait_check as ck
from common import run_check

THEOREMS = [
    "Pedal.Cait.c10_match_is_embedding",
    "Pedal.Cait.c10_absent_content_no_match",
    "Pedal.Cait.deep_good",
    "Pedal.Cait.shallowMatch_good",
    "Pedal.Cait.confInv_merged",
    "Pedal.Cait.required_of_embAt",
]
NOTES = [
]

if __name__ == "__main__":
    sys.exit(run_check("C10", proof_modules=["PedalProofs.C10"], theorems=THEOREMS, driver_exe="driver_c10",
                       correspond=ck.correspond("C10"), search=ck.search_c10, replay=ck.replay,
                       model_notes=NOTES, unproved_full=[], leanchecker_modules=["PedalProofs.C10"]))

"""C03 — the final score follows the documented valence/trigger arithmetic."""
import sys
from fractions import Fraction

from common import enc_str, parse_kv
import resolver_check as rk
import resolver_common as rc
from pedal.core.scoring import Score

THEOREMS = [
    "Pedal.Resolver.c03_score_formula",
    "Pedal.Resolver.c03_default_score",
    "Pedal.Resolver.c03_muted_still_scores",
    "Pedal.Resolver.modelContribution_eq_spec",
    "Pedal.Resolver.parseScore_bang",
    "Pedal.Resolver.combineList_perm",
]
NOTES = [
    "score arithmetic is exact in millionths; Python's float summation and round(total, 2) are trusted to agree "
    "with exact rounding for totals that are not exactly half-way between two hundredths (ties are answered "
    "'tie' by the model and not compared); generated reports have <= 5 scored items with <= 4 decimals",
    "operators * and / and exponent notation are outside the property's grammar: the model answers 'unmodelled' "
    "and the malformed stream only checks that model and code agree on raise / no raise",
    "SCORE_PATTERN is hand-modelled (parseScore) and compared with Score.parse on its own string stream",
]

ALPH = "0123456789..%+-!*/ ex"


def score_strings(rng, n):
    out = ["+10%", "10%", "-10%", ".5", "5.", "1.2.3", ".", "", "!", "!!5", "!-5%", "+", "5%%", "5 %", "1e3", "٣"]
    for _ in range(n):
        k = rng.randint(0, 7)
        out.append("".join(rng.choice(ALPH) for _ in range(k)))
    for _ in range(n):
        s = rng.choice(["", "!", "!!", "!!!"]) + rng.choice(["", "+", "-", "*", "/"])
        s += rng.choice(["5", "0.25", ".5", "12.5", "100", "0", "7.", "1.2.3", ".", "..", ""])
        s += rng.choice(["", "%", "%%", " pts", "%x"])
        out.append(s)
    return out


def extra_corr(rng, tier, driver, res):
    """Score.parse vs Pedal.Resolver.parseScore on a stream of raw strings."""
    strs = score_strings(rng, 3000 if tier == "quick" else 8000)
    strs = [s for s in strs if all(ord(c) < 128 for c in s)]   # str.isdigit vs ASCII digits: ASCII only
    answers = driver.ask(["score " + enc_str(s) for s in strs])
    for s, a in zip(strs, answers):
        res.evaluations += 1
        try:
            sc = Score.parse(s)
            real = {"invert": sc.invert, "op": sc.operator or "+", "value": Fraction(str(sc.value)) if sc.value == sc.value else None}
        except ValueError:
            real = "err"
        head, kv = parse_kv(a)
        if head == "err":
            model = "err"
        else:
            op = {"plus": "+", "minus": "-", "times": "*", "divide": "/"}[kv["op"].split(".")[-1]]
            model = {"invert": kv["invert"] == "1", "op": op, "value": Fraction(int(kv["mant"]), 10 ** int(kv["dec"]))}
        res.count("scoreparse:" + ("err" if real == "err" else "ok"))
        ok = (real == "err") == (model == "err")
        if ok and real != "err":
            ok = (real["invert"] == model["invert"] and real["op"] == model["op"]
                  and abs(float(real["value"]) - float(model["value"])) <= 1e-12 * max(1.0, float(model["value"])))
        if not ok:
            res.disagreements.append({"case": {"score_string": s}, "real": str(real), "model": str(model),
                                      "fields": ["score-parse"], "request": "score " + enc_str(s)})


if __name__ == "__main__":
    sys.exit(rk.make("C03", rc.oracle_c03, THEOREMS, model_notes=NOTES, gen_kwargs={"score_rate": 0.8},
                     extra_corr=extra_corr)())

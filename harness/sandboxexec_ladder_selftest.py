"""
Self-test of harness/sandboxexec_ladder.py + translate_sandbox.walk_import:

    /venv/bin/python harness/sandboxexec_ladder_selftest.py [--lean] [-v]

Variants of pedal/sandbox/sandbox.py of the tree under test are made by text substitution, loaded as a module of their
own (nothing on disk in the tree is touched), read AND measured, and the resulting ladder is judged by a Python mirror
of the Lean checks (`checkC04`, `checkC05`, `ExecuteDef.wellFormed`, "a BaseException that is neither Exception nor
SystemExit propagates").  HARMLESS variants (behaviour-preserving rewrites of `_execute` / `_import`) must pass every
check; BROKEN variants (a handler that no longer stops the mocking, swallows BaseException, records before restoring,
catches fewer / more classes, an `_import` that handles or unpatches ...) must fail at least one.
`--lean` writes the ladders to a scratch Lean file and evaluates the real `checkC04` / `checkC05` / `wellFormed` /
`plan` on them (`lake env lean`), and compares the verdicts with the mirror's - this also tests the mirror
(`sandboxexec_ladder.simulate`) against `planTry`.
"""
import ast
import itertools
import os
import subprocess
import sys
import tempfile
import types

sys.path.insert(0, os.path.dirname(os.path.abspath(__file__)))
from common import LEAN_DIR, use_repo                       # noqa: E402
use_repo()
import sandboxexec_ladder as ladder                         # noqa: E402
import translate_sandbox as ts                              # noqa: E402


OLD_HANDLERS = '''        except Exception as user_exception:
            self._stop_mocking(context)
            self._capture_exception(user_exception, sys.exc_info(),
                                    code, filename)
        # NOTE: https://docs.python.org/3/library/exceptions.html#SystemExit
        # This exception does not inherit from Exception and has to be caught separately
        except SystemExit as system_exit:
            self._stop_mocking(context)
            self._capture_exception(system_exit, sys.exc_info(),
                                    code, filename)
'''
OLD_BASE = '''        except BaseException:
            # KeyboardInterrupt, GeneratorExit and other non-Exception classes
            # are not ours to report, but the patches must not outlive the call
            self._stop_mocking(context)
            self._next_context_id += 1
            raise
'''
OLD_ELSE = '''        else:
            self._stop_mocking(context)
'''
OLD_TAIL = '''
        self._next_context_id += 1
        return self

    def run('''
OLD_BODY = '''            compiled_code = compile(code, filename, 'exec')
            with self.trace.as_filename(filename, code):
                exec(compiled_code, self.data)
        except Exception as user_exception:'''
OLD_IMPORT_EXEC = '''        compiled_code = compile(code, filename, 'exec')
        with self.trace.as_filename(filename, code):
            exec(compiled_code, imported_module_data)
'''
OLD_THREADED = '''        if threaded:
            return self._execute_with_timeout(code, filename, kind, **meta)

        self.clear_exception()
'''
NEW_METHOD_ANCHOR = "    def run(self, code=None, filename=None, inputs=None, threaded=None,"


def sub(src, old, new, count=1):
    assert src.count(old) >= 1, "variant text not found: %r" % old[:60]
    return src.replace(old, new, count)


def merged(header, body):
    return lambda s: sub(s, OLD_HANDLERS, "        %s\n%s" % (header, body))


STOP_CAPTURE = '''            self._stop_mocking(context)
            self._capture_exception(%s, sys.exc_info(),
                                    code, filename)
'''

HARMLESS = {}
BROKEN = {}


def harmless(f):
    HARMLESS[f.__name__] = f
    return f


def broken(f):
    BROKEN[f.__name__] = f
    return f


@harmless
def unchanged(s):
    return s


@harmless
def merged_inline_tuple(s):
    return merged("except (Exception, SystemExit) as raised:", STOP_CAPTURE % "raised")(s)


@harmless
def merged_exc_info_local(s):
    return merged("except (Exception, SystemExit) as reportable_exception:", '''            self._stop_mocking(context)
            failure_info = sys.exc_info()
            self._capture_exception(reportable_exception, failure_info,
                                    code, filename)
''')(s)


@harmless
def class_constant_and_helper(s):
    s = merged("except self._CONTAINED_FAILURES as student_failure:",
               "            self._contain_failure(student_failure, context, code, filename)\n")(s)
    return sub(s, NEW_METHOD_ANCHOR, '''    _CONTAINED_FAILURES = (Exception, SystemExit)

    def _contain_failure(self, failure, context, code, filename):
        self._stop_mocking(context)
        failure_info = sys.exc_info()
        self._capture_exception(failure, failure_info, code, filename)

''' + NEW_METHOD_ANCHOR)


@harmless
def class_constant_via_type_self(s):
    s = merged("except type(self)._CONTAINED as e:", STOP_CAPTURE % "e")(s)
    return sub(s, NEW_METHOD_ANCHOR, "    _CONTAINED = (Exception,) + (SystemExit,)\n\n" + NEW_METHOD_ANCHOR)


@harmless
def module_constant(s):
    s = merged("except _REPORTED_ENDINGS as e:", STOP_CAPTURE % "e")(s)
    return sub(s, "class Sandbox:", "_REPORTED_ENDINGS = (Exception, SystemExit)\n\n\nclass Sandbox:")


@harmless
def local_tuple(s):
    s = merged("except contained as e:", STOP_CAPTURE % "e")(s)
    return sub(s, "        self.clear_exception()\n\n        context = SandboxContext(",
               "        self.clear_exception()\n        contained = (Exception, SystemExit)\n\n"
               "        context = SandboxContext(")


@harmless
def redundant_subclass_in_tuple(s):
    return merged("except (Exception, SystemExit, ValueError) as e:", STOP_CAPTURE % "e")(s)


@harmless
def exc_info_instead_of_name(s):
    return merged("except (Exception, SystemExit):", '''            self._stop_mocking(context)
            info = sys.exc_info()
            self._capture_exception(info[1], info, code, filename)
''')(s)


@harmless
def base_handler_statements_swapped(s):
    return sub(s, "            self._stop_mocking(context)\n            self._next_context_id += 1\n            raise\n",
               "            self._next_context_id += 1\n            self._stop_mocking(context)\n            raise\n")


@harmless
def pre_statements_swapped(s):
    return sub(s, '''        self._start_mocking(context)
        self.data['__name__'] = "__main__"
''', '''        self.data['__name__'] = "__main__"
        self._start_mocking(context)
''')


@harmless
def bump_in_finally(s):
    s = sub(s, "            self._stop_mocking(context)\n            self._next_context_id += 1\n            raise\n",
            "            self._stop_mocking(context)\n            raise\n")
    s = sub(s, OLD_ELSE + OLD_TAIL, OLD_ELSE + '''        finally:
            self._next_context_id += 1
        return self

    def run(''')
    return s


@harmless
def bump_written_out(s):
    return sub(s, OLD_TAIL, '''
        self._next_context_id = self._next_context_id + 1
        return self

    def run(''')


@harmless
def isinstance_dispatch(s):
    s = sub(s, OLD_HANDLERS, "")
    return sub(s, OLD_BASE, '''        except BaseException as ending:
            if isinstance(ending, (Exception, SystemExit)):
                self._stop_mocking(context)
                self._capture_exception(ending, sys.exc_info(), code, filename)
            else:
                self._stop_mocking(context)
                self._next_context_id += 1
                raise
''')


@harmless
def isinstance_dispatch_hoisted_negated(s):
    s = sub(s, OLD_HANDLERS, "")
    return sub(s, OLD_BASE, '''        except BaseException as ending:
            self._stop_mocking(context)
            if not (isinstance(ending, Exception) or isinstance(ending, SystemExit)):
                self._next_context_id += 1
                raise
            self._capture_exception(ending, sys.exc_info(), code, filename)
''')


@harmless
def isinstance_elif_chain(s):
    s = sub(s, OLD_HANDLERS, "")
    return sub(s, OLD_BASE, '''        except:
            ending = sys.exc_info()[1]
            self._stop_mocking(context)
            if isinstance(ending, Exception):
                self._capture_exception(ending, sys.exc_info(), code, filename)
            elif isinstance(ending, SystemExit):
                self._capture_exception(ending, sys.exc_info(), code, filename)
            else:
                self._next_context_id += 1
                raise
''')


def _plain_helper(s, dispatch):
    a = s.index("        self.clear_exception()\n\n        context = SandboxContext(")
    b = s.index("    def run(self, code=None")
    body = s[a:b]
    head = s[:a]
    head = sub(head, '''        if threaded:
            return self._execute_with_timeout(code, filename, kind, **meta)

''', dispatch)
    return head + "\n    def _execute_plain(self, code, filename, kind, **meta):\n" + body + s[b:]


@harmless
def whole_ladder_in_helper(s):
    return _plain_helper(s, '''        if threaded:
            return self._execute_with_timeout(code, filename, kind, **meta)
        return self._execute_plain(code, filename, kind, **meta)
''')


@harmless
def if_not_threaded_first(s):
    return _plain_helper(s, '''        if not threaded:
            return self._execute_plain(code, filename, kind, **meta)
        else:
            return self._execute_with_timeout(code, filename, kind, **meta)
''')


@harmless
def conditional_expression_dispatch(s):
    return _plain_helper(s, '''        runner = self._execute_with_timeout if threaded else self._execute_plain
        return runner(code, filename, kind, **meta)
''')


@harmless
def traced_exec_helper_shared_with_import(s):
    s = sub(s, '''            compiled_code = compile(code, filename, 'exec')
            with self.trace.as_filename(filename, code):
                exec(compiled_code, self.data)
''', "            self._run_traced(code, filename, self.data)\n")
    s = sub(s, OLD_IMPORT_EXEC, "        self._run_traced(code, filename, imported_module_data)\n")
    return sub(s, NEW_METHOD_ANCHOR, '''    def _run_traced(self, code, filename, namespace):
        compiled_code = compile(code, filename, 'exec')
        with self.trace.as_filename(filename, code):
            exec(compiled_code, namespace)

''' + NEW_METHOD_ANCHOR)


@harmless
def tracer_context_in_local(s):
    return sub(s, '''            with self.trace.as_filename(filename, code):
                exec(compiled_code, self.data)
        except Exception''', '''            tracing = self.trace.as_filename(filename, code)
            namespace = self.data
            with tracing:
                exec(compiled_code, namespace)
        except Exception''')


@harmless
def bound_method_alias(s):
    s = sub(s, "        self._start_mocking(context)\n", "        self._start_mocking(context)\n"
            "        finish = self._stop_mocking\n")
    a = s.index("        try:\n            # TODO: Support CaitNode")
    b = s.index("    def run(self, code=None")
    return s[:a] + s[a:b].replace("self._stop_mocking(context)", "finish(context)") + s[b:]


@harmless
def local_closure(s):
    s = sub(s, "        self._start_mocking(context)\n", "        self._start_mocking(context)\n\n"
            "        def finish():\n            self._stop_mocking(context)\n\n")
    a = s.index("        try:\n            # TODO: Support CaitNode")
    b = s.index("    def run(self, code=None")
    return s[:a] + s[a:b].replace("self._stop_mocking(context)", "finish()") + s[b:]


@harmless
def local_lambda(s):
    s = sub(s, "        self._start_mocking(context)\n", "        self._start_mocking(context)\n"
            "        record = lambda failure: self._capture_exception(failure, sys.exc_info(), code, filename)\n")
    s = sub(s, """            self._capture_exception(user_exception, sys.exc_info(),
                                    code, filename)
""", "            record(user_exception)\n")
    return s


@harmless
def class_qualified_call(s):
    return sub(s, OLD_ELSE, "        else:\n            Sandbox._stop_mocking(self, context)\n")


@harmless
def clear_exception_written_out(s):
    return sub(s, "        self.clear_exception()\n\n        context = SandboxContext(",
               "        self.exception = None\n        self.feedback = None\n\n        context = SandboxContext(")


@broken
def exception_slot_overwritten_after_capture(s):
    return sub(s, OLD_ELSE, OLD_ELSE + "        self.exception = None\n")


@harmless
def unreadable_call_measured(s):
    # the reader does not follow getattr(): the statement is MEASURED (it logs stopMocking whenever it runs)
    return merged("except (Exception, SystemExit) as e:", '''            getattr(self, "_stop_" + "mocking")(context)
            self._capture_exception(e, sys.exc_info(), code, filename)
''')(s)


@harmless
def import_gets_a_helper_with_unrelated_try(s):
    s = sub(s, "        self._reset_builtins(imported_module_data)\n        builtins = self._module_overrides.get(",
            "        self._prepare_namespace(imported_module_data)\n        builtins = self._module_overrides.get(")
    return sub(s, NEW_METHOD_ANCHOR, '''    def _prepare_namespace(self, namespace):
        try:
            self._reset_builtins(namespace)
        except KeyError:
            raise

''' + NEW_METHOD_ANCHOR)


# ---- broken ---------------------------------------------------------------------------------------------------

@broken
def systemexit_handler_without_stop(s):
    return sub(s, '''        except SystemExit as system_exit:
            self._stop_mocking(context)
''', "        except SystemExit as system_exit:\n")


@broken
def systemexit_handler_without_capture(s):
    return sub(s, '''            self._capture_exception(system_exit, sys.exc_info(),
                                    code, filename)
''', "")


@broken
def capture_before_stop(s):
    return sub(s, '''            self._stop_mocking(context)
            self._capture_exception(user_exception, sys.exc_info(),
                                    code, filename)
''', '''            self._capture_exception(user_exception, sys.exc_info(),
                                    code, filename)
            self._stop_mocking(context)
''')


@broken
def base_handler_swallows(s):
    return sub(s, "            self._next_context_id += 1\n            raise\n", "            self._next_context_id += 1\n")


@broken
def base_clause_removed(s):
    return sub(s, OLD_BASE, "")


@broken
def else_without_stop(s):
    return sub(s, OLD_ELSE, "        else:\n            pass\n")


@broken
def clear_exception_dropped(s):
    return sub(s, "        self.clear_exception()\n\n        context = SandboxContext(", "        context = SandboxContext(")


@broken
def narrowed_to_three_classes(s):
    return sub(s, "        except Exception as user_exception:", "        except (ValueError, TypeError, KeyError) as user_exception:")


@broken
def tuple_with_keyboardinterrupt(s):
    return merged("except (Exception, SystemExit, KeyboardInterrupt) as e:", STOP_CAPTURE % "e")(s)


@broken
def merged_without_stop(s):
    return merged("except (Exception, SystemExit) as e:",
                  "            self._capture_exception(e, sys.exc_info(), code, filename)\n")(s)


@broken
def helper_records_before_restoring(s):
    s = class_constant_and_helper(s)
    return sub(s, '''        self._stop_mocking(context)
        failure_info = sys.exc_info()
        self._capture_exception(failure, failure_info, code, filename)
''', '''        failure_info = sys.exc_info()
        self._capture_exception(failure, failure_info, code, filename)
        self._stop_mocking(context)
''')


@broken
def class_constant_without_systemexit(s):
    s = class_constant_and_helper(s)
    return sub(s, "_CONTAINED_FAILURES = (Exception, SystemExit)", "_CONTAINED_FAILURES = (Exception,)")


@broken
def class_constant_reassigned_on_instance(s):
    s = class_constant_and_helper(s)
    return sub(s, "        self.clear_exception()\n\n        context = SandboxContext(",
               "        self.clear_exception()\n        self._CONTAINED_FAILURES = (Exception,)\n\n"
               "        context = SandboxContext(")


@broken
def dispatch_forgets_systemexit(s):
    s = isinstance_dispatch(s)
    return sub(s, "if isinstance(ending, (Exception, SystemExit)):", "if isinstance(ending, Exception):")


@broken
def dispatch_swallows_the_rest(s):
    s = isinstance_dispatch(s)
    return sub(s, "                self._next_context_id += 1\n                raise\n", "                self._next_context_id += 1\n")


@broken
def dispatch_inside_exception_clause(s):
    # `except Exception as e: if isinstance(e, SystemExit)` - not a clause of the ladder: must stay unknown
    return sub(s, '''            self._stop_mocking(context)
            self._capture_exception(user_exception, sys.exc_info(),
''', '''            if isinstance(user_exception, SystemExit):
                self._stop_mocking(context)
            self._capture_exception(user_exception, sys.exc_info(),
''')


@broken
def captures_something_else(s):
    return sub(s, "self._capture_exception(user_exception, sys.exc_info(),",
               "self._capture_exception(RuntimeError('failed'), sys.exc_info(),")


@broken
def unlogged_effect_in_handler(s):
    return sub(s, "            self._stop_mocking(context)\n            self._next_context_id += 1\n            raise\n",
               "            self._stop_mocking(context)\n            self._current_patches.clear()\n"
               "            self._next_context_id += 1\n            raise\n")


@broken
def unreadable_call_that_also_unpatches(s):
    s = merged("except (Exception, SystemExit) as e:", '''            getattr(self, "_finish")(context)
            self._capture_exception(e, sys.exc_info(), code, filename)
''')(s)
    return sub(s, NEW_METHOD_ANCHOR, '''    def _finish(self, context):
        self._stop_mocking(context)
        self._current_patches.pop()

''' + NEW_METHOD_ANCHOR)


@broken
def early_return_in_handler(s):
    return sub(s, '''            self._capture_exception(system_exit, sys.exc_info(),
                                    code, filename)
''', '''            self._capture_exception(system_exit, sys.exc_info(),
                                    code, filename)
            return self
''')


@broken
def stop_moved_to_end_of_try_body(s):
    # double stop on failure paths after a normal body is impossible, but a body that stops and THEN a handler that
    # stops again pops an empty stack: the model must see it
    s = sub(s, "                exec(compiled_code, self.data)\n        except Exception as user_exception:",
            "                exec(compiled_code, self.data)\n            self._stop_mocking(context)\n"
            "            raise ValueError('after')\n        except Exception as user_exception:")
    return s


@broken
def import_gains_a_try(s):
    return sub(s, OLD_IMPORT_EXEC, '''        try:
            compiled_code = compile(code, filename, 'exec')
            with self.trace.as_filename(filename, code):
                exec(compiled_code, imported_module_data)
        except Exception:
            pass
''')


@broken
def import_calls_stop_patches(s):
    return sub(s, OLD_IMPORT_EXEC, OLD_IMPORT_EXEC + "        self._stop_patches()\n")


@broken
def import_helper_handles_the_failure(s):
    s = traced_exec_helper_shared_with_import(s)
    return sub(s, '''        with self.trace.as_filename(filename, code):
            exec(compiled_code, namespace)

''', '''        try:
            with self.trace.as_filename(filename, code):
                exec(compiled_code, namespace)
        finally:
            pass

''')


@broken
def import_helper_unpatches(s):
    s = traced_exec_helper_shared_with_import(s)
    return sub(s, "            exec(compiled_code, namespace)\n\n", "            exec(compiled_code, namespace)\n"
               "        self._stop_mocking(None)\n\n")


# ---- judging ----------------------------------------------------------------------------------------------------

def all_sigs():
    for kind, a, b2, c, d in itertools.product(("normal", "raised", "compileFailed"), (False, True), (False, True),
                                               (False, True), (False, True)):
        yield {"kind": kind, "isException": a, "isSystemExit": b2, "captureFails": c, "injected": d}


def run_ladder(parts, sig, mock):
    """simulate + final stack depths (mirror of depthPs / depthOs on the emitted primitive steps)"""
    ev, out = ladder.simulate(parts, sig, mock)
    d = ladder.Depths(mock)
    for e in ev:
        if e == "startMocking":
            d.start()
        elif e in ("stopMocking", "stopMocking!"):
            d.stop()
        elif e in ("stopPatches", "stopPatches!"):
            d.stop_patches()
    return ev, out, d


def verdicts(parts, imp, mock):
    acts = ladder.render_acts(parts)
    wf = "unknown" not in acts
    c04 = c05 = True
    for sig in all_sigs():
        ev, out, d = run_ladder(parts, sig, mock)
        if not (d.p == 0 and d.o == 0 and "unknown" not in ev and not d.hit_empty):
            c05 = False       # (never popping an empty stack: what makes the ladder safe inside another execution)
        caps = [e.split(":")[1] for e in ev if e.startswith("captureOk:")]
        slot = None
        for e in ev:
            if e == "clearException":
                slot = "cleared"
            elif e.startswith("capture"):
                slot = e.split(":")[1]
        if sig["kind"] == "normal":
            ok = out == "returned" and caps == [] and slot == "cleared"
        else:
            contained = (sig["isException"] or sig["isSystemExit"]) and not sig["captureFails"] and not sig["injected"]
            ok = (not contained) or (out == "returned" and caps == ["student"] and slot == "student")
        if not ok:
            c04 = False
    kb = {"kind": "raised", "isException": False, "isSystemExit": False, "captureFails": False, "injected": False}
    base = ladder.simulate(parts, kb, mock)[1] == "student"
    transparent = (not imp["hasHandlers"]) and (not imp["touchesMocking"])
    return {"wellFormed": wf, "c04": c04, "c05": c05, "baseReraises": base, "importTransparent": transparent}


def load_variant(src, tag, tmp):
    path = os.path.join(tmp, "sandbox_%s.py" % tag)
    with open(path, "w") as fh:
        fh.write(src)
    mod = types.ModuleType("pedal.sandbox.sandbox")
    mod.__file__ = path
    mod.__package__ = "pedal.sandbox"
    exec(compile(src, path, "exec"), mod.__dict__)
    return mod, path


def lean_parts(name, parts):
    def acts(xs):
        return "[" + ", ".join("." + a for a in xs) + "]"
    hs = ", ".join("{ catches := .%s, body := %s }" % (c, acts(b2)) for c, b2 in parts["handlers"])
    return ("def %s : ExecuteDef := { pre := %s, body := %s, handlers := [%s], orelse := %s, final := %s, post := %s }"
            % (name, acts(parts["pre"]), acts(parts["body"]), hs, acts(parts["orelse"]), acts(parts["final"]),
               acts(parts["post"])))


def main():
    verbose = "-v" in sys.argv
    import pedal.sandbox.sandbox as real
    import inspect
    src0 = inspect.getsource(real)
    mock = ts.probe_mocking()
    results, bad = [], 0
    with tempfile.TemporaryDirectory() as tmp:
        for kind, table in (("harmless", HARMLESS), ("broken", BROKEN)):
            for name, f in table.items():
                src = f(src0)
                ast.parse(src)
                mod, path = load_variant(src, name, tmp)
                parts, notes, info = ladder.build_ladder(src, mock, module_obj=mod, module_file=path)
                methods = ladder.Reader(src).methods
                imp = ts.walk_import(ast.unparse(methods["_import"]), methods)
                v = verdicts(parts, imp, mock)
                passes = all(v.values())
                ok = passes if kind == "harmless" else not passes
                bad += 0 if ok else 1
                results.append((kind, name, parts, v))
                failing = [k for k, x in v.items() if not x]
                print("%-8s %-45s %s %s%s" % (kind, name, "ok " if ok else "WRONG",
                                              "passes" if passes else "fails " + ",".join(failing),
                                              "" if info["source"] == "read" else "  [" + info["source"] + "]"))
                if verbose or not ok:
                    print("     ", {k: v2 for k, v2 in parts.items()})
                    print("     ", info)
                    for n in notes:
                        print("      note:", n)
    if "--lean" in sys.argv:
        lines = ["import PedalProofs.C05", "open Pedal.SandboxExec Pedal.Gen.SandboxExec", ""]
        for i, (kind, name, parts, v) in enumerate(results):
            lines.append(lean_parts("v%d" % i, parts))
        lines.append("def kbSig : Sig := { kind := .raised, isException := false, isSystemExit := false, "
                     "captureFails := false, injected := false }")
        lines.append("def judge (d : ExecuteDef) : String := s!\"{d.wellFormed} {allSigs.all (checkC04 mockProbe d)} "
                     "{allSigs.all (checkC05 mockProbe d)} {decide ((plan mockProbe base0 kbSig d).2 = "
                     ".propagated .student)}\"")
        for i in range(len(results)):
            lines.append("#eval judge v%d" % i)
        scratch = os.path.join(LEAN_DIR, "ScratchLadderSelftest.lean")
        with open(scratch, "w") as fh:
            fh.write("\n".join(lines) + "\n")
        try:
            out = subprocess.run(["lake", "env", "lean", scratch], cwd=LEAN_DIR, capture_output=True, text=True,
                                 timeout=900)
        finally:
            os.remove(scratch)
        answers = [ln.strip().strip('"') for ln in out.stdout.splitlines() if ln.strip().startswith('"')]
        if len(answers) != len(results):
            print("lean evaluation failed:", out.stdout[-2000:], out.stderr[-2000:])
            return 2
        for (kind, name, parts, v), ans in zip(results, answers):
            mine = "%s %s %s %s" % tuple(str(v[k]).lower() for k in ("wellFormed", "c04", "c05", "baseReraises"))
            if mine != ans:
                bad += 1
                print("MIRROR DISAGREES WITH LEAN on %s: mirror %s, lean %s" % (name, mine, ans))
        print("lean agrees with the mirror on %d ladders" % len(results) if not bad else "see above")
    print("%d variants, %d wrong" % (len(results), bad))
    return 1 if bad else 0


if __name__ == "__main__":
    sys.exit(main())

"""
C08 — shared pieces: program generator, tree encoder for the Lean driver, the real-pedal runner and the oracle
(plain `ast.walk` counting, written from the property text).
"""
import ast
import glob
import math
import os

from common import REPO, enc_str, use_repo

use_repo()

from pedal import contextualize_report, clear_report                      # noqa: E402
from pedal.core.report import Report, MAIN_REPORT                          # noqa: E402
from pedal.assertions import static as st                                  # noqa: E402
from pedal.cait.cait_api import find_asts                                  # noqa: E402
from pedal.cait.find_node import find_operation, find_function_calls       # noqa: E402
from pedal.cait import find_node as _fn                                    # noqa: E402

# --------------------------------------------------------------------------
# CPython's own reading of operator symbols (independent of pedal and of the translator)

def cpython_symbols():
    """symbol -> (expression class, operator class); binary reading wins over unary for + and -."""
    out = {}
    a, b = ast.Name("a", ast.Load()), ast.Name("b", ast.Load())
    for base in (ast.unaryop, ast.cmpop, ast.boolop, ast.operator):      # later families overwrite unary
        for cls in base.__subclasses__():
            if base is ast.cmpop:
                node = ast.Compare(left=a, ops=[cls()], comparators=[b])
            elif base is ast.boolop:
                node = ast.BoolOp(op=cls(), values=[a, b])
            elif base is ast.operator:
                node = ast.BinOp(left=a, op=cls(), right=b)
            else:
                node = ast.UnaryOp(op=cls(), operand=a)
            text = ast.unparse(ast.fix_missing_locations(ast.Expression(body=node)))
            sym = text[:-1].strip() if base is ast.unaryop else text[1:-1].strip()
            parsed = ast.parse(("%s a" % sym) if base is ast.unaryop else ("a %s b" % sym), mode="eval").body
            if isinstance(parsed, ast.Compare):
                out[sym] = (ast.Compare, type(parsed.ops[0]))
            else:
                out[sym] = (type(parsed), type(parsed.op))
    return out


SYMBOLS = cpython_symbols()
BOGUS_SYMBOLS = ["+=", "<>", "xor", "", "=", "not  in", "AND", "!"]

NODE_NAMES = ["Module", "Expr", "Assign", "AugAssign", "AnnAssign", "For", "While", "If", "FunctionDef", "ClassDef",
              "Return", "Call", "Name", "Attribute", "Constant", "Num", "Str", "Bool", "BinOp", "BoolOp", "Compare",
              "UnaryOp", "List", "Dict", "Tuple", "Set", "Subscript", "Slice", "Import", "ImportFrom", "alias",
              "Lambda", "IfExp", "ListComp", "comprehension", "JoinedStr", "FormattedValue", "Try", "ExceptHandler",
              "With", "withitem", "Pass", "Break", "Continue", "Global", "Assert", "Delete", "arguments", "arg",
              "keyword", "Load", "Store", "Add", "Lt", "And", "Not", "USub", "Starred", "Nope"]
# (the pre-3.8 names NameConstant / Bytes / Ellipsis are left out: ast.NodeVisitor itself redirects Constant nodes
#  to visit_NameConstant & co. as a deprecated compatibility shim, which is CPython's behaviour, not pedal's)

LITERAL_TYPES = [bool, str, int, float, list, dict]

# --------------------------------------------------------------------------
# programs

def corpus_sources(limit_chars=6000):
    """Parsable example / test programs of the tree under test."""
    out = []
    pats = [os.path.join(REPO, "examples", "**", "*.py"), os.path.join(REPO, "tests", "**", "*.py")]
    for pat in pats:
        for f in sorted(glob.glob(pat, recursive=True)):
            try:
                with open(f, encoding="utf-8") as fh:
                    s = fh.read()
                if 0 < len(s) <= limit_chars:
                    ast.parse(s)
                    s.encode("utf-8")
                    out.append((os.path.relpath(f, REPO), s))
            except Exception:
                continue
    return out


NAMES = ["x", "y", "total", "items", "print", "len", "f", "obj", "data", "i", "\u00e9t\u00e9", "\u540d"]
ATTRS = ["append", "print", "lower", "items", "f", "close", "open"]
MODULES = ["os", "sys", "math", "os.path", "json", "a.b.c"]
INTS = ["0", "1", "2", "3", "10", "255", "1000000000000000000000"]
FLOATS = ["0.0", "1.0", "2.0", "2.5", "0.1", "1e3", "1e999", "3.0"]
STRS = ["'a'", "''", "'1'", "'True'", "\"hello world\"", "'é'", "'a' 'b'", "'''doc'''"]
BINS = ["+", "-", "*", "/", "//", "%", "**", ">>", "<<", "|", "^", "&", "@"]
CMPS = ["==", "<", "<=", ">=", ">", "!=", "is", "is not", "in", "not in"]


class Gen:
    """Compact grammar-based generator of valid Python programs, dense in everything C08 queries."""

    def __init__(self, rng):
        self.rng = rng

    def pick(self, xs):
        return self.rng.choice(xs)

    def atom(self):
        r = self.rng.random()
        if r < 0.25:
            return self.pick(NAMES)
        if r < 0.45:
            return self.pick(INTS)
        if r < 0.55:
            return self.pick(FLOATS)
        if r < 0.65:
            return self.pick(["True", "False"])
        if r < 0.78:
            return self.pick(STRS)
        if r < 0.82:
            return "None"
        if r < 0.86:
            return self.pick(["b'a'", "1j", "0j", "...", "f'a{x}b'", "f'{x!r:>{y}}'", "u'a'", "b''", "0.0", "''"])
        if r < 0.93:
            return "[" + ", ".join(self.atom() for _ in range(self.rng.randint(0, 3))) + "]"
        if r < 0.97:
            return "{" + ", ".join("%s: %s" % (self.atom_hashable(), self.atom()) for _ in range(self.rng.randint(0, 2))) + "}"
        return "(" + self.atom() + ", " + self.atom() + ")"

    def atom_hashable(self):
        return self.pick(INTS + STRS[:4] + ["True", "1.0"])

    def expr(self, d=0):
        r = self.rng.random()
        if d >= 3 or r < 0.28:
            return self.atom()
        if r < 0.46:
            return "(%s %s %s)" % (self.expr(d + 1), self.pick(BINS), self.expr(d + 1))
        if r < 0.58:
            n = self.rng.randint(1, 3)
            s = self.expr(d + 1)
            for _ in range(n):
                s += " %s %s" % (self.pick(CMPS), self.expr(d + 1))
            return "(" + s + ")"
        if r < 0.66:
            op = self.pick(["and", "or"])
            return "(" + (" %s " % op).join(self.expr(d + 1) for _ in range(self.rng.randint(2, 3))) + ")"
        if r < 0.74:
            return "(%s%s)" % (self.pick(["not ", "~", "-", "+"]), self.expr(d + 1))
        if r < 0.88:
            return self.call(d)
        if r < 0.91:
            return "%s[%s]" % (self.pick(NAMES), self.expr(d + 1))
        if r < 0.93:
            return "%s[%s:%s]" % (self.pick(NAMES), self.atom(), self.atom())
        if r < 0.95:
            return "(lambda z: %s)" % self.expr(d + 1)
        if r < 0.97:
            return "[%s for q in %s if %s]" % (self.expr(d + 1), self.expr(d + 1), self.expr(d + 1))
        return "(%s if %s else %s)" % (self.expr(d + 1), self.expr(d + 1), self.expr(d + 1))

    def call(self, d):
        args = [self.expr(d + 1) for _ in range(self.rng.randint(0, 2))]
        if self.rng.random() < 0.2:
            args.append("key=%s" % self.atom())
        r = self.rng.random()
        if r < 0.5:
            fn = self.pick(NAMES)
        elif r < 0.85:
            fn = "%s.%s" % (self.pick(NAMES), self.pick(ATTRS))
        elif r < 0.92:
            fn = "%s.%s.%s" % (self.pick(NAMES), self.pick(ATTRS), self.pick(ATTRS))
        elif r < 0.96:
            fn = "%s(%s)" % (self.pick(NAMES), self.atom())          # call of a call: func is neither Name nor Attribute
        else:
            fn = "%s[0]" % self.pick(NAMES)
        return "%s(%s)" % (fn, ", ".join(args))

    def stmt(self, ind, d, in_func, in_loop):
        pad = "    " * ind
        r = self.rng.random()
        if d >= 2:
            r *= 0.58
        if r < 0.22:
            return [pad + "%s = %s" % (self.pick(NAMES), self.expr())]
        if r < 0.30:
            return [pad + "%s %s= %s" % (self.pick(NAMES), self.pick(BINS), self.expr())]
        if r < 0.42:
            return [pad + self.expr()]
        if r < 0.46:
            return [pad + self.pick(["import " + self.pick(MODULES), "import %s as m" % self.pick(MODULES),
                                     "import %s, %s" % (self.pick(MODULES), self.pick(MODULES)),
                                     "from %s import %s" % (self.pick(MODULES), self.pick(NAMES)),
                                     "from %s import *" % self.pick(MODULES) if ind == 0 else "from . import y",
                                     "from .%s import x as y" % self.pick(MODULES)])]
        if r < 0.49:
            return [pad + "%s: %s = %s" % (self.pick(NAMES), self.pick(["int", "str", "list"]), self.expr())]
        if r < 0.52:
            return [pad + self.pick(["pass", "assert %s" % self.expr(), "del x", "global total" if in_func else "pass",
                                     "return %s" % self.expr() if in_func else "pass",
                                     "break" if in_loop else "pass", "continue" if in_loop else "pass",
                                     "'a docstring'", "1"])]
        if r < 0.58:
            return [pad + "print(%s)" % self.expr()]
        if r < 0.68:
            out = [pad + "if %s:" % self.expr()] + self.block(ind + 1, d + 1, in_func, in_loop)
            if self.rng.random() < 0.3:
                out += [pad + "elif %s:" % self.expr()] + self.block(ind + 1, d + 1, in_func, in_loop)
            if self.rng.random() < 0.4:
                out += [pad + "else:"] + self.block(ind + 1, d + 1, in_func, in_loop)
            return out
        if r < 0.74:
            return [pad + "while %s:" % self.expr()] + self.block(ind + 1, d + 1, in_func, True)
        if r < 0.82:
            return [pad + "for %s in %s:" % (self.pick(NAMES), self.expr())] + self.block(ind + 1, d + 1, in_func, True)
        if r < 0.90:
            dec = [pad + "@" + self.pick(["dataclass", "property", "f(1)"])] if self.rng.random() < 0.15 else []
            return dec + [pad + "def %s(%s):" % (self.pick(NAMES), self.pick(["", "a", "a, b=1", "*args, **kw", "a: int"]))] \
                + self.block(ind + 1, d + 1, True, False)
        if r < 0.94:
            return [pad + "class %s%s:" % (self.pick(["A", "B"]), self.pick(["", "(object)", "(A, B)"]))] \
                + self.block(ind + 1, d + 1, False, False)
        if r < 0.97:
            return [pad + "try:"] + self.block(ind + 1, d + 1, in_func, in_loop) + \
                   [pad + "except %s:" % self.pick(["ValueError", "(A, B) as e", "Exception"])] + \
                   self.block(ind + 1, d + 1, in_func, in_loop)
        return [pad + "with open(%s) as fh:" % self.atom()] + self.block(ind + 1, d + 1, in_func, in_loop)

    def block(self, ind, d, in_func, in_loop):
        out = []
        for _ in range(self.rng.randint(1, 3)):
            out += self.stmt(ind, d, in_func, in_loop)
        return out

    def program(self, max_stmts=6):
        for _ in range(20):
            lines = []
            for _ in range(self.rng.randint(0, max_stmts)):
                lines += self.stmt(0, 0, False, False)
            src = "\n".join(lines) + ("\n" if lines else "")
            src = self.line_ends(src)
            try:
                ast.parse(src)
                src.encode("utf-8")
                return src
            except (SyntaxError, ValueError, UnicodeEncodeError):
                continue
        return "x = 1\n"

    def line_ends(self, src):
        """CR / CRLF line ends, form feeds and odd separators in comments: line numbers must survive them."""
        r = self.rng.random()
        if r < 0.12:
            src = src.replace("\n", "\r\n")
        elif r < 0.2:
            src = src.replace("\n", "\r")
        elif r < 0.3:
            src = "\x0c" + src.replace("\n", "\n\x0c", 1)
        elif r < 0.4:
            src = "# c\x0b \x85 \u2028 \u2029 \x1c end\n" + src + "# tail without newline"
        return src


# --------------------------------------------------------------------------
# tree encoding for the Lean driver

def enc_prim(v):
    if v is None:
        return "n"
    if isinstance(v, bool):
        return "b1" if v else "b0"
    if isinstance(v, int):
        return "i%d" % v
    if isinstance(v, float):
        if math.isfinite(v):
            n, d = v.as_integer_ratio()
            return "f%d/%d" % (n, d)
        return "F" + enc_str("nan" if v != v else ("inf" if v > 0 else "-inf"))
    if isinstance(v, str):
        try:
            return "s" + enc_str(v)
        except UnicodeEncodeError:
            return "o" + enc_str("str-with-surrogates")
    return "o" + enc_str(type(v).__name__)


def enc_tree(node, field="", out=None):
    """Same child order as CaitNode.__init__ / NodeVisitor.generic_visit: ast.iter_fields, lists flattened,
    non-AST entries are primitive fields."""
    top = out is None
    if top:
        out = []
    attrs, kids = [], []
    for fname, value in ast.iter_fields(node):
        if isinstance(value, ast.AST):
            kids.append((fname, value))
        elif isinstance(value, list):
            prim_list = False
            for sub in value:
                if isinstance(sub, ast.AST):
                    kids.append((fname, sub))
                elif sub is not None:
                    prim_list = True
            if prim_list:
                attrs.append((fname, "o" + enc_str("list")))
        else:
            attrs.append((fname, enc_prim(value)))
    line, col = getattr(node, "lineno", None), getattr(node, "col_offset", None)
    out += ["N", enc_str(type(node).__name__), enc_str(field), "-" if line is None else str(line),
            "-" if col is None else str(col), str(len(attrs))]
    for n, p in attrs:
        out += [enc_str(n), p]
    out.append(str(len(kids)))
    for fname, k in kids:
        enc_tree(k, fname, out)
    return out


def enc_query(q):
    kind, arg = q
    if kind == "op":
        return ["op", enc_str(arg)]
    if kind == "call":
        return ["call", enc_str(arg)]
    if kind == "lit":
        return ["lit", enc_prim(arg)]
    if kind == "lty":
        return ["lty", arg.__name__]
    if kind == "ast":
        return ["ast", enc_str(arg)]
    if kind == "imp":
        return ["imp", enc_str(arg)]
    raise ValueError(kind)


def request_line(src, queries):
    toks = ["c08"] + enc_tree(ast.parse(src)) + [str(len(queries))]
    for q in queries:
        toks += enc_query(q)
    return " ".join(toks)


def parse_answer(ans, nq):
    """-> list of dicts / 'unmodelled' / None (bad)."""
    if ans == "bad-request":
        return None
    parts = ans.split(";")
    if len(parts) != nq:
        return None
    out = []
    for p in parts:
        if p == "unmodelled":
            out.append("unmodelled")
            continue
        kv = {}
        for tok in p.split(" "):
            if "=" in tok:
                k, v = tok.split("=", 1)
                kv[k] = v
        if "has" in kv:
            out.append({"has": kv["has"] == "1"})
            continue
        nodes = []
        if kv.get("nodes"):
            for item in kv["nodes"].split(","):
                k, l, c = item.rsplit(":", 2)
                nodes.append((k, None if l == "-" else int(l), None if c == "-" else int(c)))
        out.append({"count": int(kv["count"]), "line": None if kv["line"] == "-" else int(kv["line"]),
                    "ens": kv["ens"], "prev": kv["prev"], "nodes": nodes})
    return out


# --------------------------------------------------------------------------
# queries for a program

def literal_ok(v):
    """literals the property (and the model) cover: non-negative finite scalars whose repr is one Constant."""
    if isinstance(v, bool):
        return True
    if isinstance(v, int):
        return v >= 0
    if isinstance(v, float):
        return math.isfinite(v) and v >= 0 and not (v == 0 and math.copysign(1, v) < 0)
    if isinstance(v, str):
        try:
            v.encode("utf-8")
        except UnicodeEncodeError:
            return False
        return True
    return False


def queries_for(src, rng, full=True):
    tree = ast.parse(src)
    qs = []
    for sym in list(SYMBOLS) + (BOGUS_SYMBOLS if full else []):
        qs.append(("op", sym))
    call_names, consts, kinds, mods = set(), [], set(), set()
    for n in ast.walk(tree):
        kinds.add(type(n).__name__)
        if isinstance(n, ast.Call):
            if isinstance(n.func, ast.Name):
                call_names.add(n.func.id)
            elif isinstance(n.func, ast.Attribute):
                call_names.add(n.func.attr)
        if isinstance(n, ast.Name):
            call_names.add(n.id) if rng.random() < 0.2 else None
        if isinstance(n, ast.Constant) and literal_ok(n.value):
            consts.append(n.value)
        if isinstance(n, ast.Import):
            for al in n.names:
                mods.add(al.name)
                mods.add(al.name.split(".")[0])
                if al.asname:
                    mods.add(al.asname)
        if isinstance(n, ast.ImportFrom):
            if n.module:
                mods.add(n.module)
            for al in n.names:
                mods.add(al.name)
    for name in sorted(call_names | {"print", "nothing_calls_this"}):
        qs.append(("call", name))
    lits = []
    for v in consts:
        lits.append(v)
        # the same number in the other scalar types, the defect's neighbourhood
        if isinstance(v, bool):
            lits += [int(v), float(v)]
        elif isinstance(v, int):
            if abs(v) < 2 ** 53:
                lits.append(float(v))
            if v in (0, 1):
                lits.append(bool(v))
        elif isinstance(v, float):
            if v == int(v) and abs(v) < 2 ** 53:
                lits.append(int(v))
            if v in (0.0, 1.0):
                lits.append(bool(v))
        elif isinstance(v, str) and v in ("1", "True", "0"):
            lits.append(1)
    lits += [0, 1, True, False, 1.0, 0.0, "a", "", 7, 2.5, "zzz"]
    seen = set()
    for v in lits:
        k = (type(v).__name__, repr(v))
        if k not in seen and literal_ok(v):
            seen.add(k)
            qs.append(("lit", v))
    for ty in LITERAL_TYPES:
        qs.append(("lty", ty))
    names = set(NODE_NAMES if full else rng.sample(NODE_NAMES, 12)) | kinds
    for k in sorted(names):
        qs.append(("ast", k))
    for m in sorted(mods | {"os", "json"}):
        qs.append(("imp", m))
    return qs


# --------------------------------------------------------------------------
# the oracle: plain ast.walk counting, written from the property text

def oracle_nodes(tree, q):
    """The occurrences (list of ast nodes, one entry per occurrence) a plain walk finds for the query,
    or None when the query is outside the property (undocumented symbol)."""
    kind, arg = q
    walk = list(ast.walk(tree))
    if kind == "op":
        if arg not in SYMBOLS:
            return None
        family, cls = SYMBOLS[arg]
        out = []
        for n in walk:
            if type(n) is family:
                if family is ast.Compare:
                    out += [n for o in n.ops if type(o) is cls]       # once per matching operator position
                elif type(n.op) is cls:
                    out.append(n)
        return out
    if kind == "call":
        return [n for n in walk if isinstance(n, ast.Call) and
                ((isinstance(n.func, ast.Name) and n.func.id == arg) or
                 (isinstance(n.func, ast.Attribute) and n.func.attr == arg))]
    if kind == "lit":
        return [n for n in walk if isinstance(n, ast.Constant) and type(n.value) is type(arg) and n.value == arg]
    if kind == "lty":
        if arg is list:
            return [n for n in walk if isinstance(n, ast.List)]
        if arg is dict:
            return [n for n in walk if isinstance(n, ast.Dict)]
        return [n for n in walk if isinstance(n, ast.Constant) and type(n.value) is arg]
    if kind == "ast":
        if arg == "Num":
            return [n for n in walk if isinstance(n, ast.Constant) and type(n.value) in (int, float)]
        if arg == "Str":
            return [n for n in walk if isinstance(n, ast.Constant) and type(n.value) is str]
        if arg == "Bool":
            return [n for n in walk if isinstance(n, ast.Constant) and type(n.value) is bool]
        return [n for n in walk if type(n).__name__ == arg]
    if kind == "imp":
        out = []
        for n in walk:
            if isinstance(n, ast.Import):
                out += [n for al in n.names if al.name == arg]
            elif isinstance(n, ast.ImportFrom) and n.module == arg:
                out.append(n)
        return out
    raise ValueError(kind)


def node_key(n):
    return (type(n).__name__, getattr(n, "lineno", None), getattr(n, "col_offset", None))


# --------------------------------------------------------------------------
# the real code

ENSURE = {"op": st.ensure_operation, "call": st.ensure_function_call, "lit": st.ensure_literal,
          "lty": st.ensure_literal_type, "ast": st.ensure_ast, "imp": st.ensure_import}
PREVENT = {"op": st.prevent_operation, "call": st.prevent_function_call, "lit": st.prevent_literal,
           "lty": st.prevent_literal_type, "ast": st.prevent_ast, "imp": st.prevent_import}
COUNT_FIELD = {"op": "use_count", "call": "call_count", "lit": "use_count", "lty": "use_count", "ast": "use_count"}


# "which report" dimension.  Every entry point takes report=; the property is about the program of the report that
# was NAMED (MAIN_REPORT when none is).  A `where` says which Report object holds the program under test and what
# the other one holds meanwhile:
#   main            the program on MAIN_REPORT, no report= given, no other report (the historical set-up)
#   main+other      the program on MAIN_REPORT, no report= given; a second Report holds a DECOY program
#   main-explicit   the same, with report=MAIN_REPORT spelled out
#   own+decoy       the program on an own Report() passed as report=; MAIN_REPORT holds a DECOY program
#   own+empty       the program on an own Report() passed as report=; MAIN_REPORT holds no submission at all
WHERE_MODES = ["main", "main+other", "main-explicit", "own+decoy", "own+empty"]
WHERE_WEIGHTS = [30, 12, 12, 30, 16]
MAIN_WHERE = {"mode": "main", "decoy": None}
CUR = {"kw": {}, "target": MAIN_REPORT, "other": None, "mode": "main"}


def decoy_for(rng, src):
    """Another program with (very probably) different counts for most queries; never the program under test."""
    r = rng.random()
    if r < 0.45:
        d = rng.choice(OTHER_SOURCES)
    elif r < 0.75:      # a superset: every count at least as large, lines shifted
        d = rng.choice(OTHER_SOURCES) + src
        try:
            ast.parse(d)
        except (SyntaxError, ValueError):
            d = rng.choice(OTHER_SOURCES)
    else:
        d = Gen(rng).program(max_stmts=3)
    if d == src or not d.strip():
        d = "print(1 + 1 < 2, [0], 'decoy')\nimport decoy\nwhile decoy.f(True):\n    pass\n"
    return d


def pick_where(rng, src):
    mode = rng.choices(WHERE_MODES, WHERE_WEIGHTS)[0]
    # "verify": the Source tool parsed each report's program first (CAIT then takes over Source's tree of THAT report)
    return {"mode": mode, "decoy": None if mode in ("main", "own+empty") else decoy_for(rng, src),
            "verify": rng.random() < 0.4}


def _submission(src, main_file):
    if main_file is None:
        return src
    from pedal.core.submission import Submission
    return Submission({main_file: src}, main_file)


def load(src, main_file=None, where=None):
    where = where or MAIN_WHERE
    mode = where["mode"]
    clear_report()
    CUR.update(kw={}, target=MAIN_REPORT, other=None, mode=mode)
    if mode.startswith("own"):
        own = Report()
        if mode == "own+decoy":
            contextualize_report(where["decoy"])
        contextualize_report(_submission(src, main_file), report=own)
        CUR.update(kw={"report": own}, target=own, other=MAIN_REPORT)
    else:
        contextualize_report(_submission(src, main_file))
        if mode != "main":
            other = Report()
            contextualize_report(where["decoy"], report=other)
            CUR["other"] = other
        if mode == "main-explicit":
            CUR["kw"] = {"report": MAIN_REPORT}
    if where.get("verify"):
        from pedal.source import verify
        for r in (CUR["other"], CUR["target"]):
            if r is not None and r.submission is not None:
                try:
                    verify(**({} if r is MAIN_REPORT else {"report": r}))
                except Exception:  # noqa: Source's own behaviour is not under test here
                    pass


def _exc(e):
    return {"error": type(e).__name__}


OTHER_SOURCES = [
    "while True:\n    pass\n",
    "import math\nfor i in range(10):\n    print(i + 1, 10, 3 < i <= 7)\n",
    "def f(x):\n    return x * 2 == 4 or not x\nprint(f(1), 'a', True, 0.5)\n",
    "from os import path\nx = [1, 2, 3]\nx.append(len(x) - 1)\n",
]


def distract(rng, src):
    """Parse/search some OTHER program through the public student_code= argument, on the report under test or on
    the other live report, or look at the other report's own program (results are not judged)."""
    other = rng.choice(OTHER_SOURCES)
    if other == src:
        return
    rep = CUR["target"]
    if CUR["other"] is not None and rng.random() < 0.6:
        rep = CUR["other"]
    kw = {} if rep is MAIN_REPORT and rng.random() < 0.5 else {"report": rep}
    try:
        how = rng.randrange(6 if CUR["other"] is not None else 4)
        if how == 0:
            find_asts(rng.choice(["While", "For", "Call", "Compare", "Num"]), student_code=other, **kw)
        elif how == 1:
            st.parse_program(other, **kw)
        elif how == 2:
            from pedal.cait.cait_api import find_matches
            find_matches("_x_ = ___", student_code=other, **kw)
        elif how == 3:  # same other program twice: the second time comes from CAIT's cache
            st.parse_program(other, **kw)
            find_asts("Name", student_code=other, **kw)
        elif how == 4:  # the other report's OWN program is parsed / searched (most recent tree = the decoy's)
            okw = {} if CUR["other"] is MAIN_REPORT and rng.random() < 0.5 else {"report": CUR["other"]}
            st.parse_program(**okw)
            find_asts(rng.choice(["Call", "Name", "Num"]), **okw)
        else:           # a whole check on the other report
            okw = {} if CUR["other"] is MAIN_REPORT and rng.random() < 0.5 else {"report": CUR["other"]}
            rng.choice([st.prevent_ast, st.ensure_ast])("Call", **okw)
            rng.choice([st.prevent_function_call, st.ensure_operation])(rng.choice(["print", "+"]), **okw)
    except Exception:  # noqa: the distraction itself is not under test
        pass


def real_find(q):
    """find_asts / find_operation / find_function_calls -> list of (kind, line, col), or None if no finder."""
    kind, arg = q
    try:
        kw = CUR["kw"]
        if kind == "op":
            found = find_operation(arg, **kw)
        elif kind == "call":
            found = find_function_calls(arg, **kw)
        elif kind == "ast":
            found = find_asts(arg, **kw)
        else:
            return None
        return [node_key(c.astNode) for c in found]
    except Exception as e:  # noqa
        return _exc(e)


def real_find_explicit(q, submission_src, code, where=None):
    """The finders asked about explicitly given `code` while the submission is `submission_src`.
    find_asts takes student_code=; find_operation / find_function_calls take root=parse_program(code).
    With a `where`, all of it happens on the report that `where` names (the other one holds a decoy / nothing)."""
    kind, arg = q
    load(submission_src, None, where)
    kw = CUR["kw"]
    try:
        st.parse_program(**kw)      # the submission was looked at first (so a 'current tree' exists)
        if kind == "ast":
            found = find_asts(arg, student_code=code, **kw)
        elif kind == "op":
            found = find_operation(arg, root=st.parse_program(code, **kw), **kw)
        elif kind == "call":
            found = find_function_calls(arg, root=st.parse_program(code, **kw), **kw)
        else:
            return None
        return [node_key(c.astNode) for c in found]
    except Exception as e:  # noqa
        return _exc(e)


def real_extra(src, where=None):
    """The remaining find_* entry points that take report= (thin wrappers, not modelled): function_is_called and
    find_function_definition, asked under `where`.  -> list of (entry point, name, got, wanted, ok)"""
    tree = ast.parse(src)
    names = {"print", "nothing_calls_this"}
    defs = {}
    for n in ast.walk(tree):
        if isinstance(n, ast.Call):
            if isinstance(n.func, ast.Name):
                names.add(n.func.id)
            elif isinstance(n.func, ast.Attribute):
                names.add(n.func.attr)
        if isinstance(n, ast.FunctionDef):
            names.add(n.name)
            defs.setdefault(n.name, []).append(node_key(n))
    load(src, None, where)
    kw = CUR["kw"]
    out = []
    for name in sorted(names):
        want = len(oracle_nodes(tree, ("call", name)))
        try:
            got = _fn.function_is_called(name, **kw)
        except Exception as e:  # noqa
            got = _exc(e)
        out.append(("function_is_called", name, got, want, got == want))
        want = sorted(defs.get(name, []))
        try:
            d = _fn.find_function_definition(name, **kw)
            got = None if d is None else node_key(d.astNode)
        except Exception as e:  # noqa
            got = _exc(e)
        out.append(("find_function_definition", name, got, want,
                    (got is None and not want) or (isinstance(got, tuple) and got in want)))
    return out


ALIASES = {("op", "ensure"): st.ensure_operator, ("op", "prevent"): st.prevent_operator}


def real_check(q, which, threshold, spelling=0):
    """-> {'fired': bool, 'line': int|None, 'count': int|None} or {'error': cls}
    spelling: 0 keyword threshold, 1 positional threshold, 2 alias / explicit root where there is one"""
    kind, arg = q
    try:
        fn = (ENSURE if which == "ensure" else PREVENT)[kind]
        if spelling == 2:
            fn = ALIASES.get((kind, which), fn)
        kw = CUR["kw"]
        if kind == "imp":
            fb = fn(arg, **kw)
        elif spelling == 1:
            fb = fn(arg, threshold, **kw)
        elif spelling == 2 and kind in ("call", "ast", "op"):
            fb = fn(arg, root=st.parse_program(**kw), **{("at_least" if which == "ensure" else "at_most"): threshold}, **kw)
        elif which == "ensure":
            fb = fn(arg, at_least=threshold, **kw)
        else:
            fb = fn(arg, at_most=threshold, **kw)
        loc = getattr(fb, "location", None)
        line = getattr(loc, "line", None) if loc is not None else None
        return {"fired": bool(fb), "line": line, "count": fb.fields.get(COUNT_FIELD.get(kind, "")), }
    except Exception as e:  # noqa
        return _exc(e)


def thresholds_for(count, rng, full):
    base = {0, 1, 2, 3, 4} if full else {0, 1}
    base |= {max(0, count - 1), count, count + 1}
    if not full and len(base) > 3:
        base.discard(0 if count > 1 else -1)
    return sorted(base)

"""
C16: tabulate, from the running CPython, the part of the type table one operation can reach, as a request line
for the Lean driver (grammar in lean/PedalModel/ProxyWire.lean), and compare the driver's answer with what really
happened.  Nothing here knows how CPython *orders* or *checks* the calls — that is the Lean model's job; this file
only evaluates single slot calls `type(a).__d__(a, b)` and CPython's own post-processing steps on given values.
"""
import math
import operator

import proxy_common as pc

TYPE_ERR, ATTR_ERR = 1000, 1001
PROXY_CLS = 999999
SEQ_TYPES = (str, list, tuple, bytes, bytearray, range)
SQ_DUNDERS = ("__add__", "__mul__", "__rmul__")
KINDS = ["exactInt", "float", "complex", "str", "bool", "iterator", "indexable"]
POSTS = ["asLen", "asHash", "lenNonzero", "asInt", "toFloat", "toComplex", "floorF", "ceilF", "truncInt", "truth"]


NO_PROBE = object()


class Foreign:
    """An object of a class no builtin slot knows (stands in for the proxy when probing C slots)."""


def kind_bits(x):
    t = type(x)
    bits = [isinstance(x, int), isinstance(x, float), isinstance(x, complex), isinstance(x, str), t is bool,
            hasattr(t, "__next__"), hasattr(t, "__index__")]
    return "".join("1" if b else "0" for b in bits)


def do_post(p, x):
    if p == "asLen":
        n = operator.index(x)
        if n < 0:
            raise ValueError("__len__() should return >= 0")
        return int(n)
    if p == "asHash":
        h = int(x)
        if not -2 ** 63 <= h < 2 ** 63:
            h = hash(h)
        return -2 if h == -1 else h
    if p == "lenNonzero":
        return do_post("asLen", x) != 0
    if p == "asInt":
        return int.__index__(x) if isinstance(x, int) else int(x)
    if p == "toFloat":
        return float(operator.index(x)) if not isinstance(x, float) else float(x)
    if p == "toComplex":
        return complex(float(x))
    if p == "floorF":
        return math.floor(float(x))
    if p == "ceilF":
        return math.ceil(float(x))
    if p == "truncInt":
        if isinstance(x, int):
            return int.__index__(x)
        return operator.index(x)
    if p == "truth":
        return bool(x)
    raise ValueError(p)


class Table:
    def __init__(self):
        self.objs = []            # id -> python object (iterators already listed)
        self.kinds = {}           # id -> bits
        self.by_identity = {}
        self.classes = {}         # class object -> id
        self.slots = {}           # (defining class, dunder) -> sid
        self.tokens = []
        self.excs = {"TypeError": TYPE_ERR, "AttributeError": ATTR_ERR}

    def intern(self, x):
        key = id(x)
        if key in self.by_identity and self.objs[self.by_identity[key]][0] is x:
            return self.by_identity[key]
        i = len(self.objs)
        bits = kind_bits(x)
        shown = x
        if hasattr(type(x), "__next__"):
            try:
                # consumed the way `run` consumes it (a plain loop): list(x) would also ask for a length hint,
                # which reaches a student __len__ that may raise
                shown = ("iter", [y for y in x])
            except Exception as e:       # noqa
                shown = ("iter-raises", type(e).__name__)
        self.objs.append((x, shown))
        self.by_identity[key] = i
        self.kinds[i] = bits
        return i

    def value(self, i):
        return self.objs[i][1]

    def cls_id(self, c):
        if c not in self.classes:
            self.classes[c] = 10 + len(self.classes)
        return self.classes[c]

    def res(self, thunk):
        """Evaluate a single CPython-level step; -> wire token"""
        try:
            x = thunk()
        except RecursionError:
            return "e1999"
        except Exception as e:       # noqa
            name = type(e).__name__
            if name not in self.excs:
                self.excs[name] = 1002 + len(self.excs)
            return "e%d" % self.excs[name]
        if x is NotImplemented:
            return "ni"
        return "v%d" % self.intern(x)

    def slot(self, cls, dunder, probe_self=NO_PROBE):
        """Resolve `dunder` on `cls` through the MRO; emit slot= token; -> (sid, attribute) or None"""
        for k in cls.__mro__:
            if dunder in k.__dict__:
                # object.__ne__ delegates to the class's own __eq__: per class it behaves like that method
                derived_ne = k is object and dunder == "__ne__"
                key = (k, dunder, cls if derived_ne else None)
                new = key not in self.slots
                if new:
                    self.slots[key] = 100 + len(self.slots)
                sid = self.slots[key]
                attr = k.__dict__[dunder]
                sq = k in SEQ_TYPES and dunder in SQ_DUNDERS
                if type(attr).__name__ == "function" or attr is None:
                    foreign = "b"
                elif derived_ne and type(getattr(cls, "__eq__", None)).__name__ == "function":
                    foreign = "b"
                else:
                    foreign = "s"
                    if probe_self is not NO_PROBE:
                        try:
                            if getattr(cls, dunder)(probe_self, Foreign()) is NotImplemented:
                                foreign = "d"
                        except Exception:       # noqa
                            foreign = "s"
                tok = "slot=%d:%s:%d:%d:%s" % (self.cls_id(cls), dunder, sid, 1 if sq else 0, foreign)
                if tok not in self.tokens:
                    self.tokens.append(tok)
                return sid
        return None

    def add(self, tok):
        if tok not in self.tokens:
            self.tokens.append(tok)

    def finish(self):
        t, f = self.intern(True), self.intern(False)
        self.add("true=%d" % t)
        self.add("false=%d" % f)
        self.add("post=truth:%d:v%d" % (t, t))
        self.add("post=truth:%d:v%d" % (f, f))
        for i, bits in sorted(self.kinds.items()):
            self.add("kind=%d:%s" % (i, bits))
        return " ".join(self.tokens)

    def subclass_tokens(self, classes):
        for a in classes:
            for b in classes:
                if a is not b and issubclass(a, b):
                    self.add("sub=%d:%d" % (self.cls_id(a), self.cls_id(b)))

    def posts_closure(self, rounds=2):
        done = set()
        for _ in range(rounds):
            for i in range(len(self.objs)):
                if i in done:
                    continue
                done.add(i)
                x = self.objs[i][0]
                for p in POSTS:
                    self.add("post=%s:%d:%s" % (p, i, self.res(lambda: do_post(p, x))))


def call_slot(cls, dunder, *args):
    attr = getattr(cls, dunder)
    return attr(*args)


PLACE_CODE = {"proxy-left": "L", "proxy-right": "R", "both": "B", "none": "N", "proxy": "P"}


def request(case, placement=None, raw=None):
    """-> (line, table) ; placement overrides the case's (use 'none' for the protocol-only request);
    raw: the operand objects to tabulate on (identity matters for hash/is), default freshly built"""
    fam, op = case["family"], case["op"]
    if raw is None:
        _, raw, _ = pc.case_operands(case)
    T = Table()
    for i, v in enumerate(raw[:2] if fam != "isinstance" else raw[:1]):
        got = T.intern(v)
        assert got == i or (i == 1 and raw[0] is raw[1]), (got, i)
    if fam in ("binary", "comparison"):
        l, r = raw
        if l is r:
            # value ids must differ: the wire fixes l=0, r=1
            T.objs.append((r, r))
            T.kinds[1] = kind_bits(r)
            T.add("same=0:1")
            T.add("same=1:0")       # `is` is symmetric (a mirrored comparison asks the other way round)
        cl, cr = type(l), type(r)
        T.add("cls=0:%d" % T.cls_id(cl))
        T.add("cls=1:%d" % T.cls_id(cr))
        T.subclass_tokens([cl, cr])
        d, rd = op, pc.BINARY[op][0]
        for cls, me, other, mi, oi in ((cl, l, r, 0, 1), (cr, r, l, 1, 0)):
            for dun in (d, rd):
                sid = T.slot(cls, dun, probe_self=me)
                if sid is not None:
                    T.add("call=%d:%d:%d:%s" % (sid, mi, oi, T.res(lambda: call_slot(cls, dun, me, other))))
        head = "bin %s %s" % (pc.BINOP_LEAN[op], PLACE_CODE[placement or case["placement"]])
    elif fam in ("unary", "conversion") or (fam == "container" and op in pc.CONV):
        v = raw[0]
        c = type(v)
        T.add("cls=0:%d" % T.cls_id(c))
        present = False
        for dun in pc.CONV_DUNDERS:
            sid = T.slot(c, dun)
            if sid is None:
                continue
            if dun in pc.CONV[op][1]:
                present = True
            args = ("",) if dun == "__format__" else ()
            T.add("call1=%d:0:%s" % (sid, T.res(lambda: call_slot(c, dun, v, *args))))
        if not present:
            T.add("fb=%s:0:%s" % (op, T.res(lambda: pc.CONV[op][0](v))))
        T.posts_closure()
        head = "conv %s %s" % (op, PLACE_CODE[placement or "proxy"])
    elif fam == "container":
        c, k = raw
        if c is k:
            T.objs.append((k, k))
            T.kinds[1] = kind_bits(k)
            T.add("same=0:1")
            T.add("same=1:0")       # `is` is symmetric (a mirrored comparison asks the other way round)
        cc = type(c)
        T.add("cls=0:%d" % T.cls_id(cc))
        T.add("cls=1:%d" % T.cls_id(type(k)))
        dun = "__getitem__" if op == "getitem" else "__contains__"
        sid = T.slot(cc, dun)
        if sid is not None:
            T.add("call=%d:0:1:%s" % (sid, T.res(lambda: call_slot(cc, dun, c, k))))
        elif op == "contains":
            T.add("itc=0:1:%s" % T.res(lambda: k in c))
        T.posts_closure(1)
        head = "%s %s" % (op, PLACE_CODE[placement or "proxy"])
    elif fam == "isinstance":
        v, C = raw
        c = type(v)
        T.add("cls=0:%d" % T.cls_id(c))
        if issubclass(c, C) and c is not C:
            T.add("sub=%d:%d" % (T.cls_id(c), T.cls_id(C)))
        if C is object:
            T.add("sub=%d:%d" % (PROXY_CLS, T.cls_id(C)))
        head = "isinst %s %d" % (PLACE_CODE[placement or "proxy"], T.cls_id(C))
    else:
        raise ValueError(fam)
    return head + " " + T.finish(), T


def parse_answer(ans):
    parts = ans.split(" ")
    if parts[0] != "ok":
        return {"bad": ans}
    kv = dict(p.split("=", 1) for p in parts[1:])
    return kv


def compare(kv, T, outcome, check_wrapped=True):
    """kv: model answer; outcome: pc.run(...) result. -> None if they agree, 'skip' if unmodelled, else text."""
    if "bad" in kv:
        return "driver: %s" % kv["bad"]
    if "is" in kv:
        if outcome[0] != "ok" or outcome[1] is not (kv["is"] == "1"):
            return "model isinstance=%s real %r" % (kv["is"], outcome[:2])
        return None
    res = kv["res"]
    if res == "u":
        return "skip"
    if res == "e9999":
        return "model reached an untabulated slot call"
    if res.startswith("e"):
        return None if outcome[0] == "exc" else "model raises, real gives %r" % (outcome[1],)
    if res.startswith("v") and isinstance(T.value(int(res[1:])), tuple) and T.value(int(res[1:]))[:1] == ("iter-raises",):
        # the model's result is an iterator whose consumption raises (old-style __getitem__ iteration): listing it,
        # which is how iterators are compared, raises on the real side too
        return None if outcome[0] == "exc" else "model gives a failing iterator, real %r" % (outcome[1],)
    if outcome[0] != "ok":
        return "model gives %s, real raises %s" % (res, outcome[1])
    if (outcome[3] != "") != (kv["printed"] == "1"):
        return "model printed=%s, real stdout %r" % (kv["printed"], outcome[3][:40])
    if check_wrapped and bool(outcome[2]) != (kv["wrapped"] == "1"):
        return "model wrapped=%s, real wrapped=%s" % (kv["wrapped"], outcome[2])
    if res == "ni":
        return None if outcome[1] is NotImplemented else "model gives NotImplemented, real %r" % (outcome[1],)
    want = T.value(int(res[1:]))
    if outcome[1] is NotImplemented or not pc.same_value(want, outcome[1]):
        return "model gives %r, real %r" % (want, outcome[1])
    return None

"""C13 — grading a submission is independent of what the process graded before it."""
import atexit
import json
import os
import shutil
import subprocess
import sys
import tempfile
import time
from concurrent.futures import ThreadPoolExecutor

from common import REPO, VERIF, CorrResult, Failure, run_check, use_repo

use_repo()

import procstate_common as pc                                   # noqa: E402
import procstate_gen as gen                                     # noqa: E402
from translate_procstate import translate                       # noqa: E402

THEOREMS = ["Pedal.ProcState." + t for t in [
    "c13_tables_ok", "c13_every_init_field_is_reset", "c13_every_mutated_field_is_cleared",
    "clear_resets_observable", "history_independent",
    "c13_clear_resets_observable", "c13_history_independent", "c13_position_independent", "c13_idempotent",
    "c13_invariant_kept"]]

NOTES = [
    "the model's process state = the fields Report.__init__ creates (regenerated from the AST), MAIN_REPORT._tool_data "
    "with the lazy per-tool reset, the class-attribute store with per-class override backups and the report's "
    "registrations (shared with C20), the class-level pool table Feedback._pools, and pedal.types.new_types.BUILTIN_MODULES",
    "a field's value is abstract: the list of mutations it received since it was last put back to its initial value; which "
    "fields a Report method (or another module of the package) mutates, and which statements Report.clear executes, are "
    "regenerated from the ASTs on every run and interpreted by the model",
    "NOT in the model (covered only by the differential runs against a fresh interpreter): sandbox patches of sys.stdout / "
    "sys.modules / time.sleep, tracing, the CAIT node attributes planted on shared ast singletons, pedal.questions' pool "
    "counters, environment-module globals (gradescope/vpl score_maximum), logging/warnings configuration, the tool registry "
    "Report.TOOLS, anything a script writes directly into an object's attributes instead of going through pedal's API "
    "(MAIN_REPORT.class_hooks[...] = ..., gently.title = ...), and the interpreter itself (see the open findings)",
    "class_hooks is deliberately kept by Report.clear (its docstring says so); the only API that writes it, "
    "Report.add_class_hook, raises AttributeError on this tree (the class has no such attribute) - the translator checks that",
    "an unseeded A/B pool choice (random.choice over the process-wide generator) and submissions that read random numbers, "
    "the clock or object addresses differ between two fresh interpreters as well and are not generated",
    "class objects a script defines are new objects in every grading (CPython); in the model the class hierarchy is an "
    "arbitrary fixed function, so the theorems hold for every hierarchy",
]

WORKER = os.path.join(VERIF, "harness", "procstate_worker.py")
JOBS = max(2, min(12, (os.cpu_count() or 4) - 2))
#: gradings run with this as their working directory (tracing may drop a .coverage file there)
SCRATCH = tempfile.mkdtemp(prefix="c13_run_")
atexit.register(shutil.rmtree, SCRATCH, True)


# ---------------------------------------------------------------------------------------------
# running gradings in subprocesses

class WorkerError(Exception):
    pass


def run_worker(gradings, timeout=240):
    env = dict(os.environ)
    env["PYTHONHASHSEED"] = "0"
    # every interpreter gets an empty working directory of its own and reports through a file next to it
    cwd = tempfile.mkdtemp(prefix="w_", dir=SCRATCH)
    path = cwd + ".json"
    try:
        p = subprocess.run([sys.executable, "-X", "utf8", "-W", "ignore", WORKER, REPO, path],
                           input=json.dumps([gen.wire(g) for g in gradings]), capture_output=True, text=True,
                           timeout=timeout, env=env, cwd=cwd)
        if p.returncode != 0:
            raise WorkerError("worker exit %s: %s" % (p.returncode, p.stderr[-600:]))
        try:
            with open(path, encoding="utf-8") as fh:
                out = json.load(fh)
        except ValueError:
            raise WorkerError("worker wrote no JSON: %s" % p.stderr[-300:])
    finally:
        shutil.rmtree(cwd, True)
        try:
            os.unlink(path)
        except OSError:
            pass
    if len(out) != len(gradings):
        raise WorkerError("worker answered %d results for %d gradings" % (len(out), len(gradings)))
    return out


def pmap(fn, items):
    with ThreadPoolExecutor(JOBS) as ex:
        return list(ex.map(fn, items))


def fresh_one(g):
    try:
        return run_worker([g])[0]
    except (WorkerError, subprocess.TimeoutExpired) as e:
        return {"worker_error": str(e)[:300]}


def cmpable(r):
    """what is compared between a grading in a history and its fresh run: everything but the state the caller's objects
    were in BEFORE the grading (that is the history itself)"""
    return {k: v for k, v in r.items() if k != "caller_before"}


def diff_fields(a, b):
    a, b = cmpable(a), cmpable(b)
    out = []
    for k in sorted(set(a) | set(b)):
        if a.get(k) != b.get(k):
            if k == "resolution" and isinstance(a.get(k), dict) and isinstance(b.get(k), dict):
                out += ["resolution." + kk for kk in sorted(a[k]) if a[k].get(kk) != b[k].get(kk)]
            else:
                out.append(k)
    return out


# ---------------------------------------------------------------------------------------------
# operation-level sessions (model vs real)

SESSION_CORPUS = [
    {"classes": [], "ops": [{"op": "ov", "cls": "runtime_error", "fields": {"title": "X"}},
                            {"op": "ov", "cls": "type_error", "fields": {"title": "Y"}}, {"op": "clear"},
                            {"op": "resolve", "probes": [["runtime_error", "title"], ["type_error", "title"]]}]},
    {"classes": [], "ops": [{"op": "call", "method": "set_pools"},
                            {"op": "ovp", "cls": "gently", "pool": "A", "fields": {"title": "POOL-A"}},
                            {"op": "resolve", "probes": []}, {"op": "clear"}, {"op": "resolve", "probes": []}]},
    {"classes": [], "ops": [{"op": "tifa", "k": 1}, {"op": "tifa", "k": 2}, {"op": "clear"}, {"op": "use", "tool": "tifa"},
                            {"op": "tifa", "k": 3}, {"op": "clear"}, {"op": "use", "tool": "sandbox"}, {"op": "tifa", "k": 4}]},
    {"classes": [], "ops": [{"op": "call", "method": "add_class_hook"}, {"op": "fb", "cls": "gently", "attrs": ["title"], "trig": True},
                            {"op": "clear"}, {"op": "fb", "cls": "gently", "attrs": ["title"], "trig": False},
                            {"op": "resolve", "probes": []}]},
    {"classes": [{"name": "U0", "base": "gently", "attrs": {}}],
     "ops": [{"op": "ov", "cls": "gently", "fields": {"title": "X"}}, {"op": "ov", "cls": "U0", "fields": {"title": "Y", "nope": 1}},
             {"op": "resolve", "probes": [["U0", "title"], ["gently", "title"]]}, {"op": "clear"},
             {"op": "resolve", "probes": [["U0", "title"], ["gently", "title"]]}]},
]


def gen_session(rng):
    case = {"classes": [], "ops": []}
    names = list(pc.lib_classes())
    constructible = list(pc.CONSTRUCTIBLE)
    for i in range(rng.randint(0, 2)):
        base = rng.choice(constructible + ["runtime_error"])
        attrs = {}
        if rng.random() < 0.5:
            attrs[rng.choice(pc.ATTRS)] = rng.choice(["own", "", None])
        case["classes"].append({"name": "U%d" % i, "base": base, "attrs": attrs})
        names.append("U%d" % i)
        if base in constructible:
            constructible.append("U%d" % i)
    k = 0
    for _ in range(rng.randint(5, 16)):
        r = rng.random()
        if r < 0.2:
            case["ops"].append({"op": "call", "method": rng.choice(pc.CALLABLE_METHODS)})
        elif r < 0.25:
            case["ops"].append({"op": "poke", "field": rng.choice(["result", "resolves", "feedback", "class_hooks"])})
        elif r < 0.35:
            case["ops"].append({"op": "fb", "cls": rng.choice(constructible), "attrs": rng.sample(pc.ATTRS, rng.randint(0, 2)),
                                "trig": rng.random() < 0.6})
        elif r < 0.55:
            fields = {a: rng.choice(["OV1", "OV2", "", None]) for a in rng.sample(pc.ATTRS, rng.randint(1, 2))}
            if rng.random() < 0.12:
                fields["no_such_attr"] = 1
            case["ops"].append({"op": "ov", "cls": rng.choice(names), "fields": fields})
        elif r < 0.62:
            case["ops"].append({"op": "ovp", "cls": rng.choice(names), "pool": rng.choice(["A", "B"]),
                                "fields": {rng.choice(pc.ATTRS): rng.choice(["P1", "P2"])}})
        elif r < 0.7:
            case["ops"].append({"op": "use", "tool": rng.choice(pc.TOOLS)})
        elif r < 0.78:
            case["ops"].append({"op": "mut", "tool": rng.choice(pc.TOOLS)})
        elif r < 0.85:
            k += 1
            case["ops"].append({"op": "tifa", "k": k})
        elif r < 0.93:
            case["ops"].append({"op": "clear"})
        probes = [[rng.choice(names), rng.choice(pc.ATTRS)] for _ in range(rng.randint(0, 3))]
        if rng.random() < 0.35:
            case["ops"].append({"op": "resolve", "probes": probes})
    case["ops"].append({"op": "clear"})
    case["ops"].append({"op": "resolve", "probes": [[n, "title"] for n in names]})
    return case


def correspond(rng, tier, driver):
    res = CorrResult()
    res.rule = ("operation sessions = corpus + seeded random (0-2 generated subclasses; 5-16 ops: Report methods suppress / "
                "hide_correctness / add_hook / set_formatter / start_group / set_pools / contextualize / add_class_hook, writes "
                "to result/resolves, feedback construction, override() on base and derived classes incl. failing ones, "
                "override_for_pool, report[tool] reads and writes for 5 tools, tifa_analysis of programs that add attributes to a "
                "builtin module, clear()); real = MAIN_REPORT, the real classes, Feedback._pools, BUILTIN_MODULES; model = "
                "Pedal.ProcState.step through driver_c13 interpreting the regenerated tables; compared after every op: raised "
                "class, which fields differ from a fresh Report, class attribute lookups, pool table, registered classes, "
                "tool data, builtin-module additions; non-trivial = the session has state to reset at a clear()")
    tab = pc.table_info(driver)
    res.count("tableOk" if tab["tableOk"] else "tableNotOk")
    n = 150 if tier == "quick" else 1500
    cases = list(SESSION_CORPUS) + [gen_session(rng) for _ in range(n)]
    for case, real, model, diffs in pc.run_sessions(driver, cases, tab["fields"]):
        res.evaluations += 1
        for op in case["ops"]:
            res.count("op:" + op["op"])
        if any(o["op"] in ("ov", "ovp", "tifa", "mut", "call") for o in case["ops"]):
            res.nontrivial.add(pc.dumps(case))
        if diffs:
            res.disagreements.append({"case": case, "real": real, "model": model, "fields": diffs[:6]})
    res.samples = cases[-2:]
    return res


# ---------------------------------------------------------------------------------------------
# the property itself: every grading of a history vs the same grading run first in a fresh interpreter

def history_results(h):
    try:
        return run_worker(h, timeout=60 + 2 * len(h))
    except (WorkerError, subprocess.TimeoutExpired) as e:
        return [{"worker_error": str(e)[:300]}] * len(h)


def still_differs(h, fresh_last):
    out = history_results(h)[-1]
    return cmpable(out) != cmpable(fresh_last) and "worker_error" not in out


def shrink_history(h, i, fresh_last):
    """smallest history found whose last grading (h[i]) still differs from its fresh result"""
    target = h[i]
    # one predecessor is usually enough: try them all at once
    singles = pmap(lambda j: still_differs([h[j], target], fresh_last), range(i))
    for j, ok in enumerate(singles):
        if ok:
            return [h[j], target]
    cur, budget = list(h[:i]), 10
    j = len(cur) - 1
    while j >= 0 and budget > 0:
        cand = cur[:j] + cur[j + 1:]
        budget -= 1
        if still_differs(cand + [target], fresh_last):
            cur = cand
        j -= 1
    return cur + [target]


def search(rng, tier, broken, corr):
    t0 = time.time()
    info = {"rule": "every grading of corpus + seeded random histories (instructor scripts assembled from %d state-touching "
                    "fragments incl. crashes at any position, %d submissions, environments standard/blockpy/terminal/gradescope, "
                    "skip_tifa/skip_run, immediate repetitions; a third of the generated gradings and all reuse-* histories hand in "
                    "the CALLER'S OWN objects again - the same Submission object or a new Submission around the same files dict, "
                    "graded twice by the same script, after a crash, and then by other scripts; explicit-report-* histories pass "
                    "the caller's own Report object to the environment and to every command - and after every grading the "
                    "caller's Submission / files dict must be as the caller made them (main file, main code, files, line "
                    "offsets, metadata); plus every fragment, alone and followed by a crash, right "
                    "before each of %d probe gradings - all fragments in thorough, 6 sampled ones in quick), run by "
                    "Bundle.run_ics_bundle one after the other in ONE "
                    "interpreter, compared with the same grading run first in a FRESH interpreter on (label, title, message, "
                    "correct, score), the captured output and the class of the error; plus %d submissions that change the "
                    "interpreter itself, each followed by a probe" % (len(gen.FRAGMENTS), len(gen.SUBMISSIONS),
                                                                    len(gen.PROBES), len(gen.INTERPRETER_STATE)),
            "evaluations": 0, "distinct_nontrivial": 0, "samples": [], "skipped": {}}
    n_pool = (70 if tier == "quick" else 900) * (2 if broken else 1)
    n_hist = (8 if tier == "quick" else 70) * (2 if broken else 1)
    len_hist = 40 if tier == "quick" else 110
    pool = [gen.gen_grading(rng) for _ in range(n_pool)]
    # the caller keeps some of its Submission objects / files dicts and hands them in again
    pool = [gen.kept_by_caller(g, rng) if rng.random() < 0.3 else g for g in pool]
    histories = [(name, h) for name, h in gen.CORPUS] + list(gen.REUSE_CORPUS)
    for k in range(n_hist):
        h = []
        while len(h) < len_hist:
            g = rng.choice(pool)
            h.append(g)
            if rng.random() < 0.08 or ("share" in g and rng.random() < 0.3):
                h.append(g)                     # the same pair twice in a row
        histories.append(("random-%d" % k, h))
    # every fragment (also followed by a crash) right before every probe: all of them in thorough, a sample in quick
    frs = list(gen.PLAIN) if tier == "thorough" else rng.sample(gen.PLAIN, 6)
    histories += gen.systematic_histories(frs)
    # caller-owned objects: every fragment that touches the submission's code, plus the sampled ones, graded twice and
    # followed by other scripts on the SAME Submission object / the same files dict
    reuse = [f for f in gen.PLAIN if f.startswith(("sections", "set_source", "submission", "recontext", "verify", "clear"))]
    reuse += [f for f in (frs if tier == "thorough" else frs[:3]) if f not in reuse]
    histories += gen.reuse_histories(reuse, wide=(tier == "thorough"))
    # the caller's own Report object passed explicitly to every grading of a history
    xfr = [f for f, _ in gen.XFRAGMENTS]
    histories += gen.explicit_report_histories(xfr if tier == "thorough" else rng.sample(xfr, 5))
    for name, a, b in gen.INTERPRETER_STATE:
        histories.append(("interpreter:" + name, [
            {"frags": ["nothing"], "sub": name, "script": gen.H, "code": a, "env": "standard"},
            {"frags": ["probe"], "sub": name + "-probe", "script": gen.PROBE_SCRIPT, "code": b, "env": "standard"}]))
    # fresh results, one interpreter each
    distinct = {}
    for _, h in histories:
        for g in h:
            distinct.setdefault(gen.key(g), g)
    keys = list(distinct)
    fresh = dict(zip(keys, pmap(lambda k: fresh_one(distinct[k]), keys)))
    info["fresh_interpreters"] = len(keys)
    info["t_fresh_s"] = round(time.time() - t0, 1)
    outs = pmap(lambda nh: history_results(nh[1]), histories)
    info["t_histories_s"] = round(time.time() - t0, 1)
    found, changed = {}, {}
    for (name, h), res in zip(histories, outs):
        tainted = set()
        for i, (g, o) in enumerate(zip(h, res)):
            f = fresh[gen.key(g)]
            if "worker_error" in f or "worker_error" in o:
                info["skipped"]["worker-error"] = info["skipped"].get("worker-error", 0) + 1
                info["last_worker_error"] = (f.get("worker_error") or o.get("worker_error"))
                continue
            if g.get("share_id") in tainted:
                # an earlier grading of this history, of a kind that is generated with caller-owned objects only behind
                # the gate, turned out to leave this object changed (a script that raised while sections were active)
                info["skipped"]["object-changed-by-gated-input"] = info["skipped"].get("object-changed-by-gated-input", 0) + 1
                continue
            info["evaluations"] += 1
            if i > 0:
                info["distinct_nontrivial"] += 1
            if "share" in g:
                info["reused_objects"] = info.get("reused_objects", 0) + 1
            # the caller's own objects (Submission, files dict) are as the caller made them, unless the script is one
            # of those meant / known to change them (generated only behind the gate)
            if f.get("caller_after"):
                reasons = gen.reuse_gated_reasons(g, f)
                if gen.gate_open(reasons):
                    changed.setdefault((tuple(f["caller_after"]), "+".join(reasons) or None), g)
                elif g.get("share_id"):
                    tainted.add(g["share_id"])
            if cmpable(o) != cmpable(f):
                kind = name if name.startswith("interpreter:") else "history"
                found.setdefault((kind, tuple(diff_fields(o, f))), (name, h, i, o, f))
    failures = []
    for (fields, reason), g in list(changed.items())[:4]:
        f = fresh_one(g)
        if list(fields) != f.get("caller_after"):
            info["skipped"]["fresh-result-not-reproducible"] = info["skipped"].get("fresh-result-not-reproducible", 0) + 1
            continue
        sig = {"kind": "caller-object-changed", "fields": list(fields)}
        if reason:
            sig["input"] = reason
        failures.append(Failure(sig, "one grading in a fresh interpreter (%s on submission %r, %s) leaves the caller's Submission / files "
                                     "dict changed in %s: the next grading of the same object sees something else than the student "
                                     "handed in" % ("+".join(g.get("frags", [])), g.get("sub"), g.get("env"), list(fields)),
                                {"history": [dict(gen.wire(g), frags=g.get("frags"), sub=g.get("sub"))], "fresh": f,
                                 "caller_changed": list(fields)}))
    # a broken reset shows up in many gradings: three shrunk witnesses are enough (plus the interpreter probes)
    items = [kv for kv in found.items() if kv[0][0] != "history"] + [kv for kv in found.items() if kv[0][0] == "history"][:3]
    for (kind, differs), (name, h, i, o, f) in items:
        g = h[i]
        # the fresh result must itself be reproducible, otherwise this is not a history effect
        f2 = fresh_one(g)
        if cmpable(f2) != cmpable(f):
            info["skipped"]["fresh-result-not-reproducible"] = info["skipped"].get("fresh-result-not-reproducible", 0) + 1
            continue
        small = shrink_history(h, i, f) if i > 0 else [g]
        if i == 0 or not still_differs(small, f):
            info["skipped"]["difference-not-reproducible"] = info["skipped"].get("difference-not-reproducible", 0) + 1
            continue
        got = history_results(small)[-1]
        if kind.startswith("interpreter:"):
            sig = {"kind": "interpreter-state", "via": kind.split(":", 1)[1]}
        else:
            sig = {"kind": "history-dependence", "after": sorted({x for gg in small[:-1] for x in gg.get("frags", [])}),
                   "differs": diff_fields(got, f)}
            if "share" in g:
                # only when the caller hands the same objects in again; the twin with fresh objects does not differ
                twin = [{k: v for k, v in gg.items() if k not in ("share", "share_id")} for gg in small]
                if not still_differs(twin, fresh_one(twin[-1])):
                    sig["reused"] = g["share"]
        what = ("after %d earlier grading(s) [%s] the grading (%s on submission %r, %s) gives %s instead of %s" % (
            len(small) - 1, "; ".join("+".join(gg.get("frags", [])) for gg in small[:-1]), "+".join(g.get("frags", [])),
            g.get("sub"), g.get("env"), _brief(got), _brief(f)))
        failures.append(Failure(sig, what, {"history": [dict(gen.wire(x), frags=x.get("frags"), sub=x.get("sub")) for x in small],
                                            "fresh": f, "in_history": got}))
    info["samples"] = [dict(frags=g.get("frags"), sub=g.get("sub"), env=g.get("env")) for g in pool[:3]]
    info["histories"] = len(histories)
    info["t_total_s"] = round(time.time() - t0, 1)
    return failures, info


def _brief(r):
    res = r.get("resolution") or {}
    return json.dumps({"label": res.get("label"), "title": res.get("title"), "correct": res.get("correct"),
                       "score": res.get("score"), "error": r.get("error"), "output": (r.get("output") or "")[:80]})


def replay(payload):
    rp = payload.get("replay", {})
    if "history" not in rp:
        print("no failing history in this replay (proof/correspondence breakage):")
        print(json.dumps(payload.get("no_longer_checks"), indent=1))
        for d in payload.get("disagreements", [])[:3]:
            print(json.dumps(d, indent=1, default=str)[:3000])
        return 0
    h = rp["history"]
    print("history of %d gradings; the last one is the one compared" % len(h))
    for g in h:
        print("---- script (%s, env=%s)\n%s---- submission\n%s" % ("+".join(g.get("frags") or []), g.get("env"), g["script"], g["code"]))
    fresh = fresh_one(h[-1])
    got = history_results(h)[-1]
    print("==== fresh interpreter :", json.dumps(fresh, indent=1))
    print("==== after the history :", json.dumps(got, indent=1))
    print("==== differs in        :", diff_fields(got, fresh))
    if rp.get("caller_changed"):
        print("==== the caller's objects after this one grading differ from how they were made in:", fresh.get("caller_after"))
        return 1 if fresh.get("caller_after") else 0
    return 1 if cmpable(got) != cmpable(fresh) else 0


if __name__ == "__main__":
    sys.exit(run_check("C13", proof_modules=["PedalProofs.C13"], theorems=THEOREMS, driver_exe="driver_c13",
                       translate=translate, correspond=correspond, search=search, replay=replay,
                       model_notes=NOTES, leanchecker_modules=["PedalProofs.C13"]))

"""
C13 generators: instructor scripts (assembled from fragments that each touch some piece of process state),
student submissions, gradings and histories.  Everything is a plain JSON-able value; all randomness comes from
the rng handed in.
"""

import os

H = "from pedal import *\n"

# --------------------------------------------------------------------------------------------------
# student submissions.  None of them reads process state that nothing in pedal owns
# (random numbers, time, object addresses): those would differ between two fresh interpreters as well.

SUBMISSIONS = {
    "ok": "def f(x):\n    return x + x\nprint(f(1))\n",
    "ok_used": "def f(x):\n    return x + x\ny = f(2)\nprint(y)\n",
    "wrong": "def f(x):\n    return x\nprint(f('hello'))\n",
    "zerodiv": "def f(x):\n    return x + x\nprint(f(1))\nprint(1/0)\n",
    "nameerr": "print(undefined_name)\n",
    "typeerr": "print('a' + 1)\n",
    "keyerr": "d = {'a': 1}\nprint(d['b'])\n",
    "syntax": "def f(:\n  pass\n",
    "indent": "x = 1\n    y = 2\nprint(x)\n",
    "uses_len": "def f(x):\n    return x + x\nprint(len([1, 2, 3]))\n",
    "unused": "x = 0\ny = 5\nprint('hi')\n",
    "empty": "",
    "input": "n = input('n?')\nprint(int(n) + 1)\n",
    "input2": "a = input()\nb = input()\nprint(a + b)\n",
    "sections": "a = 1\nprint(a)\n##### Part 1\nb = 2\nprint(b)\n##### Part 2\nc = 3\nprint(c + 1)\n",
    "sections_bad": "a = 1\n##### Part 1\nprint(zzz)\n##### Part 2\nprint(2)\n",
    "openf": "print(open('data.txt').read())\n",
    # section markers at the edges: an empty prologue, a last section without a newline, CRLF inside a section
    "sections_edge": "##### Part 1\nb = 2\nprint('one', b)\n##### Part 2\nc = b + 3\nprint('two', c)",
    "sections_long": "import math\na = 1\nprint('prologue', a)\n##### Part 1\nb = a + 1\nprint('one', b)\n##### Part 2\nc = b + 3\n"
                     "print('two', c)\n##### Part 3\nprint(math.floor(c / 2))\n",
    "imports": "import os\nimport math\nprint(math.sqrt(4))\n",
    "mathuse": "import math\nprint(math.extra)\n",
    "mathpi": "import math\nx = math.pi + 1\nprint(x)\n",
    "loop": "total = 0\nfor i in [1, 2, 3]:\n    total = total + i\nprint(total)\n",
    "sleep": "import time\ntime.sleep(0)\nprint('done')\n",
    "plot": "import matplotlib.pyplot as plt\nplt.plot([1, 2, 3])\nplt.title('T')\nplt.show()\n",
    "klass": "class A:\n    def __init__(self):\n        self.v = 1\na = A()\nprint(a.v)\n",
    "printer": "print('line one')\nprint('line two')\n",
    "globals": "counter = 0\ndef bump():\n    global counter\n    counter = counter + 1\n    return counter\nprint(bump())\nprint(bump())\n",
    "exit": "print('before')\nexit()\nprint('after')\n",
    "recursion": "def r(n):\n    return r(n + 1)\nr(0)\n",
    "raise": "raise ValueError('student raised')\n",
    "builtin_name": "def compile(items):\n    return len(items)\nprint(compile([1, 2]))\n",
}

# --------------------------------------------------------------------------------------------------
# script fragments.  (name, code).  Any fragment may raise for some submissions: crashing scripts are in scope.

FRAGMENTS = [
    # feedback commands
    ("gently", "gently('hi there')\n"),
    ("gently_low", "gently('low one', priority='low', label='low_one')\n"),
    ("explain", "explain('You did X', label='did_x', title='X!')\n"),
    ("compliment", "compliment('nice', score='+10%')\n"),
    ("partial", "give_partial(.5)\n"),
    ("set_correct", "set_correct()\n"),
    ("guidance", "guidance('try again')\n"),
    ("custom_cls", "class my_fb(Feedback):\n    title = 'Mine'\n    message_template = 'Custom {x}'\n    category = 'instructor'\n    justification = 'because'\nmy_fb(x=5)\n"),
    ("untriggered_scored", "gently('never shown', activate=False, score='+25%', label='never_shown')\n"),
    ("custom_untriggered", "class quiet_fb(Feedback):\n    title = 'Quiet'\n    message_template = 'Quiet {x:name}'\n    category = 'instructor'\nquiet_fb(x='v', activate=False)\n"),
    # assertions / sandbox
    ("ensure_f", "ensure_function('f')\n"),
    ("assert_call", "assert_equal(call('f', 2), 4)\n"),
    ("unit_test", "unit_test('f', ((1,), 2), ((3,), 6))\n"),
    ("assert_output", "assert_output(student, '2')\n"),
    ("assert_has_var", "assert_has_variable(student, 'total')\n"),
    ("assert_group", "with assert_group('grp'):\n    assert_equal(call('f', 1), 2)\n    assert_equal(call('f', 2), 5)\n"),
    ("evaluate", "assert_equal(evaluate('1 + 1'), 2)\n"),
    ("run_again", "run()\n"),
    ("student_out", "print(repr(student.output))\n"),
    ("student_vars", "print(sorted(k for k in student.data if not k.startswith('__') and k not in ('compile', 'eval', 'exec', 'exit', 'globals', 'input', 'open')))\n"),
    ("inputs", "set_input(['5', '6'])\nrun()\nprint(repr(student.output))\n"),
    ("queue", "queue_input('7', '8')\nrun()\nprint(repr(student.output))\n"),
    ("clear_data", "clear_student_data()\nrun()\n"),
    # mocking / allowing / blocking
    ("mock_fn", "mock_function('len', lambda x: 99)\nrun()\nprint(repr(student.output))\n"),
    # an execution NESTED in an execution: the instructor's replacement for a builtin calls back into the student's
    # code while the student's program is still running (both push and pop the sandbox's patch / stdout stacks)
    ("nested_exec", "def _verif_lookup(*args):\n    return student.call('f', 2)\nmock_function('len', _verif_lookup)\nrun()\nprint(repr(student.output))\n"),
    ("nested_input", "def _verif_answer(prompt=''):\n    student.evaluate('1 + 1')\n    return '7'\nset_input(_verif_answer)\nrun()\n"),
    ("block_print", "block_function('print')\nrun()\n"),
    ("allow_open", "allow_function('open')\nrun()\n"),
    ("block_math", "block_module('math')\nrun()\n"),
    ("allow_os", "allow_module('os')\nrun()\n"),
    ("mock_math", "mock_module('math', {'sqrt': lambda x: -1, 'floor': lambda x: 0}, 'math')\nrun()\nprint(repr(student.output))\n"),
    # static checks / tools
    ("prevent_plus", "prevent_operation('+')\n"),
    ("ensure_lit", "ensure_literal(5)\n"),
    ("prevent_os", "prevent_import('os')\n"),
    ("cait", "matches = find_matches('_x_ = 0')\nif matches:\n    explain('found zero init', label='zero_init')\n"),
    ("cait_count", "print(len(find_matches('_x_ + _y_')))\n"),
    ("tifa_again", "from pedal.tifa import tifa_analysis\nprint(sorted(tifa_analysis().issues))\n"),
    ("tifa_other", "from pedal.tifa import tifa_analysis\ntifa_analysis('import math\\nmath.extra = 2\\nmath.pi = \\'three\\'\\nprint(math.extra)\\n')\n"),
    ("verify_again", "verify()\n"),
    ("set_source", "set_source('print(3)')\nrun()\nprint(repr(student.output))\n"),
    ("trace", "start_trace()\nrun()\n"),
    # suppression / hiding
    ("suppress_runtime", "suppress('runtime')\n"),
    ("suppress_algo", "suppress('algorithmic')\n"),
    ("suppress_label", "suppress(label='unused_variable')\n"),
    ("suppress_cat_label", "suppress('runtime', 'name_error')\nsuppress('syntax')\n"),
    ("suppress_fields", "suppress(label='unused_variable', fields={'name': 'y'})\n"),
    ("hide", "hide_correctness()\n"),
    # formatter
    ("formatter_custom", "from pedal.core.formatting import Formatter\nclass F(Formatter):\n    def name(self, n):\n        return '<<' + str(n) + '>>'\n    def line(self, n):\n        return 'L' + str(n)\n    def python_expression(self, c):\n        return '$' + str(c) + '$'\nset_formatter(F)\n"),
    ("formatter_html", "from pedal.core.formatting import HtmlFormatter\nset_formatter(HtmlFormatter)\n"),
    # class overrides
    ("ov_runtime", "from pedal.sandbox.feedbacks import runtime_error\nruntime_error.override(title='OV-RT')\n"),
    ("ov_runtime_type", "from pedal.sandbox.feedbacks import runtime_error, type_error\nruntime_error.override(title='OV-RT')\ntype_error.override(title='OV-TYPE', priority='low')\n"),
    ("ov_type_runtime", "from pedal.sandbox.feedbacks import runtime_error, type_error, name_error\nname_error.override(title='OV-NAME')\nruntime_error.override(title='OV-RT2')\n"),
    ("ov_gently", "gently.override(title='OV-GENTLY', priority='high')\n"),
    ("ov_feedback", "Feedback.override(muted=True)\n"),
    ("ov_feedback_title", "Feedback.override(title='OV-BASE')\n"),
    ("ov_tifa", "from pedal.tifa.feedbacks import unused_variable, initialization_problem\nunused_variable.override(message_template='UNUSED {name}')\ninitialization_problem.override(title='OV-INIT')\n"),
    ("ov_source", "from pedal.source.feedbacks import syntax_error, blank_source\nsyntax_error.override(title='OV-SYNTAX')\nblank_source.override(title='OV-BLANK', message_template='nothing here')\n"),
    ("ov_assert", "from pedal.assertions.feedbacks import assert_equal as ae_fb\nae_fb.override(title='OV-ASSERT')\n"),
    ("ov_bad", "gently.override(title='OV-HALF', no_such_attribute=1)\n"),
    # the same field of the same class overridden TWICE in one grading (a course prelude, then the problem script):
    # the backup must stay the ORIGINAL value
    ("ov_twice", "from pedal.tifa.feedbacks import unused_variable\nunused_variable.override(title='OV-FIRST')\nunused_variable.override(title='OV-SECOND')\ngently.override(title='OV-G1')\ngently.override(title='OV-G2', priority='low')\n"),
    # two DIFFERENT feedback classes that share one __name__ (the static and the runtime indentation_error): each
    # must get its own backup / restore
    ("ov_same_name", "from pedal.source.feedbacks import indentation_error as static_ie\nfrom pedal.sandbox.feedbacks import indentation_error as runtime_ie\nstatic_ie.override(title='OV-STATIC-INDENT')\nruntime_ie.override(title='OV-RUNTIME-INDENT')\n"),
    ("ov_twice_none", "Feedback.override(priority='high')\nFeedback.override(priority='low')\n"),
    ("ov_correct", "from pedal.resolvers.feedbacks import set_correct_no_errors\nset_correct_no_errors.override(title='OV-DONE', message='all good')\n"),
    # pools (seeded: an unseeded A/B choice depends on the interpreter's random state by design)
    ("pools", "from pedal.core.commands import set_pools\nimport random\nrandom.seed(3)\nset_pools(2)\ngently.override_for_pool('A', title='POOL-A')\ngently.override_for_pool('B', title='POOL-B')\n"),
    ("pools_one", "from pedal.core.commands import set_pools\nset_pools(1)\nFeedback.override_for_pool('A', title='POOL-ALL')\n"),
    # hooks, groups, sections
    ("hook", "MAIN_REPORT.add_hook('pedal.report.add_feedback', lambda fb, report=None: print('HOOK', fb.label))\n"),
    ("hook_resolve", "MAIN_REPORT.add_hook('pedal.resolvers.resolve', lambda report=None: print('RESOLVING'))\n"),
    ("class_hook", "MAIN_REPORT.add_class_hook('pedal.report.add_feedback', lambda fb, report=None: print('CLASSHOOK', fb.label))\n"),
    ("group", "MAIN_REPORT.start_group('g1')\ngently('in group')\n"),
    ("sections", "separate_into_sections(independent=True)\nnext_section()\nverify()\nrun()\nprint(repr(student.output))\nnext_section()\nrun()\nprint(repr(student.output))\n"),
    ("sections_nostop", "separate_into_sections()\nnext_section()\nrun()\n"),
    # accumulating sections (independent=False), resolved normally / stopped by the script / resolved by the script /
    # stopped after the prologue / asked for one section too many / reached through set_source ... restore_code
    ("sections_dep", "separate_into_sections(independent=False)\nnext_section()\nverify()\nrun()\nprint(repr(student.output))\nnext_section()\nverify()\nrun()\nprint(repr(student.output))\n"),
    ("sections_dep_stop", "from pedal.source.sections import stop_sections\nseparate_into_sections(independent=False)\nnext_section()\nrun()\nstop_sections()\nrun()\nprint(repr(student.output))\n"),
    ("sections_dep_resolved", "separate_into_sections(independent=False)\nnext_section()\nrun()\nresolve()\nprint(len(get_submission().main_code))\n"),
    ("sections_dep_prologue", "separate_into_sections(independent=False)\nverify()\nrun()\nprint(repr(student.output))\n"),
    ("sections_dep_toofar", "from pedal.source.sections import check_section_exists\nseparate_into_sections(independent=False)\ncheck_section_exists(5)\nfor _verif_i in range(5):\n    next_section()\n"),
    ("sections_pattern", "separate_into_sections(pattern=r'^(print.+)$', independent=False)\nnext_section()\nrun()\nprint(repr(student.output))\n"),
    ("set_source_restore", "from pedal.source.source import restore_code\nset_source('print(3)')\nrun()\nprint(repr(student.output))\nrestore_code()\nrun()\nprint(repr(student.output))\n"),
    ("set_source_file", "from pedal.source.source import restore_code\nset_source('print(4)', filename='other.py')\nrun()\nrestore_code()\n"),
    ("submission_read", "_verif_s = get_submission()\nprint(repr(_verif_s.main_file), len(_verif_s.main_code), sorted(_verif_s.files), _verif_s.line_offsets)\n"),
    ("sections_toofar", "separate_into_sections()\nnext_section()\nnext_section()\nnext_section()\nnext_section()\n"),
    # report-level commands
    ("resolve_early", "resolve()\n"),
    ("clear", "clear_report()\n"),
    ("recontext", "contextualize_report('print(7)')\nrun()\nprint(repr(student.output))\n"),
    ("recontext_noclear", "contextualize_report('x = 1\\nprint(x)', clear=False)\n"),
    ("all_feedback", "print(sorted(f.label for f in get_all_feedback()))\n"),
    ("debug_log", "log('logged', 3)\ndebug('dbg')\n"),
    ("questions", "from pedal.questions import *\n"),
    # crashes
    ("crash_value", "raise ValueError('boom')\n"),
    ("crash_zero", "1 / 0\n"),
    ("crash_name", "this_name_does_not_exist\n"),
    ("crash_exit", "import sys\nsys.exit(3)\n"),
]
FRAGMENT = dict(FRAGMENTS)
CRASHES = [n for n, _ in FRAGMENTS if n.startswith("crash_")]
PLAIN = [n for n, _ in FRAGMENTS if not n.startswith("crash_")]

# corpus-only fragments (NOT in PLAIN: the random streams stay what they were): the phase machinery of pedal.assertions.
# A script that registers @phase functions / orderings and ends without a resolve() leaves them registered; the next
# grading must not see them (its own phases run, the dead script's do not).
FRAGMENT.update({
    "phase_alpha": "from pedal.assertions.organizers import phase\n@phase('alpha')\ndef _pa():\n    gently('from phase alpha', label='phase_alpha_ran')\n",
    "phase_beta": "from pedal.assertions.organizers import phase\n@phase('beta', after='alpha')\ndef _pb():\n    explain('from phase beta', label='phase_beta_ran')\n",
    "phase_gamma": "from pedal.assertions.organizers import phase\n@phase('gamma')\ndef _pg():\n    gently('from phase gamma', label='phase_gamma_ran', priority='low')\n",
    "resolve_all": "from pedal.assertions import resolve_all\nresolve_all()\n",
})

WHOLE_SCRIPTS = {
    "nothing": H,
    "no_import": "x = 1\n",
    "syntax_error": "from pedal import *\ndef (:\n",
    "import_only_report": "from pedal.core.report import MAIN_REPORT\nfrom pedal.core.commands import gently\ngently('bare')\n",
}

ENVS = ["standard"] * 6 + ["blockpy", "terminal", "gradescope"]


def script_of(names):
    return H + "".join(FRAGMENT[n] for n in names)


def gen_grading(rng):
    r = rng.random()
    if r < 0.05:
        name = rng.choice(sorted(WHOLE_SCRIPTS))
        frags, script = [name], WHOLE_SCRIPTS[name]
    else:
        frags = [rng.choice(PLAIN) for _ in range(rng.choice([1, 1, 2, 2, 3, 4]))]
        if rng.random() < 0.2:
            frags.insert(rng.randint(0, len(frags)), rng.choice(CRASHES))
        script = script_of(frags)
    sub = rng.choice(sorted(SUBMISSIONS))
    if any(f.startswith("sections") for f in frags) and rng.random() < 0.7:
        sub = rng.choice(["sections", "sections_bad"])
    g = {"frags": frags, "sub": sub, "script": script, "code": SUBMISSIONS[sub], "env": rng.choice(ENVS)}
    if rng.random() < 0.12:
        g["skip_tifa"] = True
    if rng.random() < 0.1:
        g["skip_run"] = True
    if rng.random() < 0.08:
        g["main_file"] = "student_main.py"
    return g


def key(g):
    return (g["script"], g["code"], g.get("env", "standard"), bool(g.get("skip_tifa")), bool(g.get("skip_run")),
            g.get("main_file", "answer.py"), bool(g.get("share")), tuple(sorted((g.get("files") or {}).items())), bool(g.get("report_id")))


def wire(g):
    return {k: g[k] for k in ("script", "code", "env", "skip_tifa", "skip_run", "main_file", "files", "share", "share_id",
                                  "report_id")
            if k in g}


# --------------------------------------------------------------------------------------------------
# fixed histories: (name, [gradings...]); the LAST grading of each is the one compared with a fresh run,
# every earlier position is compared as well.

def G(frags, sub, **kw):
    script = WHOLE_SCRIPTS[frags[0]] if frags and frags[0] in WHOLE_SCRIPTS else script_of(frags)
    return dict({"frags": list(frags), "sub": sub, "script": script, "code": _code(sub), "env": "standard"}, **kw)


SUBMISSIONS_CORPUS_ONLY = {"mathmod": "import math\nmath.extra = 1\nprint(math.extra + math.floor(2.5))\n",
                           "mathretype": "import math\nmath.pi = 'three'\nprint(math.pi)\n"}


def _code(sub):
    return SUBMISSIONS[sub] if sub in SUBMISSIONS else SUBMISSIONS_CORPUS_ONLY[sub]


CORPUS = [
    # base class then subclass overridden (design_probes/t6.py): titles leaked after clear on the pinned tree
    ("override-base-then-subclass", [G(["ov_runtime_type"], "ok"), G(["suppress_algo"], "typeerr"),
                                     G(["nothing"], "typeerr", skip_tifa=True), G(["nothing"], "zerodiv")]),
    ("override-subclass-then-base", [G(["ov_type_runtime"], "ok"), G(["suppress_algo"], "nameerr"), G(["nothing"], "zerodiv")]),
    # pools survive clear on the pinned tree (design_probes/t14.py)
    ("pools-then-plain", [G(["pools", "gently"], "ok"), G(["gently"], "ok")]),
    ("pools-one-then-error", [G(["pools_one"], "ok"), G(["nothing"], "zerodiv")]),
    ("override-half-failed", [G(["ov_bad"], "ok"), G(["gently"], "ok")]),
    ("override-same-name-classes", [G(["ov_same_name"], "ok"), G(["nothing"], "indent"), G(["gently"], "indent")]),
    ("override-twice-then-plain", [G(["ov_twice"], "unused"), G(["gently"], "unused")]),
    ("override-none-twice-then-plain", [G(["ov_twice_none", "gently"], "ok"), G(["gently", "explain"], "ok")]),
    ("crash-after-override", [G(["ov_gently", "ov_tifa", "crash_zero"], "unused"), G(["gently"], "unused")]),
    ("suppress-then-error", [G(["suppress_runtime", "suppress_algo"], "zerodiv"), G(["nothing"], "zerodiv")]),
    ("formatter-then-error", [G(["formatter_html"], "nameerr"), G(["nothing"], "nameerr")]),
    ("formatter-custom-then-error", [G(["formatter_custom"], "unused"), G(["nothing"], "unused")]),
    ("hook-then-feedback", [G(["hook", "gently"], "ok"), G(["gently"], "ok")]),
    ("class-hook-then-feedback", [G(["class_hook", "gently"], "ok"), G(["gently"], "ok")]),
    ("resolved-then-plain", [G(["gently", "resolve_early"], "ok"), G(["explain"], "ok")]),
    ("mock-then-run", [G(["mock_fn"], "builtin_name"), G(["student_out"], "builtin_name")]),
    ("nested-execution-then-plain", [G(["nested_exec"], "uses_len"), G(["student_out"], "printer"), G(["gently"], "ok")]),
    ("nested-input-then-plain", [G(["nested_input"], "input"), G(["student_out"], "sleep"), G(["nothing"], "imports")]),
    ("block-then-run", [G(["block_print", "block_math"], "imports"), G(["student_out"], "imports")]),
    ("sections-unfinished", [G(["sections_nostop"], "sections"), G(["gently"], "ok"), G(["sections"], "sections")]),
    ("phase-crash-then-phase", [G(["phase_alpha", "crash_zero"], "ok"), G(["phase_gamma"], "ok"), G(["gently"], "ok")]),
    ("phase-order-crash-then-phase", [G(["phase_alpha", "phase_beta", "crash_value"], "unused"),
                                      G(["phase_gamma", "resolve_all"], "unused"), G(["phase_beta"], "ok")]),
    ("phase-exit-then-resolve-all", [G(["phase_beta", "crash_exit"], "ok"), G(["resolve_all", "gently"], "ok")]),
    ("phase-then-phase", [G(["phase_alpha"], "ok"), G(["phase_gamma"], "ok")]),
    ("sections-crash", [G(["sections_nostop", "crash_value"], "sections"), G(["student_out"], "printer")]),
    ("inputs-left-over", [G(["inputs"], "input"), G(["student_out"], "input2")]),
    ("hide-then-plain", [G(["hide"], "ok"), G(["nothing"], "ok")]),
    ("group-then-plain", [G(["group"], "ok"), G(["gently"], "ok")]),
    # a program that adds an attribute to a builtin module, ANALYSED only (running it would change the real module)
    ("tifa-module-attribute", [G(["nothing"], "mathmod", skip_run=True), G(["tifa_again"], "mathuse"),
                               G(["tifa_again"], "mathuse", skip_tifa=True)]),
    ("tifa-module-retyped", [G(["nothing"], "mathretype", skip_run=True), G(["nothing"], "mathpi"),
                             G(["tifa_again"], "mathpi", skip_tifa=True)]),
    ("untriggered-scored-then-plain", [G(["untriggered_scored", "gently"], "ok"), G(["gently"], "ok")]),
    ("tifa-module-attribute-script", [G(["tifa_other"], "ok"), G(["tifa_again"], "mathuse", skip_tifa=True)]),
    ("same-pair-twice", [G(["assert_call", "compliment"], "ok"), G(["assert_call", "compliment"], "ok")]),
    ("other-environment-first", [G(["gently"], "nameerr", env="terminal"), G(["gently"], "nameerr"),
                                 G(["gently"], "nameerr", env="blockpy"), G(["gently"], "nameerr")]),
    ("exit-then-plain", [G(["crash_exit"], "exit"), G(["student_out"], "printer")]),
    ("recursion-then-plain", [G(["nothing"], "recursion"), G(["student_out"], "globals")]),
]

# --------------------------------------------------------------------------------------------------
# objects the CALLER owns and hands in again: the same Submission object (share="sub") or a new Submission around the
# same files dict (share="files") graded several times - what VerifyPipeline does with every bundle and what a run
# of several scripts over one submission does.  State that survives in THOSE objects is invisible to histories that
# build a fresh Submission for every grading.

#: the inputs below show behaviours of the UNCHANGED tree (reported, see notes/C13.md "round 4"); they are generated
#: only behind the gate: VERIF_C13_REUSE_GATED=1 (all of them) or a comma-separated list of the reasons below
# default: the two behaviours repaired by /repo commits 499dd90 and 2b2e554 are ordinary inputs now; the other reasons
# (open findings / exempt) stay behind the switch
_GATE = os.environ.get("VERIF_C13_REUSE_GATED", "independent-sections-leave-line-offsets,"
                       "sections-with-an-explicit-report-are-not-stopped-at-resolve")
REUSE_GATED = _GATE in ("1", "all")
_INDEPENDENT_SECTIONS = ("sections", "sections_nostop", "sections_toofar")     # independent=True: line offsets stay behind
_SECTION_FRAGS = tuple(n for n, _ in FRAGMENTS if n.startswith("sections"))
_SOURCE_NOT_RESTORED = ("set_source",)                                          # set_source() without restore_code()


def reuse_gated_reasons(g, fresh=None):
    """why this grading is not given caller-owned objects by default ([] = it is); with its fresh result: also
    whether the script turned out to raise while sections were active"""
    frags = g.get("frags") or []
    out = []
    if any(f in _INDEPENDENT_SECTIONS for f in frags):
        out.append("independent-sections-leave-line-offsets")
    if "xr_sections" in frags:
        out.append("sections-with-an-explicit-report-are-not-stopped-at-resolve")
    if any(f in _SOURCE_NOT_RESTORED for f in frags):
        out.append("set_source-without-restore_code")
    if "set_source_file" in frags or ("set_source_restore" in frags and g.get("main_file", "answer.py") != "answer.py"):
        out.append("set_source-under-another-filename-leaves-that-file")
    secs = [i for i, f in enumerate(frags) if f in _SECTION_FRAGS or f == "xr_sections"]
    resolved_at = [i for i, f in enumerate(frags) if "resolve" in f]
    if resolved_at and any(i > resolved_at[0] for i in secs):
        # sections started AFTER the script's own resolve() are still active when the script ends, and
        # Bundle.run_ics_bundle does not resolve a second time: same family as a crash while sections are active
        # (open finding; the repair is the same `finally:` that restores outstanding substitutions)
        out.append("crash-while-sections-are-active")
    if secs and any(f in ("recontext", "recontext_noclear") for f in frags[secs[0] + 1:]):
        # the script itself hands the report ANOTHER submission while sections are active on the first one: the
        # first Submission is then never un-sectioned - the script's own doing (like set_source without
        # restore_code), exempt, not a finding
        out.append("script-replaces-the-submission-while-sections-are-active")
    if secs and (any(f in CRASHES or f in ("xr_crash", "ov_bad") for f in frags[secs[0] + 1:])
                 or (fresh is not None and (fresh.get("error") or "raised" in fresh))):
        out.append("crash-while-sections-are-active")
    return out


def gate_open(reasons):
    return REUSE_GATED or all(r in _GATE.split(",") for r in reasons)


def reuse_gated_reason(g):
    rs = reuse_gated_reasons(g)
    return "+".join(rs) if rs else None


def shared(g, mode, sid=None):
    """the grading g with its submission objects owned by the caller (unless gated)"""
    if not gate_open(reuse_gated_reasons(g)):
        return g
    return dict(g, share=mode, share_id=sid or "%s|%s|%s" % (g.get("sub"), g.get("main_file", "answer.py"), mode))


def kept_by_caller(g, rng):
    """a pool grading whose submission objects the caller keeps and hands in again: the submission is drawn from a
    short list, so that several different scripts of one history meet on the same object"""
    sub = rng.choice(["sections", "sections_long", "openf", "zerodiv"])
    g = dict(g, sub=sub, code=SUBMISSIONS[sub])
    if sub == "openf":
        g["files"] = DATA_FILES
    return shared(g, rng.choice(["sub", "sub", "files"]))


DATA_FILES = {"data.txt": "first line\nsecond line\n", "helper.py": "def helper():\n    return 41\n"}

#: what is graded on the same objects afterwards
REUSE_PROBES = [["student_out"], ["submission_read"], ["sections_dep"], ["nothing"]]


def reuse_histories(fragments, wide=True):
    """-> [(name, history)]: for every fragment f and every way of sharing: f, f again (the same pair twice, as
    VerifyPipeline does), then other scripts on the same objects; also f followed by a crash first."""
    out = []
    subs = ["sections_long", "sections_edge", "openf", "sections", "sections_bad", "zerodiv"]
    for n, f in enumerate(fragments):
        if not gate_open(reuse_gated_reasons({"frags": [f]})):
            continue
        touches = f.startswith(("sections", "set_source", "submission"))
        for mode in ("sub", "files"):
            h = []
            for sub in (subs if wide and touches else subs[:3] if touches or wide else [subs[0], subs[2]]):
                kw = {"files": DATA_FILES} if sub == "openf" else {}
                if sub == "sections_edge":
                    kw["main_file"] = "student_main.py"
                sid = "%s|%s|%s" % (f, sub, mode)
                firsts = [[f], [f], [f, "crash_zero"]] if mode == "sub" else [[f], [f]]
                for frags in firsts + REUSE_PROBES:
                    h.append(shared(G(frags, sub, **kw), mode, sid))
            out.append(("reuse-%s-%s" % (mode, f), h))
    return out


REUSE_CORPUS = [
    # the seed C13_G shape: a sections script that resolves normally, the same pair again, then a plain script
    ("reuse-sections-twice", [shared(G(["sections_dep"], "sections_long"), "sub"), shared(G(["sections_dep"], "sections_long"), "sub"),
                              shared(G(["student_out"], "sections_long"), "sub")]),
    ("reuse-files-dict", [shared(G(["sections_dep", "gently"], "sections"), "files"), shared(G(["sections_dep", "gently"], "sections"), "files"),
                          shared(G(["unit_test"], "sections"), "files")]),
    ("reuse-other-env", [shared(G(["sections_dep"], "sections", env="blockpy"), "sub"), shared(G(["sections_dep"], "sections"), "sub"),
                         shared(G(["sections_dep"], "sections", env="terminal"), "sub"),
                         shared(G(["student_out"], "sections", skip_run=True), "sub")]),
    ("reuse-data-files", [shared(G(["allow_open"], "openf", files=DATA_FILES), "sub"),
                          shared(G(["set_source_restore"], "openf", files=DATA_FILES), "sub"),
                          shared(G(["student_out"], "openf", files=DATA_FILES), "sub")]),
]


# --------------------------------------------------------------------------------------------------
# the caller's OWN Report object R, passed explicitly (report=R) to the environment and to every command, graded again
# and again: the same state machine as MAIN_REPORT's, reached through the report= parameters.  R is in the script's
# namespace; `student` is R's sandbox.

XH = ("from pedal.core.commands import *\nfrom pedal.source import *\nfrom pedal.source.sections import *\nfrom pedal.sandbox.commands import *\n"
      "from pedal.assertions import *\nfrom pedal.core.feedback import Feedback\n")
XFRAGMENTS = [
    ("xr_nothing", ""),
    ("xr_gently", "gently('hi there', report=R)\n"),
    ("xr_explain", "explain('You did X', label='did_x', title='X!', report=R)\n"),
    ("xr_compliment", "compliment('nice', score='+10%', report=R)\ngive_partial(.5, report=R)\n"),
    ("xr_suppress", "suppress('runtime', report=R)\nsuppress(label='unused_variable', report=R)\n"),
    ("xr_suppress_algo", "suppress('algorithmic', report=R)\n"),
    ("xr_hide", "hide_correctness(report=R)\n"),
    ("xr_formatter", "from pedal.core.formatting import HtmlFormatter\nset_formatter(HtmlFormatter, report=R)\n"),
    ("xr_override", "from pedal.sandbox.feedbacks import runtime_error, type_error\nruntime_error.override(title='OV-RT', report=R)\ntype_error.override(title='OV-TYPE', priority='low', report=R)\ngently.override(title='OV-GENTLY', report=R)\n"),
    ("xr_pools", "from pedal.core.commands import set_pools\nimport random\nrandom.seed(3)\nset_pools(2, report=R)\ngently.override_for_pool('A', title='POOL-A', report=R)\ngently.override_for_pool('B', title='POOL-B', report=R)\n"),
    ("xr_hook", "R.add_hook('pedal.report.add_feedback', lambda fb, report=None: print('HOOK', fb.label))\n"),
    ("xr_group", "R.start_group('g1')\ngently('in group', report=R)\n"),
    ("xr_mock", "mock_function('len', lambda x: 99, report=R)\nrun(report=R)\nprint(repr(student.output))\n"),
    ("xr_inputs", "set_input(['5', '6'], report=R)\nrun(report=R)\nprint(repr(student.output))\n"),
    ("xr_call", "assert_equal(call('f', 2, report=R), 4, report=R)\n"),
    ("xr_out", "print(repr(student.output))\n"),
    ("xr_sections", "separate_into_sections(independent=False, report=R)\nnext_section(report=R)\nverify(report=R)\nrun(report=R)\nprint(repr(student.output))\n"),
    ("xr_set_source", "from pedal.source.source import restore_code\nset_source('print(3)', report=R)\nrun(report=R)\nprint(repr(student.output))\nrestore_code(report=R)\n"),
    ("xr_tifa", "from pedal.tifa import tifa_analysis\nprint(sorted(tifa_analysis(report=R).issues))\n"),
    ("xr_tifa_other", "from pedal.tifa import tifa_analysis\ntifa_analysis('import math\\nmath.extra = 2\\nprint(math.extra)\\n', report=R)\n"),
    ("xr_resolve", "from pedal.resolvers import simple\ngently('early', report=R)\nsimple.resolve(report=R)\n"),
    ("xr_clear", "clear_report(report=R)\n"),
    ("xr_crash", "1 / 0\n"),
]
XFRAGMENT = dict(XFRAGMENTS)
XPROBES = [(["xr_gently"], "ok"), (["xr_nothing"], "zerodiv"), (["xr_nothing"], "typeerr"), (["xr_nothing"], "unused"),
           (["xr_out"], "printer"), (["xr_call", "xr_compliment"], "ok"), (["xr_out"], "sections_long"),
           (["xr_tifa"], "mathuse"), (["xr_out"], "input2")]
#: behind the gate: with a report of the caller's own the resolve hook that puts the whole file back after sections
#: looks at MAIN_REPORT, so the caller's Submission keeps the last section (unchanged tree, reported)
XGATED = ("xr_sections",)
if gate_open(reuse_gated_reasons({"frags": ["xr_sections"]})):
    XPROBES.append((["xr_sections"], "sections_long"))


def XG(frags, sub, **kw):
    return dict({"frags": list(frags), "sub": sub, "script": XH + "".join(XFRAGMENT[f] for f in frags), "code": _code(sub),
                 "env": "standard", "report_id": "R"}, **kw)


def explicit_report_histories(fragments, rng=None):
    """-> [(name, history)]: every gradings of a history uses the caller's one Report object; every fragment, alone and
    followed by a crash, right before every probe; the submissions are the caller's too (the same object when the
    same submission comes round again)"""
    out = []
    for f in fragments:
        if not gate_open(reuse_gated_reasons({"frags": [f]})):
            continue
        h = []
        for frags in ([f], [f, "xr_crash"]):
            for pf, ps in XPROBES:
                sub = "sections_long" if "sections" in f else "uses_len" if f == "xr_mock" else "input" if f == "xr_inputs" else "ok"
                h.append(shared(XG(frags, sub), "sub"))
                h.append(shared(XG(pf, ps), "sub"))
        out.append(("explicit-report-%s" % f, h))
    return out


# Submissions that change the INTERPRETER itself (a real stdlib module, builtins, sys.path, the recursion limit).
# Pedal runs student code inside the grader's interpreter and restores none of this; each pair is run on its own
# so that it cannot contaminate other comparisons.  (name, disturbing submission, probing submission)
INTERPRETER_STATE = [
    ("stdlib-module-attribute", "import math\nmath.pi = 3\nprint(math.pi)\n", "import math\nprint(math.pi)\n"),
    ("builtins-module", "import builtins\nbuiltins.len = lambda x: 42\nprint(len('a'))\n", "print(len('abc'))\n"),
    ("sys-path", "import sys\nsys.path.insert(0, '/nonexistent-c13')\nprint(1)\n",
     "import sys\nprint('/nonexistent-c13' in sys.path)\n"),
    ("recursion-limit", "import sys\nsys.setrecursionlimit(60)\nprint(1)\n",
     "def f(n):\n    return 0 if n == 0 else 1 + f(n - 1)\nprint(f(200))\n"),
]
PROBE_SCRIPT = H + "suppress('algorithmic')\nprint(repr(student.output))\n"


# --------------------------------------------------------------------------------------------------
# small-scope systematic part: EVERY fragment (alone, and followed by a crash) immediately before EVERY probe

PROBES = [(["gently"], "ok"), (["nothing"], "zerodiv"), (["nothing"], "typeerr"), (["nothing"], "nameerr"),
          (["nothing"], "unused"), (["nothing"], "syntax"), (["nothing"], "empty"), (["student_out"], "printer"),
          (["assert_call", "compliment"], "ok"), (["sections"], "sections"), (["all_feedback"], "ok"),
          (["tifa_again"], "mathpi"), (["custom_cls", "custom_untriggered"], "unused"), (["student_out"], "input2"),
          (["unit_test"], "wrong"), (["explain", "gently_low"], "keyerr"), (["suppress_algo"], "typeerr"),
          (["suppress_algo"], "nameerr")]


def systematic_histories(fragments, chunk=6):
    """-> [(name, history)]: for each fragment f: f, p1, f, p2, ... and f+crash, p1, f+crash, p2, ..."""
    out = []
    for i in range(0, len(fragments), chunk):
        h = []
        for f in fragments[i:i + chunk]:
            sub = "sections" if f.startswith("sections") else "ok"
            for frags in ([f], [f, "crash_zero"]):
                for pf, ps in PROBES:
                    h.append(G(frags, sub))
                    h.append(G(pf, ps))
        out.append(("systematic-%d" % (i // chunk), h))
    return out

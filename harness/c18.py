"""C18 — TIFA analyses every parsable program, deterministically and idempotently."""
import ast
import json
import os
import sys
import time

from common import VERIF, CorrResult, Failure, run_check, use_repo
import tifawrap_common as tw
import translate_tifa as tt

use_repo()

THEOREMS = [
    "Pedal.TifaWrapper.c18_never_raises",
    "Pedal.TifaWrapper.c18_non_exception_escapes",
    "Pedal.TifaWrapper.c18_idempotent",
    "Pedal.TifaWrapper.c18_idempotent_after_history",
    "Pedal.TifaWrapper.c18_lines_within_source",
    "Pedal.TifaWrapper.c18_dispatch_total",
    "Pedal.TifaWrapper.c18_builtin_table_callable",
    "Pedal.TifaWrapper.c18_class_fields_stable",
    "Pedal.TifaWrapper.c18_deterministic_across_analyses",
    "Pedal.TifaWrapper.c18_shared_fields_counterexample",
]
NOTES = [
    "PARTIAL: 'completes on the introductory subset' is a statement about a 1200-line visitor on real ASTs; the "
    "theorems cover the wrapper (process_code), the cache (tifa_analysis), node dispatch and the builtin "
    "function/method table for ANY behaviour of the visitor; completion itself is sampled (every documented "
    "builtin function / str,list,dict,int,float,bool,set,tuple,file method / stdlib-module function in a well-typed "
    "call, generated CS1-style programs, the student programs inside pedal's own tests)",
    "an inner failure is modelled by its class flags (is an Exception; str(error) raises); BaseException subclasses "
    "that are not Exceptions escape by design (c18_non_exception_escapes)",
    "determinism across analyses: proved for attribute stores (Type.add_attr) on instances of the generated Type "
    "classes; other process-wide channels (a builtin FunctionType object or a parents=[IntType()] instance mutated in "
    "place, element types of shared containers) are not modelled - they are probed by the state-leak programs (value x "
    "container x access path, unique attribute names) and by comparing every program's first analysis with a second one "
    "on a fresh report",
    "the comparisons INSIDE the visitor and the type classes (TupleType.index's bound, argument-count guards of the builtin "
    "definitions, type-argument counts) are part of the model's parameter `inner`, not of the model: off-by-one changes "
    "there are found by the search-only boundary families with the oracle 'an introductory-subset program completes'",
    "the model's visitor parameter `inner` is a function of the code alone: that the REAL visitor's result does not depend on "
    "what the same Tifa object / report analysed before (TifaCore.reset re-creates every id-keyed registry) and that cloned type "
    "objects stay usable after their first use are not modelled - search-only streams: scope-kind histories (every step compared "
    "with the same text alone on a fresh report) and the reuse families (clone path x ordered uses, must complete)",
    "line bound: relative to the parser numbering nodes 1..nlines (CPython universal newlines) and issues being "
    "located at AST nodes (locate = node.lineno + line_offset)",
    "functions of third-party modules pedal also describes (designer, drafter, PIL, matplotlib, microbit, bakery, "
    "cisc106/108) are outside the property ('imports of standard modules'): their rows are generated as "
    "extensionRows and reported in the translate info, but neither the theorem nor the search gates on them",
]

INJECT_PREFIX = "print(undefined_a)\nprint(undefined_b)\n"
INJECT_PARTIAL = [["initialization_problem", 1], ["initialization_problem", 2]]


class CustomError(Exception):
    pass


class Fatal(BaseException):
    pass


class BadStr(Exception):
    def __str__(self):
        raise RuntimeError("no message for you")


INJECTIONS = {
    "inject_ValueError": (lambda: ValueError("boom"), "ValueError", 1, 0),
    "inject_KeyError": (lambda: KeyError("k"), "KeyError", 1, 0),
    "inject_RecursionError": (lambda: RecursionError("deep"), "RecursionError", 1, 0),
    "inject_CustomError": (lambda: CustomError("c"), "CustomError", 1, 0),
    "inject_ZeroDivisionError": (lambda: ZeroDivisionError("z"), "ZeroDivisionError", 1, 0),
    "inject_Fatal": (lambda: Fatal("f"), "Fatal", 0, 0),
    "inject_BadStr": (lambda: BadStr(), "BadStr", 1, 1),
}


class Injection:
    """Fault injection INTO THE VISITOR (the model's parameter), to exercise the real wrapper with chosen
    exception classes: loading a name `inject_<Class>` raises that class."""

    def __enter__(self):
        from pedal.tifa.tifa_visitor import Tifa
        self.Tifa = Tifa
        self.orig = Tifa.visit_Name

        def patched(tifa, node):
            if node.id in INJECTIONS:
                raise INJECTIONS[node.id][0]()
            return self.orig(tifa, node)
        Tifa.visit_Name = patched
        return self

    def __exit__(self, *a):
        self.Tifa.visit_Name = self.orig


def corpus_cases():
    d = os.path.join(VERIF, "corpus", "C18")
    out = []
    if os.path.isdir(d):
        for name in sorted(os.listdir(d)):
            if name.endswith(".json"):
                with open(os.path.join(d, name)) as fh:
                    out.append(json.load(fh))
    return out


SPECIAL = [
    "x = " + "+".join(["1"] * 1500) + "\nprint(x)\n",          # RecursionError inside the visitor: a contained failure
    "def f(:\n    pass\n",                                       # does not parse
    "x = (\n",
    "",
    "\n\n",
    "# only a comment",
    "x = 1\r\ny = x\r\nprint(y)\r\n",
    "x = 1\ry = x\rprint(z)\r",
    "s = 'a\x0cb'\nprint(t)\n",
    "#   comment\nprint(q)\n",
    "résumé = 1\nprint(resume)\n",
    "总计 = 0\nfor 数 in [1, 2]:\n    总计 = 总计 + 数\nprint(总计, 缺)\n",
    "if True:\n\tx = 1\n\tprint(y)\n",
    "x = 1 \\\n    + 2\nprint(z)\n",
    "x = '''a\nb\nc'''\nprint(w)",
]


def outcome_tokens(ref):
    """Reference observation of one code (own fresh report, offset 0) -> wire tokens of the model's `Inner`."""
    if not ref.get("calls"):
        return None
    c = ref["calls"][0]
    issues = [(l, ln) for l, _, ln in c["issues"]]
    if any(ln is None for _, ln in issues):
        return None
    flat = []
    for l, ln in issues:
        flat += [l, str(ln)]
    if c["success"]:
        return ["ok", str(len(issues))] + flat
    cls = c["error_class"]
    if c.get("parse_failed"):
        return ["pf", cls, "1", "0"]
    return ["vf", cls, "1", "0", str(len(issues))] + flat


def correspond(rng, tier, driver):
    res = CorrResult()
    res.rule = ("(1) wrapper/cache histories: 2-4 programs (generated CS1 programs, arbitrary-grammar programs, mutated "
                "corpus programs, non-parsing text, a RecursionError program, programs whose visit raises an INJECTED "
                "exception class incl. a non-Exception BaseException and one whose str() raises), 3-9 tifa_analysis calls "
                "with repeats on one report (pedal's MAIN_REPORT, a Report() of our own with the submission, or a bare Report() passed as "
                "report=), line offset 0/3/11, default or custom main file name; real = success flag, "
                "issue count, issue lines, total and system feedback attached so far, or the escaping exception, per "
                "call; model = Pedal.TifaWrapper.tifaAnalysis folded over the same calls with each program's inner "
                "outcome taken from a separate reference analysis; (2) every ast node class of the running Python: real "
                "getattr(Tifa, 'visit_'+cls, generic_visit) vs model dispatch; (3) every generated table row with a "
                "well-typed call: model Row.usable vs the real analysis of that call; (4) every Type class: does add_attr on "
                "a fresh instance change a class-level `fields` dictionary - real vs model addAttr; non-trivial = a history with a "
                "repeated program and at least one failing program")
    n_hist = 120 if tier == "quick" else 1500
    files, snippets = tw.corpus_programs()
    mut = tw.Mutator(rng, snippets)
    pools = [lambda: tw.gen_intro(rng), lambda: tw.gen_grammar(rng), mut.mutate, lambda: rng.choice(SPECIAL),
             lambda: rng.choice(snippets)]
    inj_names = sorted(INJECTIONS)
    lines, reals, metas = [], [], []
    skipped = {}
    with Injection():
        for h in range(n_hist):
            k = rng.randint(2, 4)
            codes, toks_per_code = [], []
            ok = True
            for j in range(k):
                if rng.random() < 0.2:
                    name = rng.choice(inj_names)
                    code = INJECT_PREFIX + name + "\nprint('after')\n"
                    _, cls, is_exc, str_raises = INJECTIONS[name]
                    flat = []
                    for l, ln in INJECT_PARTIAL:
                        flat += [l, str(ln)]
                    toks = ["vf", cls, str(is_exc), str(str_raises), str(len(INJECT_PARTIAL))] + flat
                else:
                    code = rng.choice(pools)()
                    if any(n in code for n in INJECTIONS):
                        ok = False
                        break
                    toks = outcome_tokens(tw.observe(code, repeats=0))
                    if toks is None:
                        skipped["reference analysis raised or unlocated issue"] = skipped.get("reference analysis raised or unlocated issue", 0) + 1
                        ok = False
                        break
                if code in codes:
                    ok = False
                    break
                codes.append(code)
                toks_per_code.append(toks)
            if not ok:
                continue
            calls = [rng.randrange(k) for _ in range(rng.randint(3, 9))]
            if rng.random() < 0.5:
                calls = [0, 1, 0] + calls       # analyse A, analyse B, analyse A again
            offset = rng.choice([0, 0, 3, 11])
            filename = rng.choice([None, None, "student_code.py", "sub/dir/prog.py"])
            own = rng.choice([None, None, "contextualized", "no-submission"])
            if own == "no-submission":
                offset, filename = 0, None
            real = tw.observe_history(codes, calls, offset, filename, own_report=own)
            req = ["wrap", str(offset), str(k)]
            for j, toks in enumerate(toks_per_code):
                req += ["c%d" % j] + toks
            req += [str(len(calls))] + ["c%d" % i for i in calls]
            lines.append(" ".join(req))
            reals.append(real)
            metas.append({"codes": codes, "calls": calls, "offset": offset, "filename": filename, "own_report": own})
    answers = driver.ask(lines)
    for real, ans, meta, req in zip(reals, answers, metas, lines):
        res.evaluations += 1
        model = parse_wrap(ans)
        realc = []
        for c in real:
            if "raised_class" in c:
                realc.append({"raised": True})
            elif "setup_error" in c:
                realc.append({"setup_error": c["setup_error"]})
            else:
                realc.append({"success": c["success"], "n": len(c["issues"]), "feedback": c["feedback"],
                              "system": c["system"], "lines": sorted(ln for _, _, ln in c["issues"])})
        fails = sum(1 for c in real if c.get("success") is False or "raised_class" in c)
        res.count("calls:%d" % len(meta["calls"]))
        res.count("offset:%d" % meta["offset"])
        res.count("file:%s" % (meta["filename"] or "default"))
        res.count("report:%s" % (meta["own_report"] or "MAIN_REPORT"))
        res.count("failing-calls:%d" % min(fails, 3))
        if len(set(meta["calls"])) < len(meta["calls"]) and fails:
            res.nontrivial.add(req)
        if realc != model and len(res.disagreements) < 30:
            res.disagreements.append({"case": meta, "real": realc, "model": model, "request": req[:2000]})

    # (2) dispatch
    from pedal.tifa.tifa_visitor import Tifa
    nodes = [n for n, g in tt.node_classes()]
    answers = driver.ask(["dispatch " + n for n in nodes])
    for n, ans in zip(nodes, answers):
        res.evaluations += 1
        m = getattr(Tifa, "visit_" + n, None)
        real = ("specific visit_" + n) if callable(m) else ("generic" if callable(getattr(Tifa, "generic_visit", None)) else "attribute-error")
        res.count("dispatch:" + real.split()[0])
        if real != ans:
            res.disagreements.append({"case": {"node_class": n}, "real": real, "model": ans, "request": "dispatch " + n})

    # (3) table rows
    rows = [(t, n) for t, n, d, r, det in tt.builtin_rows()]
    progs = tw.builtin_call_programs(rows)
    usable = {}
    ans = driver.ask(["rows"])[0]
    for tok in ans.split()[1:]:
        key, v = tok.rsplit("=", 1)
        usable[key] = v == "1"
    import re
    for t, n, code in progs:
        key = "%s/%s" % (t, n)
        if code is None:
            res.count("row-without-call-template")
            continue
        res.evaluations += 1
        obs = tw.observe(code, repeats=0)
        c = (obs.get("calls") or [{}])[0]
        completes = bool(c.get("success"))
        callability = (not completes) and re.search(r"not callable|positional argument", c.get("error", "")) is not None
        res.count("row-call:" + ("completes" if completes else "fails"))
        m = usable.get(key)
        if m is None or (m is False and completes) or (m is True and callability):
            res.disagreements.append({"case": {"row": key, "code": code}, "real": {"completes": completes, "error": c.get("error")},
                                      "model": {"usable": m}, "request": "rows"})
    # (4) whose dictionary add_attr writes to
    from pedal.types import new_types as nt
    classes = tt.all_type_classes()
    answers = driver.ask(["fields %s verif_probe_field" % c.__name__ for c in classes])
    for cls, ans in zip(classes, answers):
        res.evaluations += 1
        inst = tt.construct(cls)
        if inst is None:
            real = "class-level-unchanged" if not tt.class_level_dicts(cls) else "cannot-construct"
        else:
            every = [d for c in classes for d in tt.class_level_dicts(c)]
            before = [set(d) for d in every]
            try:
                inst.add_attr("verif_probe_field", nt.AnyType())
            except Exception as e:
                real = "add_attr-raised-" + type(e).__name__
            else:
                real = "class-level-changed" if any(set(d) != b for d, b in zip(every, before)) else "class-level-unchanged"
            for d, b in zip(every, before):          # leave the process as it was
                if "verif_probe_field" in d and "verif_probe_field" not in b:
                    del d["verif_probe_field"]
        res.count("fields:" + real)
        if real != ans:
            res.disagreements.append({"case": {"type_class": cls.__name__}, "real": real, "model": ans,
                                      "request": "fields %s verif_probe_field" % cls.__name__})
    for k, v in skipped.items():
        res.count("skipped: " + k, v)
    res.samples = [m["codes"][0][:300] for m in metas[:3]]
    res.pools = (files, snippets, progs)
    return res


def gated(name):
    """Input families that exposed a failure of the tree they were first run on (repaired by fix commits 7c87412 / 458054d).
    ON by default now that the repairs are accepted; NAME=0 in the environment switches a family off."""
    return os.environ.get(name, "1") not in ("", "0")


def parse_wrap(ans):
    if not ans.startswith("ok"):
        return [{"error": ans}]
    out = []
    body = ans[2:].strip()
    raised = None
    if " raised " in " " + body:
        idx = body.rfind("raised ")
        raised = body[idx + 7:].strip()
        body = body[:idx]
    for part in body.split("|"):
        part = part.strip()
        if not part:
            continue
        t = part.split()
        out.append({"success": t[0] == "1", "n": int(t[1]), "feedback": int(t[2]), "system": int(t[3]),
                    "lines": sorted(int(x) for x in t[4:])})
    if raised is not None:
        out.append({"raised": True})
    return out


def search(rng, tier, broken, corr):
    info = {"rule": "oracle from the property text: tifa_analysis must return (never raise); a second and third call on "
                    "the same report return the same (label, name, line) issues and attach no further feedback; a fresh "
                    "analysis of the same code gives the same issues; every issue line is within the source as CPython "
                    "numbers it (+ line offset); a failed analysis attaches exactly one system feedback; and - for the "
                    "introductory subset (well-typed call of every documented builtin/method/stdlib function, generated "
                    "CS1 programs, 70 hand-written CS1 programs and random concatenations of them, the student programs in pedal's "
                    "tests) - the analysis completes. Inputs: those, plus "
                    "arbitrary-grammar programs over every statement/expression/pattern kind, the repository's own .py "
                    "files, AST-mutated/recombined corpus programs, CR/CRLF/FF/U+2028 variants, non-ASCII identifiers, "
                    "non-default main file, bare tifa_analysis(), a report that is not MAIN_REPORT (with and without a "
                    "submission; feedback is counted on BOTH reports), section histories, A-B-A histories; BOUNDARY families "
                    "(must complete): every literal position -5..5 / constant expression / slice bound / odd key on ~70 value "
                    "sources of static size 0..4 (tuple literals, divmod, partition, items/enumerate/zip elements, multi-value "
                    "returns, *args, annotated tuple parameters) as load, store, augmented store and deletion; every table row "
                    "called with no / one fewer / one more / two more / all-None / reversed / extra-keyword arguments; user "
                    "functions with 0..3 parameters x defaults x *rest/**kw called with 0..p+2 arguments; 1..4 unpacking targets "
                    "against sources of size 0..3; parameterised annotations with 0..3 type arguments declared, called and used; "
                    "every str/list/dict/set/tuple method on receivers of size 0/1/2; return/def/class/global at depth 0..3 "
                    "(quick: packed per group, thorough: also every fragment on its own); calls with *args/**kwargs (must only "
                    "return); STATE-LEAK probes: element value x container construction x access path, read-then-write of an "
                    "attribute name no earlier probe used (a leak stays in the process and would hide later ones), each analysed "
                    "twice on fresh reports; REUSE families (must complete): dict/list/tuple/set/str literal x ~40 ways its type reaches a name "
                    "(copy(), copy.copy, constructor, returned, parameter, + * slices sorted reversed, element of a concatenated / repeated / "
                    "copied list, value of a copied dict, instance field, globals()/locals()/vars()) x ordered pairs and triples of uses (key "
                    "lookups out of and in literal order, loops, items(), get/len, stores); SCOPE-KIND HISTORIES: 35 one-scope blocks (class "
                    "bodies, function calls with annotated/unused/global-writing locals, methods, lambdas, comprehensions, imports of a second "
                    "student file / a standard / a missing module, branches, loops) - every ordered pair and random chains of 3..6 programs of "
                    "1..3 blocks on ONE report (MAIN_REPORT / own report with / without submission) or ONE Tifa object (process_code, the first "
                    "program once more at the end): every step's success, issues and attached feedback equal those of the same text alone on a "
                    "fresh report",
            "evaluations": 0, "distinct_nontrivial": 0, "samples": [], "skipped": {}, "families": {}, "family_seconds": {},
            "feedback_on_MAIN_REPORT_although_another_report_was_passed": 0}
    first = {}
    nontrivial = set()
    mult = 2 if tier == "quick" else 30
    if broken:
        mult *= 2
    files, snippets, progs = getattr(corr, "pools", None) or (tw.corpus_programs() + (None,))
    if progs is None:
        progs = tw.builtin_call_programs([(t, n) for t, n, d, r, det in tt.builtin_rows()])

    def skip(reason):
        info["skipped"][reason] = info["skipped"].get(reason, 0) + 1

    def consider(code, must, origin, det=True, **kw):
        t0 = time.time()
        try:
            return consider_(code, must, origin, det, **kw)
        finally:
            fam = "/".join(origin.split(" ")[0].split("/")[:2]) if origin.startswith("boundary/") else origin.split(" ")[0]
            info["family_seconds"][fam] = round(info["family_seconds"].get(fam, 0) + time.time() - t0, 3)

    def consider_(code, must, origin, det=True, **kw):
        try:
            ast.parse(code)
            parses = True
        except Exception:
            parses = False
        obs = tw.observe(code, **kw)
        info["evaluations"] += 1
        fam = "/".join(origin.split(" ")[0].split("/")[:2]) if origin.startswith("boundary/") else origin.split(" ")[0]
        info["families"][fam] = info["families"].get(fam, 0) + 1
        if "setup_error" in obs:
            skip("report setup failed: " + obs["setup_error"])
            return
        if must and not parses:
            skip("must-complete program that does not parse (generator slip): " + fam)
        det = tw.fresh_issues(code, kw.get("filename")) if (det and not kw.get("offset")) else None
        c0 = (obs.get("calls") or [{}])[0]
        if c0.get("on_main_report_instead"):
            info["feedback_on_MAIN_REPORT_although_another_report_was_passed"] += c0["on_main_report_instead"]
        if c0.get("issues") and len(c0["issues"]) >= 2:
            nontrivial.add(hash(code))
        for sig, what in tw.oracle(code, obs, must and parses, det, offset=kw.get("offset", 0)):
            key = json.dumps(sig, sort_keys=True)
            if key not in first:
                first[key] = (sig, what, code, origin, kw)

    for case in corpus_cases():
        consider(case["code"], case.get("must_complete", False), "corpus")
    for code in SPECIAL:
        consider(code, False, "special")
    for code in tw.state_leak_programs(full=(tier == "thorough")):
        consider(code, False, "state-leak probe", repeats=0)
    # boundary families: every position / count around every statically known size (see tifawrap_common)
    for individually in ((False, True) if tier == "thorough" else (False,)):
        b_must, b_star = tw.boundary_programs(progs, individually, full=(tier == "thorough"))
        for origin, code in b_must:
            consider(code, True, "boundary/" + origin, det=False, repeats=1)
        for origin, code in b_star:
            consider(code, False, "boundary/" + origin, det=False, repeats=1)
    # reuse families: a value whose type went through clone()/copy/constructor/operator, used several times in every order
    for origin, code in tw.pack_fragments(tw.reuse_fragments(full=(tier == "thorough"), self_store=gated("C18_SELF_STORE_REUSE")), False):
        consider(code, True, "boundary/" + origin, det=False, repeats=1)
    for t, n, code in progs:
        if code is None:
            skip("table row without a call (third-party module: outside the subset)" if t.startswith("extmodule:")
                 else "table row without a well-typed call found")
        else:
            consider(code, True, "builtin-call %s/%s" % (t, n))
    for code in snippets:
        consider(code, True, "test-snippet")
    for code in tw.CS1_PROGRAMS:
        consider(code, True, "cs1-program")
    for i in range(60 * mult):
        consider(tw.gen_cs1_mix(rng), True, "cs1-mix")
    for i in range(250 * mult):
        consider(tw.gen_intro(rng), True, "intro")
    for i in range(250 * mult):
        consider(tw.gen_grammar(rng), False, "grammar")
    mut = tw.Mutator(rng, snippets)
    for i in range(200 * mult):
        code = mut.mutate()
        if i % 2:
            code = tw.line_terminator_variants(rng, code)
        consider(code, False, "mutant")
    for i in range(100 * mult):
        base = tw.gen_intro(rng) if i % 2 else rng.choice(snippets)
        consider(tw.line_terminator_variants(rng, base), False, "line-terminators")
    for i in range(60 * mult):
        code = tw.gen_intro(rng) if i % 2 else tw.gen_grammar(rng)
        own = tw.OWN_REPORT_MODES[i % 3]
        if own == "no-submission":
            consider(code, False, "variant", own_report=own)
        else:
            consider(code, False, "variant", filename=rng.choice(["student_code.py", "deep/er/main.py"]), bare=bool(i % 4),
                     offset=rng.choice([0, 0, 5]), own_report=own)
    for i, code in enumerate(tw.CS1_PROGRAMS):          # must-complete programs on a report that is not MAIN_REPORT
        consider(code, True, "cs1-program (own report)", own_report=tw.OWN_REPORT_MODES[1 + i % 2])
    chosen = files if tier == "thorough" else rng.sample(files, min(40, len(files)))
    for path, code in chosen:
        consider(code, False, "repo-file " + path, repeats=1)

    # multi-step histories: A, B, A again - same issues, no extra feedback; sections
    for i in range(40 * mult):
        a, b = tw.gen_intro(rng), (tw.gen_grammar(rng) if i % 2 else tw.gen_intro(rng))
        if a == b:
            continue
        recs = tw.observe_history([a, b], [0, 1, 0, 1, 0], own_report=tw.OWN_REPORT_MODES[i % 3])
        info["evaluations"] += 1
        info["families"]["history"] = info["families"].get("history", 0) + 1
        if any("raised_class" in r for r in recs):
            first.setdefault(json.dumps({"kind": "raised", "error": [r for r in recs if "raised_class" in r][0]["raised_class"]}, sort_keys=True),
                             ({"kind": "raised", "error": [r for r in recs if "raised_class" in r][0]["raised_class"]},
                              "tifa_analysis raised in an A-B-A history", a + "\n#----\n" + b, "history", {}))
            continue
        if len(recs) == 5:
            # determinism across histories: what a program gets on a report that analysed other programs before
            # is what it gets on a report of its own
            for code_k, rec in ((a, recs[0]), (b, recs[1])):
                alone = tw.observe(code_k, repeats=0)
                if alone.get("calls") and alone["calls"][0]["issues"] != rec["issues"]:
                    sig = {"kind": "nondeterministic", "what": "history"}
                    first.setdefault(json.dumps(sig, sort_keys=True),
                                     (sig, "A-B history: a program's issues on a report that analysed another program first differ "
                                           "from its issues on a fresh report", a + "\n#----\n" + b, "history", {}))
            if recs[2]["issues"] != recs[0]["issues"] or recs[4]["issues"] != recs[0]["issues"] or recs[3]["issues"] != recs[1]["issues"]:
                sig = {"kind": "not-idempotent", "what": "issues"}
                first.setdefault(json.dumps(sig, sort_keys=True), (sig, "A-B-A history (report: %s): the repeated analysis returned different issues" % (tw.OWN_REPORT_MODES[i % 3] or "MAIN_REPORT"),
                                                                   a + "\n#----\n" + b, "history", {}))
            if not (recs[1]["feedback"] == recs[2]["feedback"] == recs[3]["feedback"] == recs[4]["feedback"]):
                sig = {"kind": "not-idempotent", "what": "feedback"}
                first.setdefault(json.dumps(sig, sort_keys=True), (sig, "A-B-A history: a repeated analysis attached more feedback",
                                                                   a + "\n#----\n" + b, "history", {}))
    for i in range(20 * mult):
        section_history(rng, first, info)
    # scope-kind histories: what one Tifa object / one report keeps between analyses of DIFFERENT programs
    t0 = time.time()
    n_mixed, n_chains = (60, 150) if tier == "quick" else (400, 3000)
    for codes, mode, desc in tw.scope_histories(rng, n_mixed, n_chains, several_student_imports=gated("C18_STUDENT_IMPORT_HISTORIES"),
                                                  full=(tier == "thorough")):
        bad, recs = tw.history_oracle(codes, mode)
        info["evaluations"] += len(recs)
        info["families"]["scope-history"] = info["families"].get("scope-history", 0) + 1
        info["families"]["scope-history/" + mode] = info["families"].get("scope-history/" + mode, 0) + 1
        if recs and "setup_error" in recs[0]:
            skip("history setup failed: " + recs[0]["setup_error"])
        for sig, what, k in bad:
            key = json.dumps(sig, sort_keys=True)
            if key in first:
                continue
            small = tw.shrink_history(codes[:k + 1] if k + 1 <= len(codes) and k >= 1 else codes, mode, sig)
            again = [w for s_, w, _ in tw.history_oracle(small, mode)[0] if s_ == sig]
            first[key] = (sig, (again[0] if again else what) + " | history: " + desc,
                          "\n#---- next program on the same report ----\n".join(small), "history",
                          {"history_case": {"codes": small, "mode": mode}})
    info["family_seconds"]["scope-history"] = round(time.time() - t0, 3)
    info["switchable_inputs"] = {
        "C18_STUDENT_IMPORT_HISTORIES": "histories in which more than one analysis imports a second student file (before fix 458054d the visited "
                                        "module was kept on the report with closures over the earlier analysis's scope ids); =0 switches them off",
        "C18_SELF_STORE_REUSE": "an element stored back into its own container, then a clone (before fix 7c87412 set_index was called on the "
                                "element, a dict became its own value type and clone() recursed); =0 switches them off",
        "enabled": [g for g in ("C18_STUDENT_IMPORT_HISTORIES", "C18_SELF_STORE_REUSE") if gated(g)]}

    failures = []
    for key, (sig, what, code, origin, kw) in first.items():
        small = shrink_lines(code, sig, origin, kw) if origin != "history" else code
        rp = {"code": small, "origin": origin, "kwargs": kw, "must_complete": sig.get("kind") == "analysis-failed"}
        if small != code:
            rp["unshrunk_code"] = code
        if sig.get("kind") == "nondeterministic" and origin != "history":
            alone = tw.standalone_nondeterministic(small, kw.get("filename"))
            rp["reproduces_in_a_new_interpreter"] = alone
            if not alone:
                what += (" | NOTE: two analyses of this text agree in a new interpreter, so the difference depends on state "
                         "left behind by programs analysed EARLIER in this run (shared Type objects); re-run the same "
                         "seed and tier to reproduce, or look for attribute/element stores on shared types")
        failures.append(Failure(sig, what + " | from: " + origin, rp))
    info["distinct_nontrivial"] = len(nontrivial)
    if os.environ.get("C18_PROFILE"):
        print("C18_PROFILE", json.dumps(info["family_seconds"]), file=sys.stderr)
    info["samples"] = [f.replay["code"][:300] for f in failures][:3]
    return failures, info


def section_history(rng, first, info):
    """Three sections, analysed one after the other with bare tifa_analysis(): lines stay within the whole file,
    repeating the call inside a section changes nothing."""
    from pedal.core.report import MAIN_REPORT
    from pedal.core.commands import contextualize_report
    from pedal.source import verify
    from pedal.source.sections import separate_into_sections, next_section
    from pedal.tifa import tifa_analysis
    parts = [tw.gen_intro(rng) for _ in range(3)]
    code = "# intro\n" + "".join("##### Part %d\n%s" % (i + 1, p) for i, p in enumerate(parts))
    total = tw.nlines(code)
    try:
        contextualize_report(code)
        verify()
        separate_into_sections(independent=True)
    except BaseException as e:
        info["skipped"]["section setup failed: " + type(e).__name__] = info["skipped"].get("section setup failed: " + type(e).__name__, 0) + 1
        return
    for k in range(3):
        try:
            next_section()
            before = len(MAIN_REPORT.feedback)
            t1 = tifa_analysis()
            mid = len(MAIN_REPORT.feedback)
            t2 = tifa_analysis()
            after = len(MAIN_REPORT.feedback)
        except BaseException as e:
            sig = {"kind": "raised", "error": type(e).__name__}
            first.setdefault(json.dumps(sig, sort_keys=True), (sig, "tifa_analysis raised inside a section history: %r" % e, code, "history", {}))
            return
        info["evaluations"] += 1
        if after != mid or tw.canon_issues(t1) != tw.canon_issues(t2):
            sig = {"kind": "not-idempotent", "what": "feedback" if after != mid else "issues"}
            first.setdefault(json.dumps(sig, sort_keys=True), (sig, "section %d: repeated bare tifa_analysis() changed the result" % (k + 1), code, "history", {}))
        for label, name, line in tw.canon_issues(t1):
            if line is not None and not (1 <= line <= total):
                sig = {"kind": "line-out-of-range", "label": label}
                first.setdefault(json.dumps(sig, sort_keys=True), (sig, "section %d: issue %s at line %r of a %d-line file" % (k + 1, label, line, total),
                                                                   code, "history", {}))


def shrink_lines(code, sig, origin, kw):
    """Line-wise delta debugging (blocks of half, a quarter, ... one line) that keeps the signature."""
    must = sig.get("kind") == "analysis-failed"
    nondet = sig.get("kind") == "nondeterministic"

    def still(c):
        try:
            ast.parse(c)
        except Exception:
            if must:
                return False
        if nondet:
            # a leak stays in this process: give the probe attribute names nothing has written yet
            c = tw.fresh_leak_names(c)
        obs = tw.observe(c, **kw)
        det = tw.fresh_issues(c, kw.get("filename")) if nondet else None
        return any(s == sig for s, _ in tw.oracle(c, obs, must, det, offset=kw.get("offset", 0)))
    sep = "\n"
    lines = code.split(sep)
    if len(lines) > 1500 or not still(code):
        return code
    steps = 0
    size = max(len(lines) // 2, 1)
    while steps < 600:
        changed = False
        i = 0
        while i < len(lines) and steps < 600:
            cand = lines[:i] + lines[i + size:]
            steps += 1
            if cand and still(sep.join(cand)):
                lines = cand
                changed = True
            else:
                i += size
        if size == 1 and not changed:
            break
        size = max(size // 2, 1) if not changed or size > 1 else 1
    return sep.join(lines)


def replay(payload):
    rp = payload.get("replay") or {}
    code = rp.get("code")
    if code is None:
        print(json.dumps(payload, indent=1)[:4000])
        return 0
    kw = rp.get("kwargs") or {}
    if "history_case" in kw:
        case = kw["history_case"]
        for k, c in enumerate(case["codes"]):
            print("# ---- program %d (%s)" % (k + 1, case["mode"]))
            print(c)
        bad, recs = tw.history_oracle(case["codes"], case["mode"])
        print("observed:", json.dumps(recs, indent=1)[:3000])
        print("alone   :", json.dumps([tw.fresh_step(c, case["mode"]) for c in case["codes"]], indent=1)[:3000])
        print("oracle  :", [(s_, w) for s_, w, _ in bad])
        return 0
    print(code)
    obs = tw.observe(code, **kw)
    print("observed:", json.dumps(obs, indent=1)[:3000])
    print("oracle  :", tw.oracle(code, obs, rp.get("must_complete", False), tw.fresh_issues(code, kw.get("filename")),
                                 offset=kw.get("offset", 0)))
    return 0


def translate():
    return tt.translate()


if __name__ == "__main__":
    sys.exit(run_check("C18", proof_modules=["PedalProofs.C18"], theorems=THEOREMS, driver_exe="driver_c18",
                       translate=translate, correspond=correspond, search=search, replay=replay, model_notes=NOTES,
                       unproved_full=[{"statement": "the visitor completes on every program of the introductory subset",
                                       "status": "sampled, not proved (see assumptions)"}],
                       leanchecker_modules=["PedalProofs.C18"]))

"""
C09 shared pieces: the flow mini-AST, its rendering as Python source, the wire format of the Lean model,
the real TIFA observation, and the path oracle written from the property text.

Mini-AST (JSON-able):
  block := [stmt...]
  stmt  := ["as", x, [reads...], aug]        x = e          (aug: render as `x += e` when reads end with x)
         | ["ex", [reads...]]                 print(e) / e / pass
         | ["if", [reads...], block, block]   if e: ... else: ...     (else-block [] = no else)
         | ["wh", [reads...], block]          while e: ...
         | ["for", t, [reads...], block]      for t in e: ...
Variables are small ints, rendered with NAMES.
"""
import itertools

from common import use_repo

use_repo()

NAMES = ["x", "y", "z", "c", "d", "k", "xs", "ys"]
ALT_NAMES = ["总计", "naïve", "z", "c_1", "Δ", "k", "xs", "_ys"]     # same indices, non-ASCII / underscore spellings
# same indices again: student variables that happen to be NAMED like builtins TIFA knows (a very common novice habit:
# sum, max, list, id, ...) - they are ordinary variables once the program assigns them
BUILTIN_LIKE_NAMES = ["sum", "max", "list", "id", "len", "input", "str", "min"]
LOOP_KINDS = ("wh", "for")

FLOW_LABELS = {
    "initialization_problem": "init",
    "possible_initialization_problem": "possible",
    "read_out_of_scope": "outofscope",
    "unused_variable": "unused",
}


# --------------------------------------------------------------------------------------------
# rendering

class Style:
    """How expressions / else-if chains / blank and comment lines / line ends / identifiers are written; all
    choices leave the program's reads and writes unchanged (line numbers are taken from the rendering)."""

    def __init__(self, rng=None):
        self.rng = rng
        self.names = NAMES
        self.eol = "\n"
        self.filler = False
        if rng is not None:
            r = rng.random()
            if r < 0.12:
                self.names = ALT_NAMES
            elif r < 0.24:
                self.names = BUILTIN_LIKE_NAMES
            k = rng.random()
            if k < 0.06:
                self.eol = "\r\n"
            elif k < 0.10:
                self.eol = "\r"
            self.filler = rng.random() < 0.2

    def pick(self, n):
        return self.rng.randrange(n) if self.rng is not None else 0

    def fill(self, lines, ind):
        """Blank / comment lines (with separators that str.splitlines treats as line ends but CPython does not)."""
        if self.filler and self.rng.random() < 0.3:
            lines.append(self.rng.choice(["", ind + "# note", ind + "# form\x0cfeed", ind + "# sep\u2028arator", "   ",
                                          ind + "# nel\x85 fs\x1c"]))


LITERALS = ["1", "1", "'s'", "2.5", "True", '""', "0", "'a' * 2"]


def render_expr(rs, style, empty="1"):
    if not rs:
        # a read-less assignment: literals of different TYPES, so that two paths (or two successive branches)
        # can leave one variable with different types - TIFA's read/set bookkeeping must not depend on that
        if empty == "1" and style.rng is not None and style.rng.random() < 0.45:
            return style.rng.choice(LITERALS)
        return empty
    names = [style.names[r] for r in rs]
    if len(names) == 1:
        return "(" + names[0] + ")" if style.pick(4) == 3 else names[0]
    # Only forms whose TIFA type is insensitive to the operand types (comparison chains, `+`): on the
    # pinned tree some container-typed expressions make the whole analysis fail (tuple + tuple,
    # TypeUnion.clone) - that is C18/C19 matter, kept out of the C09 generator.
    k = style.pick(3)
    if k == 0:
        return " == ".join(names)
    if k == 1:
        return " != ".join(names)
    return " + ".join(names)


def render(block, style=None, preamble=()):
    """-> (code, numbered block): every stmt gets its 1-based line appended as last element."""
    style = style or Style()
    lines = list(preamble)
    N = style.names

    def go(b, ind, as_elif=False):
        out = []
        for idx, s in enumerate(b):
            kind = s[0]
            if not (as_elif and idx == 0):
                style.fill(lines, ind)
            if kind == "as":
                _, x, rs, aug = s
                ln = len(lines) + 1
                if aug and rs and rs[-1] == x:
                    lines.append("%s%s += %s" % (ind, N[x], render_expr(rs[:-1], style)))
                else:
                    lines.append("%s%s = %s" % (ind, N[x], render_expr(rs, style)))
                out.append(["as", x, rs, aug, ln])
            elif kind == "ex":
                rs = s[1]
                ln = len(lines) + 1
                if not rs:
                    lines.append(ind + ("print()" if style.pick(2) else "pass"))
                elif style.pick(3) == 2 and len(rs) == 1:
                    lines.append(ind + N[rs[0]])
                else:
                    lines.append("%sprint(%s)" % (ind, ", ".join(N[r] for r in rs)))
                out.append(["ex", rs, ln])
            elif kind == "if":
                _, rs, thn, els = s
                ln = len(lines) + 1
                kw = "elif" if (as_elif and idx == 0) else "if"
                lines.append("%s%s %s:" % (ind, kw, render_expr(rs, style, "True")))
                t = go(thn, ind + "    ") if thn else None
                if not thn:
                    lines.append(ind + "    pass")
                    t = []
                if els:
                    if len(els) == 1 and els[0][0] == "if" and style.pick(2) == 1:
                        e = go(els, ind, as_elif=True)
                    else:
                        lines.append(ind + "else:")
                        e = go(els, ind + "    ")
                else:
                    e = []
                out.append(["if", rs, t, e, ln])
            elif kind == "wh":
                _, rs, body = s
                ln = len(lines) + 1
                lines.append("%swhile %s:" % (ind, render_expr(rs, style, "True")))
                b2 = go(body, ind + "    ")
                if not body:
                    lines.append(ind + "    pass")
                out.append(["wh", rs, b2, ln])
            elif kind == "for":
                _, t, rs, body = s
                ln = len(lines) + 1
                lines.append("%sfor %s in %s:" % (ind, N[t], render_expr(rs, style, "[1, 2]")))
                b2 = go(body, ind + "    ")
                if not body:
                    lines.append(ind + "    pass")
                out.append(["for", t, rs, b2, ln])
            else:
                raise ValueError(kind)
        return out

    nb = go(block, "")
    return style.eol.join(lines) + style.eol, nb


def render_safe(block, style):
    """render(), but the builtin-like spelling (sum, max, list, ...) is only used for programs in which no read can
    precede the first assignment of its variable on any execution: reading `max` before assigning it is a read of
    the BUILTIN in real Python (no NameError), so such programs say nothing about uninitialised reads."""
    code, nb = render(block, style)
    if style.names is BUILTIN_LIKE_NAMES:
        try:
            risky = count_paths(nb) > PATH_CAP or bool(unset_read_sites(nb))
        except Exception:  # noqa: too many paths etc.
            risky = True
        if risky:
            style.names = NAMES
            code, nb = render(block, style)
    return code, nb


def wire(nb):
    """Numbered block -> token list for the Lean driver (`Prog` wire format)."""
    toks = []

    def reads(rs):
        toks.append(str(len(rs)))
        toks.extend(str(r) for r in rs)

    def go(b):
        for s in b:
            k = s[0]
            if k == "as":
                toks.extend(["A", str(s[4]), str(s[1])])
                reads(s[2])
            elif k == "ex":
                toks.extend(["E", str(s[2])])
                reads(s[1])
            elif k == "if":
                toks.extend(["I", str(s[4])])
                reads(s[1])
                go(s[2])
                toks.append("S")
                go(s[3])
                toks.append("S")
            elif k == "wh":
                toks.extend(["W", str(s[3])])
                reads(s[1])
                go(s[2])
                toks.append("S")
            elif k == "for":
                toks.extend(["F", str(s[4]), str(s[1])])
                reads(s[2])
                go(s[3])
                toks.append("S")
    go(nb)
    toks.append("S")
    return " ".join(toks)


def has_kind(b, kind):
    for s in b:
        if s[0] == kind:
            return True
        for sub in s[1:]:
            if isinstance(sub, list) and sub and isinstance(sub[0], list) and has_kind(sub, kind):
                return True
    return False


def size(b):
    n = 0
    for s in b:
        n += 1
        if s[0] == "if":
            n += size(s[2]) + size(s[3])
        elif s[0] == "wh":
            n += size(s[2])
        elif s[0] == "for":
            n += size(s[3])
    return n


def depth(b):
    d = 0
    for s in b:
        if s[0] == "if":
            d = max(d, 1 + max(depth(s[2]), depth(s[3])))
        elif s[0] == "wh":
            d = max(d, 1 + depth(s[2]))
        elif s[0] == "for":
            d = max(d, 1 + depth(s[3]))
    return d


# --------------------------------------------------------------------------------------------
# the real code

def run_real(code, names=None, variant=0):
    """-> sorted list of [label, name, line]  (line 0 for unused: the property names the variable only).
    variant 0: contextualize_report(code); tifa_analysis()   1: custom main file + bare call
            2: custom main file + tifa_analysis(code)       3: default report + tifa_analysis(code)"""
    from pedal.core.commands import contextualize_report
    from pedal.core.submission import Submission
    from pedal.tifa import tifa_analysis
    if variant in (1, 2):
        contextualize_report(Submission({"student_main.py": code}, "student_main.py"))
    else:
        contextualize_report(code)
    t = tifa_analysis(code) if variant in (2, 3) else tifa_analysis()
    if not t.success:
        return {"error": type(t.error).__name__ + ": " + str(t.error)[:200]}
    back = {n: NAMES[i] for i, n in enumerate(names)} if names else {}
    out = []
    for lab, short in FLOW_LABELS.items():
        for i in t.issues.get(lab, []):
            name = i.fields.get("name")
            line = 0 if short == "unused" else i.location.line
            out.append([short, back.get(name, name), line])
    return {"issues": sorted(out)}


# --------------------------------------------------------------------------------------------
# the real code, with a HISTORY: other programs analysed first by the same TIFA instance

HISTORY_APIS = (
    "tifa_analysis(code) on one report",                    # MAIN_REPORT, explicit code, no clear in between
    "contextualize_report(clear=False) + tifa_analysis()",  # MAIN_REPORT, the submission swapped, bare call
    "tifa_analysis(code, report=r) on an own Report",       # a non-default report
    "Tifa(report=Report()).process_code(code) repeatedly",  # one Tifa object driven by hand
    "Tifa().process_code(code) repeatedly",                 # one Tifa object on the main report, custom main file
)


def observe_full(t):
    """What an analysis result says about initialisation / use: the four flow labels as [label, name, line]
    (duplicates kept) and the (set, read, over) state of every variable on every path."""
    if not t.success:
        return {"error": type(t.error).__name__}
    issues = []
    for lab, short in FLOW_LABELS.items():
        for i in t.issues.get(lab, []):
            issues.append([short, str(i.fields.get("name")), i.location.line])
    # path ids and the scope ids inside the full names are numbering only: replaced by their rank within this result
    def rank(keys):
        try:
            return {k: i for i, k in enumerate(sorted(keys, key=int))}
        except (TypeError, ValueError):
            return {k: i for i, k in enumerate(keys)}
    prank = rank(list(t.variables.keys()))
    scopes = []
    for names in t.variables.values():
        for full in names:
            for part in str(full).split("/")[:-1]:
                if part.isdigit() and part not in scopes:
                    scopes.append(part)
    srank = rank(scopes)
    states = []
    for path, names in t.variables.items():
        for full, st in names.items():
            parts = str(full).split("/")
            canon = "/".join([str(srank.get(q, q)) for q in parts[:-1]] + parts[-1:])
            states.append([prank[path], canon, str(st.set), str(st.read), str(st.over)])
    top = [[str(n), str(st.set), str(st.read)] for n, st in t.top_level_variables.items()]
    return {"issues": sorted(issues), "states": sorted(states), "top": sorted(top)}


def run_fresh_full(code):
    from pedal.core.commands import contextualize_report, clear_report
    from pedal.tifa import tifa_analysis
    clear_report()
    contextualize_report(code)
    return observe_full(tifa_analysis())


def run_history(earlier, code, api):
    """Analyse the programs `earlier` and then `code` with ONE TIFA instance, the way `api` says.
    -> (observation of `code`, [observation of each earlier program, looked at again AFTERWARDS],
        [observation of each earlier program as it was returned])"""
    from pedal.core.commands import contextualize_report, clear_report
    from pedal.core.report import Report
    from pedal.core.submission import Submission
    from pedal.tifa import tifa_analysis, Tifa
    k = HISTORY_APIS.index(api)
    clear_report()
    at_return, results = [], []
    if k == 0:
        contextualize_report((earlier + [code])[0])
        for c in earlier:
            results.append(tifa_analysis(c))
            at_return.append(observe_full(results[-1]))
        got = observe_full(tifa_analysis(code))
        later = [observe_full(tifa_analysis(c)) for c in earlier]          # served from the per-code cache
    elif k == 1:
        for c in earlier:
            contextualize_report(c, clear=False)
            results.append(tifa_analysis())
            at_return.append(observe_full(results[-1]))
        contextualize_report(code, clear=False)
        got = observe_full(tifa_analysis())
        later = [observe_full(r) for r in results]
    elif k == 2:
        r = Report()
        for c in earlier:
            contextualize_report(c, report=r, clear=False)
            results.append(tifa_analysis(c, report=r))
            at_return.append(observe_full(results[-1]))
        contextualize_report(code, report=r, clear=False)
        got = observe_full(tifa_analysis(code, report=r))
        later = [observe_full(tifa_analysis(c, report=r)) for c in earlier]
    else:
        if k == 3:
            t = Tifa(report=Report())
        else:
            contextualize_report(Submission({"student_main.py": code}, "student_main.py"))
            t = Tifa()
        for c in earlier:
            results.append(t.process_code(c))
            at_return.append(observe_full(results[-1]))
        got = observe_full(t.process_code(code))
        later = [observe_full(r) for r in results]
    clear_report()
    return got, later, at_return


def history_verdict(earlier, code, api, fresh=None, fresh_earlier=None):
    """-> list of (what-kind, text): ways the analysis of `code` (or the results handed out for the earlier programs)
    depends on what the instance analysed before.  The property makes the diagnoses a function of the program's own
    paths, so every such dependence breaks it."""
    fresh = fresh if fresh is not None else run_fresh_full(code)
    got, later, at_return = run_history(earlier, code, api)
    out = []
    parts = ("issues", "states", "top") if not ("error" in got or "error" in fresh) else ("error",)
    for part in parts:
        a, b = got.get(part), fresh.get(part)
        if a != b:
            if isinstance(a, list) and isinstance(b, list):
                txt = "extra %s, missing %s" % ([x for x in a if x not in b][:4], [x for x in b if x not in a][:4])
            else:
                txt = "%s instead of %s" % (str(got)[:120], str(fresh)[:120])
            out.append(("issues" if part == "issues" else ("analysis-failed" if part == "error" else "variable-states"),
                        "after %d other program(s) the program under test gets %s: %s" % (len(earlier), part, txt)))
            break
    for i, c in enumerate(earlier):
        fe = fresh_earlier[i] if fresh_earlier else run_fresh_full(c)
        if at_return[i] == fe and later[i] != fe:
            part = ([q for q in ("issues", "states", "top") if fe.get(q) != later[i].get(q)] or ["error"])[0]
            out.append(("earlier-result-changed",
                        "the result handed out for earlier program #%d changed when later programs were analysed: %s %s -> %s"
                        % (i + 1, part, str(fe.get(part, fe))[:120], str(later[i].get(part, later[i]))[:120])))
            break
    return out, got


def back_names(obs_issues, names):
    """[label, name, line] of observe_full -> the form run_real returns (names mapped back to NAMES, unused at line 0)."""
    back = {n: NAMES[i] for i, n in enumerate(names)} if names else {}
    return {"issues": sorted([lab, back.get(n, n), 0 if lab == "unused" else ln] for lab, n, ln in obs_issues)}


def odd_earlier_programs():
    """Earlier programs of kinds the flow generator does not produce: every name assigned / every name read while
    unassigned (for each identifier spelling), a program that does not parse, an empty one, and constructs that leave
    their own bookkeeping in the instance (def, class, import, loop-else, del, try, with, comprehension)."""
    out = []
    for names in (NAMES, ALT_NAMES, BUILTIN_LIKE_NAMES):
        out.append("".join("%s = %d\n" % (n, i) for i, n in enumerate(names)))
        out.append("print(%s)\n" % ", ".join(names))
        out.append("if 1:\n" + "".join("    %s = 1\n" % n for n in names) + "print(%s)\n" % ", ".join(names))
    out += ["x = (\n", "", "import math\nx = math.pi\nprint(x)\n",
            "def f(x):\n    return y\nf(1)\n",
            "def f():\n    global x\n    x = 1\n    c = 2\nf()\nprint(x)\n",
            "class A:\n    def m(self):\n        return self.k\nprint(A().m())\n",
            "for x in [1, 2]:\n    pass\nelse:\n    y = 1\nprint(y)\n",
            "x = 1\ndel x\nprint(x)\n",
            "try:\n    x = 1\nexcept Exception as c:\n    print(c)\nprint(x, c)\n",
            "with open('f') as x:\n    print(y)\n",
            "print([x for x in y])\n",
            "while c:\n    x = 1\n    break\nprint(x)\n"]
    return out


def parse_model(ans):
    if not ans.startswith("ok"):
        return {"error": ans}
    out = []
    for tok in ans.split()[1:]:
        lab, name, line = tok.split(":")
        out.append([lab, NAMES[int(name)], int(line)])
    return {"issues": sorted(out)}


def parse_spec(ans):
    if not ans.startswith("ok"):
        return None
    return [[c, NAMES[int(n)], int(l)] for c, n, l in (t.split(":") for t in ans.split()[1:])]


# --------------------------------------------------------------------------------------------
# the oracle, from the property text

def paths(nb, iters=(0, 1, 2), min_for=0):
    """All event traces of a numbered block: one per combination of branch outcomes and loop iteration
    counts (each loop 0/1/2 times, independently chosen body paths per iteration).
    Events: ('r', var, line) / ('w', var, line)."""
    res = [[]]
    for s in nb:
        k = s[0]
        if k == "as":
            ev = [("r", r, s[4]) for r in s[2]] + [("w", s[1], s[4])]
            res = [p + ev for p in res]
        elif k == "ex":
            ev = [("r", r, s[2]) for r in s[1]]
            res = [p + ev for p in res]
        elif k == "if":
            cond = [("r", r, s[4]) for r in s[1]]
            alts = paths(s[2], iters, min_for) + paths(s[3], iters, min_for)
            res = [p + cond + q for p in res for q in alts]
        elif k == "wh":
            cond = [("r", r, s[3]) for r in s[1]]
            bp = paths(s[2], iters, min_for)
            alts = []
            for n in iters:
                for combo in itertools.product(bp, repeat=n):
                    q = list(cond)
                    for body in combo:
                        q = q + body + cond
                    alts.append(q)
            res = [p + q for p in res for q in alts]
        elif k == "for":
            it = [("r", r, s[4]) for r in s[2]]
            tgt = [("w", s[1], s[4])]
            bp = paths(s[3], iters, min_for)
            alts = []
            for n in iters:
                if n < min_for:
                    continue
                for combo in itertools.product(bp, repeat=n):
                    q = list(it)
                    for body in combo:
                        q = q + tgt + body
                    alts.append(q)
            res = [p + q for p in res for q in alts]
    return res


def count_paths(nb, iters=(0, 1, 2)):
    n = 1
    for s in nb:
        k = s[0]
        if k == "if":
            n *= count_paths(s[2], iters) + count_paths(s[3], iters)
        elif k == "wh":
            b = count_paths(s[2], iters)
            n *= sum(b ** i for i in iters)
        elif k == "for":
            b = count_paths(s[3], iters)
            n *= sum(b ** i for i in iters)
        if n > 10 ** 9:
            return n
    return n


PATH_CAP = 4000
ORACLE_SKIPPED = [0]


def read_classes(nb):
    """if-subset: (var, line) -> 'all' | 'none' | 'some', over all branch-outcome vectors."""
    reads = {}
    for p in paths(nb):
        assigned = set()
        for k, v, l in p:
            if k == "r":
                reads.setdefault((v, l), []).append(v in assigned)
            else:
                assigned.add(v)
    return {key: ("all" if all(bs) else ("none" if not any(bs) else "some")) for key, bs in reads.items()}


def read_classes_ordered(nb):
    """Program-order list [cls, name, line] for every read occurrence (if-subset), for the Lean spec cross-check."""
    cls = read_classes(nb)
    out = []

    def go(b):
        for s in b:
            k = s[0]
            if k == "as":
                out.extend([cls[(r, s[4])], NAMES[r], s[4]] for r in s[2])
            elif k == "ex":
                out.extend([cls[(r, s[2])], NAMES[r], s[2]] for r in s[1])
            elif k == "if":
                out.extend([cls[(r, s[4])], NAMES[r], s[4]] for r in s[1])
                go(s[2])
                go(s[3])
    go(nb)
    return out


def unused_classes(nb):
    """if-subset: var -> 'all' | 'none' | 'some': read after its last assignment, over the paths that assign it."""
    per = {}
    for p in paths(nb):
        last = {}
        for i, (k, v, l) in enumerate(p):
            if k == "w":
                last[v] = i
        for v, i in last.items():
            per.setdefault(v, []).append(any(k == "r" and vv == v for k, vv, l in p[i + 1:]))
    return {v: ("all" if all(bs) else ("none" if not any(bs) else "some")) for v, bs in per.items()}


def unset_read_sites(nb, min_for=0, iters=(0, 1, 2)):
    """Loops: sites (var, line) read while unassigned on some REAL execution (stops at the first NameError)."""
    need = set()
    for p in paths(nb, iters=tuple(sorted(set(iters))), min_for=min_for):
        assigned = set()
        for k, v, l in p:
            if k == "r":
                if v not in assigned:
                    need.add((v, l))
                    break
            else:
                assigned.add(v)
    return need


def oracle(nb, real):
    """-> list of (signature, what) : ways the REAL result breaks the property on this program."""
    if "error" in real:
        return [({"kind": "analysis-failed"}, "tifa_analysis did not complete: " + real["error"])]
    got = {}
    for lab, name, line in real["issues"]:
        if lab != "unused":
            got.setdefault((name, line), set()).add(lab)
    unused = {name for lab, name, line in real["issues"] if lab == "unused"}
    bad = []
    loops = has_kind(nb, "wh") or has_kind(nb, "for")
    if not loops:
        if count_paths(nb) > 20 * PATH_CAP:
            ORACLE_SKIPPED[0] += 1
            return bad
        cls = read_classes(nb)
        none_read = {v for (v, l), c in cls.items() if c == "none"}
        for (v, l), c in sorted(cls.items()):
            g = got.get((NAMES[v], l), set())
            if c == "all" and g:
                bad.append(({"kind": "init-spurious"}, "%s read at line %d is assigned on every path but reported %s"
                            % (NAMES[v], l, sorted(g))))
            elif c == "none" and not (g and g <= {"init", "outofscope"}):
                bad.append(({"kind": "init-missed" if not g else "init-wrong-kind", "class": "none"},
                            "%s read at line %d is assigned on no path; reported %s" % (NAMES[v], l, sorted(g))))
            elif c == "some" and g != {"possible"}:
                bad.append(({"kind": "init-missed" if not g else "init-wrong-kind", "class": "some"},
                            "%s read at line %d is assigned on some paths only; reported %s" % (NAMES[v], l, sorted(g))))
        sites = {(NAMES[v], l) for (v, l) in cls}
        for key in sorted(got):
            if key not in sites:
                bad.append(({"kind": "init-spurious"}, "issue %s at a site that is not a read: %s" % (sorted(got[key]), key)))
        for v, c in sorted(unused_classes(nb).items()):
            if c == "none" and NAMES[v] not in unused:
                cause = "earlier-unset-read" if v in none_read else "other"
                bad.append(({"kind": "unused-missed", "cause": cause},
                            "%s is never read after its last assignment on any path but is not reported unused" % NAMES[v]))
            if c == "all" and NAMES[v] in unused:
                bad.append(({"kind": "unused-spurious"},
                            "%s is read after its last assignment on every path but is reported unused" % NAMES[v]))
    else:
        iters = (0, 1, 2)
        if count_paths(nb, iters) > PATH_CAP:
            iters = (0, 1)
            if count_paths(nb, iters) > PATH_CAP:
                ORACLE_SKIPPED[0] += 1       # too many executions to enumerate: no verdict on this program
                return bad
        need = unset_read_sites(nb, iters=iters)
        miss = {(v, l) for (v, l) in need if not got.get((NAMES[v], l))}
        if miss:
            # root cause: does the miss disappear when every `for` is assumed to run at least once?
            still = {(v, l) for (v, l) in unset_read_sites(nb, min_for=1, iters=iters) if not got.get((NAMES[v], l))}
            for (v, l) in sorted(miss):
                cause = "other" if (v, l) in still else "for-zero-iterations"
                bad.append(({"kind": "unset-read-missed", "cause": cause},
                            "%s read at line %d is unassigned on a real execution but no issue is reported there"
                            % (NAMES[v], l)))
    return bad


# --------------------------------------------------------------------------------------------
# generators

def gen_block(rng, nvars, budget, depth_left, kinds, top=True):
    """Random block of at most `budget` statements (nested ones included)."""
    out = []
    while budget[0] > 0 and (not out or rng.random() < (0.8 if top else 0.6)):
        budget[0] -= 1
        r = rng.random()
        nreads = rng.choice([0, 1, 1, 1, 2, 3])
        rs = [rng.randrange(nvars) for _ in range(nreads)]
        if depth_left > 0 and budget[0] > 0 and r < 0.35:
            kind = rng.choice(kinds)
            cond = rs[:2] if rs else [rng.randrange(nvars)]
            if kind == "if":
                thn = gen_block(rng, nvars, budget, depth_left - 1, kinds, False)
                els = gen_block(rng, nvars, budget, depth_left - 1, kinds, False) if (budget[0] > 0 and rng.random() < 0.55) else []
                out.append(["if", cond, thn, els])
            elif kind == "wh":
                out.append(["wh", cond, gen_block(rng, nvars, budget, depth_left - 1, kinds, False)])
            else:
                out.append(["for", rng.randrange(nvars), cond[:1] if rng.random() < 0.8 else cond,
                            gen_block(rng, nvars, budget, depth_left - 1, kinds, False)])
        elif r < 0.7:
            x = rng.randrange(nvars)
            aug = rng.random() < 0.15
            if aug:
                rs = rs[:2] + [x]
            out.append(["as", x, rs, aug])
        else:
            out.append(["ex", rs or [rng.randrange(nvars)]])
    return out


def gen_case(rng, kinds=("if",), max_size=9, max_depth=4, nvars=None):
    """Most programs start by assigning most of their variables (otherwise nearly every read is
    trivially 'assigned on no path' and real executions stop at the first statement)."""
    nvars = nvars or rng.choice([2, 3, 3, 4, 5])
    pre = []
    mode = rng.random()
    if mode < 0.8:
        keep = 0.85 if mode < 0.5 else 0.5
        for v in range(nvars):
            if rng.random() < keep:
                pre.append(["as", v, [], False])
        rng.shuffle(pre)
    b = gen_block(rng, nvars, [rng.randint(1, max_size)], rng.randint(0, max_depth), list(kinds))
    return pre + b


def gen_pattern(rng, kinds=("if",)):
    """'Assigned inside a compound statement, read afterwards' shapes with noise: the programs on which
    the three-valued merge (and the loop treatment) decides the diagnosis."""
    nvars = rng.choice([2, 3, 4])
    x = rng.randrange(nvars)
    pre = [["as", v, [], False] for v in range(nvars) if v != x and rng.random() < 0.9]
    if rng.random() < 0.25:
        pre.append(["as", x, [], False])
    rng.shuffle(pre)

    def noise():
        r = rng.random()
        v = rng.randrange(nvars)
        if r < 0.4:
            return ["ex", [v]]
        if r < 0.8:
            return ["as", v, [rng.randrange(nvars)] if rng.random() < 0.6 else [], False]
        return ["as", x, [], False]

    def compound(d):
        kind = rng.choice(list(kinds))
        cond = [rng.choice([v for v in range(nvars) if v != x] or [x])]
        body = []
        for _ in range(rng.randint(0, 2)):
            body.append(noise())
        if d > 0 and rng.random() < 0.45:
            body.append(compound(d - 1))
        else:
            body.append(["as", x, [], False])
        for _ in range(rng.randint(0, 1)):
            body.append(noise())
        if kind == "if":
            els = []
            if rng.random() < 0.5:
                for _ in range(rng.randint(1, 2)):
                    els.append(noise())
                if rng.random() < 0.5:
                    els.append(compound(d - 1) if d > 0 and rng.random() < 0.4 else ["as", x, [], False])
            return ["if", cond, body, els]
        if kind == "wh":
            return ["wh", cond, body]
        return ["for", rng.choice([v for v in range(nvars) if v != x] or [x]), cond, body]

    mid = [compound(rng.randint(0, 2))]
    tail = [["ex", [x]]] if rng.random() < 0.85 else []
    for _ in range(rng.randint(0, 2)):
        tail.insert(rng.randint(0, len(tail)), noise())
    if rng.random() < 0.3:
        tail.append(compound(1))
    return pre + mid + tail


def enum_blocks(n, depth_left, nvars, kinds, cond_vars, target=2):
    """All blocks of exactly n statements (nested included): atoms over `nvars` variables, compound
    statements of the given kinds with a single-variable condition from cond_vars."""
    if n == 0:
        yield []
        return
    atoms = []
    for v in range(nvars):
        atoms.append(["as", v, [], False])
        for r in range(nvars):
            atoms.append(["as", v, [r], False])
        atoms.append(["ex", [v]])
    for a in atoms:
        for rest in enum_blocks(n - 1, depth_left, nvars, kinds, cond_vars, target):
            yield [a] + rest
    if depth_left > 0:
        for k in range(1, n):
            for kind in kinds:
                for t in range(1, k + 1):
                    e = k - t
                    if kind != "if" and e > 0:
                        continue
                    for cv in cond_vars:
                        for tb in enum_blocks(t, depth_left - 1, nvars, kinds, cond_vars, target):
                            for eb in enum_blocks(e, depth_left - 1, nvars, kinds, cond_vars, target):
                                for rest in enum_blocks(n - 1 - k, depth_left, nvars, kinds, cond_vars, target):
                                    if kind == "if":
                                        yield [["if", [cv], tb, eb]] + rest
                                    elif kind == "wh":
                                        yield [["wh", [cv], tb]] + rest
                                    else:
                                        yield [["for", target, [cv], tb]] + rest


def first_var(b, among):
    """First variable of `among` mentioned in the block, in source order (symmetry breaking)."""
    for s in b:
        k = s[0]
        cands = []
        if k == "as":
            cands = list(s[2]) + [s[1]]
        elif k == "ex":
            cands = list(s[1])
        elif k == "if":
            cands = list(s[1])
        elif k == "wh":
            cands = list(s[1])
        elif k == "for":
            cands = list(s[2]) + [s[1]]
        for v in cands:
            if v in among:
                return v
        for sub in (s[2:4] if k == "if" else [s[2]] if k == "wh" else [s[3]] if k == "for" else []):
            v = first_var(sub, among)
            if v is not None:
                return v
    return None


def enum_programs(max_n, depth_left, kinds, cond_is_var=False):
    """Every program of <= max_n statements over x, y (first mentioned one is x: the other half is its
    mirror image) after the preamble `c = 1`; conditions / iterables read c (or, cond_is_var, also x)."""
    cond_vars = [3, 0] if cond_is_var else [3]
    for n in range(1, max_n + 1):
        for b in enum_blocks(n, depth_left, 2, kinds, cond_vars):
            if first_var(b, (0, 1)) == 1:
                continue
            yield [["as", 3, [], False]] + b


def shrink(block, still_fails):
    """Greedy structural shrinking: drop statements, replace compound statements by a branch, drop reads."""
    def variants(b):
        for i, s in enumerate(b):
            yield b[:i] + b[i + 1:]
            if s[0] == "if":
                yield b[:i] + s[2] + b[i + 1:]
                yield b[:i] + s[3] + b[i + 1:]
                if s[3]:
                    yield b[:i] + [["if", s[1], s[2], []]] + b[i + 1:]
                for v in variants(s[2]):
                    yield b[:i] + [["if", s[1], v, s[3]]] + b[i + 1:]
                for v in variants(s[3]):
                    yield b[:i] + [["if", s[1], s[2], v]] + b[i + 1:]
                if len(s[1]) > 1:
                    yield b[:i] + [["if", s[1][:1], s[2], s[3]]] + b[i + 1:]
            elif s[0] == "wh":
                yield b[:i] + s[2] + b[i + 1:]
                for v in variants(s[2]):
                    yield b[:i] + [["wh", s[1], v]] + b[i + 1:]
            elif s[0] == "for":
                for v in variants(s[3]):
                    yield b[:i] + [["for", s[1], s[2], v]] + b[i + 1:]
            elif s[0] == "as" and s[2]:
                yield b[:i] + [["as", s[1], s[2][1:], False]] + b[i + 1:]
            elif s[0] == "ex" and len(s[1]) > 1:
                yield b[:i] + [["ex", s[1][1:]]] + b[i + 1:]
    cur = block
    progress = True
    steps = 0
    while progress and steps < 200:
        progress = False
        for v in variants(cur):
            steps += 1
            if v and still_fails(v):
                cur = v
                progress = True
                break
    return cur

#!/usr/bin/env python3
"""
harness/probe_merge.py - behavioural fallback for harness/translate_merge.py.

When the AST reading of `FinalFeedback.merge` / `finalize` leaves constructs it does not understand (a refactoring
moved the logic into helpers with early returns, lookup tables, ...), the IR program is SYNTHESISED FROM MEASUREMENT
instead: the real `merge` is called once for every observation the IR distinguishes (2^11 * 3 = 6144: truthiness /
None-ness of the attributes named in `MergeIR.Obs`), the effects of each call are read off the real objects, and the
resulting finite table is turned into a decision tree in the same IR (`Stmt.ite` over observation atoms, straight-line
effect statements with constant arguments at the leaves).  The Lean obligation `merge_ir_agrees` is then checked by the
kernel against that tree exactly as it is against an AST-derived program - a behavioural change of `merge` still breaks
it - but the tie is "exhaustive measurement over the finite observation space" rather than "reading of the source", and
the evidence says so (`merge_source: probed`).  What measurement cannot show: that `merge` reads nothing BEYOND those
atoms; the random differential correspondence samples that.

`finalize` likewise: 2^5 states x suppression dictionaries, conditions synthesised by Shannon expansion into `FExp`.
"""
import itertools

ATOMS = ["triggered", "catSystem", "unscored", "scoreNotNone", "valenceNeNeg", "elseMsg", "muted", "kind",
         "fbCorrect", "selfCorrect", "msgNotNone", "selfMsgNone"]
KINDS = ["compliment", "instructional", "other"]


class _Sentinel:
    def __repr__(self):
        return "<unset>"


def _observe_merge(Feedback, FinalFeedback, Report, o):
    """Run the real merge on one observation; returns the tuple of effects in the IR's canonical order, or raises."""
    rep = Report()
    kind = {"compliment": Feedback.KINDS.COMPLIMENT, "instructional": Feedback.KINDS.INSTRUCTIONAL,
            "other": Feedback.KINDS.MISTAKE}[o["kind"]]
    fb = Feedback(label="probe_label", report=rep, activate=False, delay_condition=True)
    fb._met_condition = o["triggered"]
    fb.category = Feedback.CATEGORIES.SYSTEM if o["catSystem"] else Feedback.CATEGORIES.RUNTIME
    fb.unscored = o["unscored"]
    fb.score = "+5" if o["scoreNotNone"] else None
    fb.valence = Feedback.POSITIVE_VALENCE if o["valenceNeNeg"] else Feedback.NEGATIVE_VALENCE
    fb.else_message = "else text" if o["elseMsg"] else None
    fb.muted = o["muted"]
    fb.kind = kind
    fb.correct = o["fbCorrect"]
    fb.message = "the message" if o["msgNotNone"] else None
    fb.title = "the title"
    fb.fields = {}
    fb.priority = None
    unset = _Sentinel()
    fb.resolved_score = unset
    final = FinalFeedback(correct=o["selfCorrect"], score=0, category=Feedback.CATEGORIES.COMPLETE,
                          label=FinalFeedback.DEFAULT_NO_FEEDBACK_LABEL, title=None,
                          message=None if o["selfMsgNone"] else "earlier message", data=None,
                          hide_correctness=False, suppressions={}, suppressed_labels={})
    final.success = unset
    ret = final.merge(fb)
    eff = []
    if any(x is fb for x in final.systems):
        eff.append(("append", "systems"))
    if final._scores:
        if len(final._scores) != 1:
            raise ValueError("more than one score pushed")
        eff.append(("pushScore", str(final._scores[0]).startswith("!")))
    if fb.resolved_score is not unset:
        eff.append(("resolvedScore", str(fb.resolved_score).startswith("!")))
    if any(x is fb for x in final.positives):
        eff.append(("append", "positives"))
    if any(x is fb for x in final.instructions):
        eff.append(("append", "instructions"))
    if final.success is not unset:
        if bool(final.success) != bool(final.correct):
            raise ValueError("success and correct set apart")
        eff.append(("setCorrect", bool(final.correct)))
    elif bool(final.correct) != o["selfCorrect"]:
        raise ValueError("correct changed without success")
    took = any(x is fb for x in final.used)
    if took != (final.label == "probe_label") or (took and final.message != "the message") \
            or (not took and final.message != (None if o["selfMsgNone"] else "earlier message")):
        raise ValueError("message/label/used taken apart")
    if took:
        eff.append(("takeMessage",))
    if ret is fb:
        eff.append(("ret", True))
    elif ret is None:
        eff.append(("ret", False))
    else:
        raise ValueError("merge returned something else")
    return tuple(eff)


def _lean_bool(b):
    return "true" if b else "false"


def _leaf(effects):
    out = []
    for e in effects:
        if e[0] == "append":
            out.append(".append .%s" % e[1])
        elif e[0] in ("pushScore", "resolvedScore", "setCorrect"):
            out.append(".%s (.const %s)" % (e[0], _lean_bool(e[1])))
        elif e[0] == "takeMessage":
            out.append(".takeMessage")
        elif e[0] == "ret":
            out.append(".ret %s" % _lean_bool(e[1]))
    return out


def _tree(rows, atoms):
    """rows: list of (obs dict, value); -> list of IR statements deciding `value` (a tuple of effects)."""
    vals = {v for _, v in rows}
    if len(vals) == 1:
        return _leaf(next(iter(vals)))
    for i, a in enumerate(atoms):
        if a == "kind":
            parts = [[r for r in rows if r[0]["kind"] == k] for k in KINDS]
            subs = [_tree(p, atoms[i + 1:]) for p in parts]
            if subs[0] == subs[1] == subs[2]:
                continue
            inner = subs[2] if subs[1] == subs[2] else [".ite (.kindEq .instructional) [%s] [%s]" % (", ".join(subs[1]), ", ".join(subs[2]))]
            if subs[0] == inner:
                return inner
            return [".ite (.kindEq .compliment) [%s] [%s]" % (", ".join(subs[0]), ", ".join(inner))]
        t = _tree([r for r in rows if r[0][a]], atoms[i + 1:])
        e = _tree([r for r in rows if not r[0][a]], atoms[i + 1:])
        if t == e:
            continue
        return [".ite (.%s) [%s] [%s]" % (a, ", ".join(t), ", ".join(e))]
    raise ValueError("observations do not determine the effects")


def all_observations():
    bools = [a for a in ATOMS if a != "kind"]
    for bits in itertools.product([False, True], repeat=len(bools)):
        for k in KINDS:
            o = dict(zip(bools, bits))
            o["kind"] = k
            yield o


def probe_merge(Feedback, FinalFeedback, Report):
    """-> (list of IR statement strings, number of observations measured).  Raises ValueError when the real merge
    does something the effect vocabulary cannot express (then the caller keeps the AST reading, unknowns and all)."""
    rows = [(o, _observe_merge(Feedback, FinalFeedback, Report, o)) for o in all_observations()]
    # three independent segments, emitted one after the other (the first two never return):
    # systems-append | score effects | the rest
    def seg(v, names):
        return tuple(e for e in v if e[0] in names or (e[0] == "append" and e[1] in names))
    s1 = [(o, seg(v, {"systems"})) for o, v in rows]
    s2 = [(o, seg(v, {"pushScore", "resolvedScore"})) for o, v in rows]
    s3 = [(o, seg(v, {"positives", "instructions", "setCorrect", "takeMessage", "ret"})) for o, v in rows]
    prog = []
    for s in (s1, s2, s3):
        prog += [st for st in _tree(s, ATOMS)]
    return prog, len(rows)


# ----------------------------------------------------------------------------------------------------------- finalize

FIN_ATOMS = ["msgNone", "hide", "usedEmpty", "labelDefault", "catComplete"]


def _shannon(table, atoms):
    """table: dict obs-tuple -> bool over `atoms`; -> FExp source."""
    vals = set(table.values())
    if vals == {True}:
        return ".const true"
    if vals == {False}:
        return ".const false"
    a = atoms[0]
    hi = {k[1:]: v for k, v in table.items() if k[0]}
    lo = {k[1:]: v for k, v in table.items() if not k[0]}
    fh, fl = _shannon(hi, atoms[1:]), _shannon(lo, atoms[1:])
    if fh == fl:
        return fh
    if fl == ".const false":
        return ".%s" % a if fh == ".const true" else ".and (.%s) (%s)" % (a, fh)
    if fh == ".const false":
        return ".not (.%s)" % a if fl == ".const true" else ".and (.not (.%s)) (%s)" % (a, fl)
    if fh == ".const true":
        return ".or (.%s) (%s)" % (a, fl)
    if fl == ".const true":
        return ".or (.not (.%s)) (%s)" % (a, fh)
    return ".or (.and (.%s) (%s)) (.and (.not (.%s)) (%s))" % (a, fh, a, fl)


def probe_finalize(Feedback, FinalFeedback, Report, set_correct):
    """-> (defaultMsgCond, completeCond, hideKeys, shapeOk)"""
    def make(o, suppressions):
        f = FinalFeedback(correct=False, score=0,
                          category=Feedback.CATEGORIES.COMPLETE if o["catComplete"] else Feedback.CATEGORIES.RUNTIME,
                          label=FinalFeedback.DEFAULT_NO_FEEDBACK_LABEL if o["labelDefault"] else "other_label",
                          title="given title", message=None if o["msgNone"] else "given message", data=None,
                          hide_correctness=None, suppressions=dict(suppressions), suppressed_labels={})
        if not o["usedEmpty"]:
            f.used.append(object())
        f._scores.append("+0.25")
        return f

    # which suppression keys hide correctness, and in which order they are consulted
    def hides(sup):
        f = make(dict(msgNone=False, usedEmpty=False, labelDefault=False, catComplete=False), sup)
        f.finalize()
        return bool(f.hide_correctness)
    keys = []
    if hides({"correct": True}) and not hides({"correct": False}):
        keys.append("correct")
    if hides({"success": True}) and not hides({"success": False}):
        keys.append("success")
    if keys == ["correct", "success"]:
        if hides({"correct": False, "success": True}) or not hides({"correct": True, "success": False}):
            keys = ["success", "correct"] if hides({"correct": False, "success": True}) else keys
    shape = not hides({}) and not hides({"other": True})
    dflt, comp = {}, {}
    for bits in itertools.product([False, True], repeat=len(FIN_ATOMS)):
        o = dict(zip(FIN_ATOMS, bits))
        f = make(o, {"correct": True} if o["hide"] else {})
        r = f.finalize()
        shape = shape and r is f and bool(f.hide_correctness) == o["hide"] and isinstance(f.correct, bool) \
            and f.success is f.correct
        took_default = f.title == FinalFeedback.DEFAULT_NO_FEEDBACK_TITLE and f.message == FinalFeedback.DEFAULT_NO_FEEDBACK_MESSAGE
        complete = f.title == set_correct.title and f.message == set_correct.message_template
        if complete:
            shape = shape and f.score == 1 and f.correct is True
        else:
            shape = shape and f.score == 0.25 and f.correct is False
            if o["msgNone"]:
                shape = shape and took_default
            else:
                shape = shape and f.title == "given title" and f.message == "given message"
        # the default-message branch runs first; it is visible unless the complete branch overwrote it
        dflt[bits] = took_default if not complete else o["msgNone"]
        comp[bits] = complete
    return _shannon(dflt, FIN_ATOMS), _shannon(comp, FIN_ATOMS), keys, shape

"""
C16 — MEASURING what a method of `SandboxResult` does (the probe half of harness/translate_proxy.py).

A forwarding plan (PedalModel/Proxy.lean `Plan`) says: which operation the method applies to the wrapped value(s), in
which operand order, with a proxied other operand unwrapped or not, an optional second expression taken when the
first gave NotImplemented, whether it prints, whether the result is wrapped again.  Whether a real method IS a given
plan is measured here, not guessed from its spelling:

  * the real (unbound) method is called on a proxy of an INSTRUMENTED operand - an object whose every dunder of the
    C16 families records (dunder, receiver, arguments) in a shared log - with the other operand an instrumented
    object too, once plain and once behind a proxy, in several modes:
        accept    every dunder answers (a fresh token; typed dunders a value of the type CPython insists on)
        decline   binary dunders answer NotImplemented, typed dunders a value of the WRONG type
        raise     every dunder raises
        subclass  the other operand's class derives from the receiver's and overrides the reflected dunders
                  (CPython then asks the right operand first - an operator does, a dunder called by hand does not)
        missing   the receiver's class lacks the dunder (a builtin then walks on along its chain, a dunder called
                  by hand raises AttributeError)
    plus, where the signature has further parameters (`*modulo`, `*ndigits`, `format_spec`), with and without them
    (the modulus plain and proxied);
  * the observation of one call = (the log, the outcome: token / proxy of token / NotImplemented / value / exception
    class, whether stdout was written);
  * the same scenarios are run through `reference(plan)`, a direct Python rendering of the Lean `runPlan` /
    `runPlan1`.  The method IS the plan iff all observations are identical.

`matches(name, plan, flags)` is the cross-check of a plan read from the AST; `classify(name)` searches the finite
plan space for the plan(s) the method is observationally identical to (used when the reading could not follow the
code).  Nothing here looks at source text.
"""
import contextlib
import inspect
import io
import math
import operator
from collections import namedtuple

from common import use_repo

use_repo()
from pedal.sandbox import result as result_mod            # noqa: E402

SR = result_mod.SandboxResult

Plan = namedtuple("Plan", "first fallback prints wrap unwrap_other")
# Expr: ("infix", op, a, b) | ("method", dunder, a, b) | ("method1", dunder) | ("builtin", conv) | ("subscript",)
#       | ("isIn",) | ("missingName",)        a, b in {"self", "other"};  op / dunder / conv are the Lean names

ARITH = ["add", "sub", "mul", "matmul", "truediv", "floordiv", "mod", "divmod", "pow", "lshift", "rshift", "and_",
         "xor", "or_"]
CMPS = ["lt", "le", "gt", "ge", "eq", "ne"]
OPFUN = {"add": operator.add, "sub": operator.sub, "mul": operator.mul, "matmul": operator.matmul,
         "truediv": operator.truediv, "floordiv": operator.floordiv, "mod": operator.mod, "divmod": divmod,
         "pow": pow, "lshift": operator.lshift, "rshift": operator.rshift, "and_": operator.and_,
         "xor": operator.xor, "or_": operator.or_, "lt": operator.lt, "le": operator.le, "gt": operator.gt,
         "ge": operator.ge, "eq": operator.eq, "ne": operator.ne}
CONVFUN = {"neg": operator.neg, "pos": operator.pos, "abs": abs, "invert": operator.invert, "len": len,
           "hash": hash, "bool": bool, "str": str, "repr": repr, "format": format, "int": int, "float": float,
           "complex": complex, "round": round, "trunc": math.trunc, "floor": math.floor, "ceil": math.ceil,
           "index": operator.index, "iter": iter, "reversed": reversed}


def py_name(lean):
    return "__%s__" % lean.rstrip("_")


BINARY_DUNDERS = ([py_name(o) for o in ARITH] + ["__r%s__" % o.rstrip("_") for o in ARITH]
                  + [py_name(o) for o in CMPS])
FREE_UNARY = ["__neg__", "__pos__", "__abs__", "__invert__", "__trunc__", "__floor__", "__ceil__", "__round__",
              "__reversed__"]
TYPED = {  # dunder -> value of the type CPython insists on
    "__len__": lambda: 7, "__hash__": lambda: 12345, "__bool__": lambda: True, "__str__": lambda: "s!",
    "__repr__": lambda: "r!", "__format__": lambda: "f!", "__int__": lambda: 11, "__float__": lambda: 2.5,
    "__complex__": lambda: 2.5j, "__index__": lambda: 5, "__iter__": lambda: iter([1, 2]),
    "__contains__": lambda: "yes",      # a truthy non-bool: `in` coerces it, a call by hand does not
}
ALL_DUNDERS = BINARY_DUNDERS + FREE_UNARY + list(TYPED) + ["__getitem__"]


class ProbeError(Exception):
    pass


class Log:
    def __init__(self):
        self.entries = []
        self.tokens = 0


class Tok:
    """What an instrumented dunder answers: an inert object with a serial number."""
    def __init__(self, log):
        self.tag = "R%d" % log.tokens
        log.tokens += 1


def raw_value(p):
    return object.__getattribute__(p, "value")


def tag(v, depth=0):
    """Canonical description of a value seen by an instrumented dunder or handed back by a method."""
    if type(v) is SR:
        try:
            return "P(%s)" % tag(raw_value(v), depth + 1)
        except AttributeError:
            return "P(?)"
    t = getattr(type(v), "_probe_tagged", False)
    if t or type(v) is Tok:
        return v.tag
    if v is NotImplemented:
        return "NI"
    if v is None or type(v) in (bool, int, float, complex, str):
        return repr(v)
    if type(v) in (tuple, list) and depth < 3:
        return "%s[%s]" % (type(v).__name__, ",".join(tag(x, depth + 1) for x in v))
    if hasattr(type(v), "__next__") and depth < 3:
        items = []
        try:
            for i, x in enumerate(v):
                items.append(tag(x, depth + 1))
                if i > 8:
                    break
        except Exception as e:       # noqa
            items.append("!" + type(e).__name__)
        return "iter[%s]" % ",".join(items)
    return type(v).__name__


# ----------------------------------------------------------------------------------------------------------
# the proxy's own vocabulary (names SandboxResult itself uses), read from the tree under test

_VOCAB = None
SUPPLEMENT = ["report", "call_id", "context", "result", "data", "name", "target", "output"]   # plausible pedal-ish names


def _cores(names):
    out = []
    for n in names:
        c = n.strip("_")
        if c and c not in out:
            out.append(c)
    return out


def proxy_vocabulary():
    """-> {"tier1": names the proxy tests / fetches by name or may assign (string constants that are identifiers,
    ASSIGNABLE_ATTRS, non-protocol attribute names of the module's AST), "tier2": constructor / method parameter names,
    class-level and module-level names, a few supplementary names, "variants": underscore / dunder-ish spellings of
    the tier-1 names, "private": the underscore-prefixed ones (the proxy's reserved identification names)}.
    Protocol dunders (names every class has, and the dunder METHODS SandboxResult defines) are not attribute
    vocabulary: student classes defining those are the ordinary generated classes."""
    global _VOCAB
    if _VOCAB is not None:
        return _VOCAB
    import ast
    consts, attrs, params = [], [], []
    try:
        tree = ast.parse(inspect.getsource(result_mod))
    except (OSError, TypeError, SyntaxError):
        tree = ast.Module(body=[], type_ignores=[])
    # `operator.add`, `math.floor`: an attribute fetched from an imported MODULE is never looked up on a student value.
    # (Only when the name is bound by nothing but the import anywhere in the file - a rebinding keeps the name in.)
    rebound = {n.id for n in ast.walk(tree) if isinstance(n, ast.Name) and isinstance(n.ctx, (ast.Store, ast.Del))}
    rebound |= {n.arg for n in ast.walk(tree) if isinstance(n, ast.arg)}
    rebound |= {n.name for n in ast.walk(tree) if isinstance(n, (ast.FunctionDef, ast.AsyncFunctionDef, ast.ClassDef))}
    modules = {k for k, v in vars(result_mod).items() if inspect.ismodule(v) and k not in rebound}
    for n in ast.walk(tree):
        if isinstance(n, ast.Constant) and isinstance(n.value, str) and n.value.isidentifier():
            consts.append(n.value)
        elif isinstance(n, ast.Attribute):
            if isinstance(n.value, ast.Name) and n.value.id in modules and isinstance(n.ctx, ast.Load) \
                    and hasattr(vars(result_mod)[n.value.id], n.attr):
                continue
            attrs.append(n.attr)
        elif isinstance(n, ast.arg):
            params.append(n.arg)
    everyone = set(dir(type("X", (), {})))

    def protocol(name):
        if not (name.startswith("__") and name.endswith("__")):
            return False
        return name in everyone or name in ALL_DUNDERS or callable(getattr(SR, name, None))
    tier1 = []
    assignable = getattr(SR, "ASSIGNABLE_ATTRS", ())
    for n in list(assignable if isinstance(assignable, (list, tuple, set, frozenset)) else ()) + consts + attrs:
        if isinstance(n, str) and n.isidentifier() and (not protocol(n) or n == "__class__") and n not in tier1 \
                and n not in vars(math):
            tier1.append(n)
    tier1 = sorted(set(tier1))
    tier2 = []
    classnames = [k for klass in SR.__mro__[:-1] for k in klass.__dict__]
    modnames = [k for k, v in vars(result_mod).items() if inspect.isfunction(v) or inspect.isclass(v)]
    for n in params + classnames + modnames + SUPPLEMENT:
        if n not in ("self", "cls") and n.isidentifier() and not protocol(n) and n not in tier1 and n not in tier2:
            tier2.append(n)
    variants = []
    for c in _cores([n for n in tier1 if n != "__class__"]):
        for v in (c, "_" + c, "__%s__" % c, "_%s_" % c, c + "_", "__" + c):
            if v not in tier1 and v not in variants and v not in tier2 and not protocol(v):
                variants.append(v)
    # a keyword (`or` from `or_`, `class` from `class_`) cannot be written as an attribute name, and namedtuple /
    # dataclass / Enum refuse it as a field: not an attribute a student class can carry
    import keyword
    tier1 = [n for n in tier1 if not keyword.iskeyword(n)]
    tier2 = [n for n in tier2 if not keyword.iskeyword(n)]
    variants = [n for n in variants if not keyword.iskeyword(n)]
    names = [n for n in tier1 if n != "__class__"]
    _VOCAB = {"tier1": names, "tier2": sorted(tier2), "variants": variants,
              "private": [n for n in names + tier2 + variants if n.startswith("_")],
              "class_override": "__class__" in tier1}
    return _VOCAB


def colliding_names(plain_operand=False):
    """Attribute names an instrumented operand carries.  A PLAIN (unproxied) other operand carries the public ones only:
    an object that answers the proxy's reserved underscore names is indistinguishable from a proxy by design."""
    v = proxy_vocabulary()
    names = v["tier1"] + v["tier2"] + v["variants"]
    if plain_operand:
        names = [n for n in names if not n.startswith("_")]
    return tuple(names)


def make_class(name, log, mode, base=None, missing=(), collide=()):
    """A class all of whose family dunders record themselves in `log`."""
    def answer(d):
        if mode == "raise":
            raise ProbeError(d)

    def binary(d):
        def m(self, other, *rest):
            log.entries.append((d, self.tag, tuple(tag(x) for x in (other,) + rest)))
            answer(d)
            if mode == "decline":
                return NotImplemented
            return Tok(log)
        return m

    def free(d):
        def m(self, *rest):
            log.entries.append((d, self.tag, tuple(tag(x) for x in rest)))
            answer(d)
            return Tok(log)
        return m

    def typed(d, good):
        def m(self, *rest):
            log.entries.append((d, self.tag, tuple(tag(x) for x in rest)))
            answer(d)
            if mode == "decline":
                return Tok(log)          # the wrong type
            return good()
        return m

    decoy_cls = []

    def init(self, t):
        self.tag = t
        if collide:
            # attributes named like the proxy's own vocabulary, each an instrumented DECOY: a method that reads
            # `self.value` & co. from the student's object instead of the proxy ends up applying the operation to
            # the decoy (logged with receiver "<tag>.<name>"), which no forwarding plan does
            if not decoy_cls:
                decoy_cls.append(make_class(name + "Decoy", log, mode))
            for n in collide:
                object.__setattr__(self, n, decoy_cls[0]("%s.%s" % (t, n)))

    def called(self, *a, **k):
        log.entries.append(("__call__", self.tag, tuple(tag(x) for x in a)))
        answer("__call__")
        return Tok(log)
    ns = {"__init__": init, "_probe_tagged": True, "__call__": called}
    for d in BINARY_DUNDERS:
        ns[d] = binary(d)
    for d in FREE_UNARY:
        ns[d] = free(d)
    for d, good in TYPED.items():
        ns[d] = typed(d, good)
    ns["__getitem__"] = free("__getitem__")
    for d in missing:
        del ns[d]
    return type(name, (base or object,), ns)


Scenario = namedtuple("Scenario", "mode other extras")     # other: None | "plain" | "proxy"; extras: tuple of kinds


def real_function(name):
    """The function CPython finds for `name` on SandboxResult itself (its own class body or a base class of the
    module; `object`'s defaults do not count), as an unbound callable; None if there is none."""
    for klass in SR.__mro__:
        if klass is object:
            break
        if name in klass.__dict__:
            fn = getattr(SR, name, None)
            return fn if callable(fn) else None
    return None


def defined_dunders():
    return [n for n in ALL_DUNDERS if real_function(n) is not None]


def method_shape(name):
    """(has an `other` operand, extras variants) from the real signature of the method under test."""
    fn = real_function(name)
    if fn is None:
        return None
    binarylike = name in BINARY_DUNDERS or name in ("__getitem__", "__contains__")
    try:
        sig = inspect.signature(fn)
    except (TypeError, ValueError):
        return None
    params = list(sig.parameters.values())[1 + (1 if binarylike else 0):]
    required = [p for p in params if p.kind in (p.POSITIONAL_ONLY, p.POSITIONAL_OR_KEYWORD) and p.default is p.empty]
    optional = [p for p in params if p.kind == p.VAR_POSITIONAL
                or (p.kind in (p.POSITIONAL_ONLY, p.POSITIONAL_OR_KEYWORD) and p.default is not p.empty)]
    if len(required) > 1:
        return None
    kind = "spec" if name == "__format__" else ("operand" if name in ("__pow__", "__rpow__") else "int")
    variants = []
    if required:
        variants.append((kind,))
    else:
        variants.append(())
        if optional:
            variants.append((kind,))
            if kind == "operand":
                variants.append(("operand-proxied",))
    return binarylike, variants


_SCEN_CACHE = {}


def scenarios(name):
    if name in _SCEN_CACHE:
        return _SCEN_CACHE[name]
    shape = method_shape(name)
    if shape is None:
        return []
    binarylike, variants = shape
    out = []
    for extras in variants:
        others = ("plain", "proxy") if binarylike else (None,)
        for other in others:
            modes = ["accept", "decline", "raise"] + (["subclass"] if binarylike else [])
            # the receiver's class lacking a dunder: the method's own name, and whatever the real method was seen
            # to call first (a builtin / operator then walks on, a dunder called by hand raises AttributeError)
            lacking = [name]
            seen = observe(real_function(name), name, Scenario("accept", other, extras))[0]
            for d, recv, _ in seen:
                if recv == "S" and d not in lacking:
                    lacking.append(d)
            modes += ["missing:" + d for d in lacking if d not in object.__dict__ and d in ALL_DUNDERS]
            for mode in modes:
                out.append(Scenario(mode, other, extras))
    _SCEN_CACHE[name] = out
    return out


def observe(call, name, sc):
    """Run `call(self_proxy, *args)` in one scenario; -> (log, outcome, printed)."""
    log = Log()
    mode = sc.mode if sc.mode in ("accept", "decline", "raise") else "accept"
    missing = (sc.mode.split(":", 1)[1],) if sc.mode.startswith("missing:") else ()
    # every operand carries attributes named like the proxy's own vocabulary (see make_class / colliding_names)
    cls_s = make_class("RecS", log, mode, missing=missing, collide=colliding_names())
    cls_o = make_class("RecO", log, mode, base=cls_s if sc.mode == "subclass" else None,
                       collide=colliding_names(plain_operand=(sc.other != "proxy")))
    cls_k = make_class("RecK", log, mode, collide=colliding_names(plain_operand=("operand" in sc.extras)))
    args = []
    if sc.other is not None:
        o = cls_o("O")
        args.append(SR(o) if sc.other == "proxy" else o)
    for k in sc.extras:
        if k == "spec":
            args.append(">5")
        elif k == "int":
            args.append(2)
        elif k == "operand":
            args.append(cls_k("M"))
        else:
            args.append(SR(cls_k("M")))
    sp = SR(cls_s("S"))
    buf = io.StringIO()
    try:
        with contextlib.redirect_stdout(buf):
            r = call(sp, *args)
            outcome = ("ret", tag(r))
    except RecursionError:
        outcome = ("raise", "RecursionError")
    except Exception as e:       # noqa
        outcome = ("raise", type(e).__name__)
    return (tuple(log.entries), outcome, bool(buf.getvalue()))


def eval_expr(e, s, o, extras, flags):
    kind = e[0]
    pick = {"self": s, "other": o}
    if kind == "infix":
        a, b = pick[e[2]], pick[e[3]]
        if e[1] == "pow" and extras and flags.get("pow_mod"):
            m = extras[0]
            return pow(a, b, raw_value(m) if type(m) is SR else m)
        return OPFUN[e[1]](a, b)
    if kind == "method":
        return getattr(pick[e[2]], py_name(e[1]))(pick[e[3]])
    if kind == "method1":
        return getattr(s, py_name(e[1]))(*extras)
    if kind == "builtin":
        return CONVFUN[e[1]](s, *extras)
    if kind == "subscript":
        return s[o]
    if kind == "isIn":
        return o in s
    if kind == "missingName":
        raise AttributeError("missing name")
    raise AssertionError(e)


def reference(plan, name, flags):
    """The Lean `runPlan` / `runPlan1` of `plan`, in Python."""
    binarylike = name in BINARY_DUNDERS or name in ("__getitem__", "__contains__")

    def call(sp, *args):
        s = raw_value(sp)
        other = args[0] if binarylike else None
        extras = args[1:] if binarylike else args
        o = raw_value(other) if (plan.unwrap_other and type(other) is SR) else other
        r = eval_expr(plan.first, s, o, extras, flags)
        if plan.prints:
            print("x")
        if plan.fallback is not None and r is NotImplemented:
            r = eval_expr(plan.fallback, s, o, extras, flags)
        return SR(r) if plan.wrap else r
    return call


def observations(call, name):
    return [(sc, observe(call, name, sc)) for sc in scenarios(name)]


_REAL_CACHE = {}


def real_observations(name):
    if name not in _REAL_CACHE:
        fn = real_function(name)
        _REAL_CACHE[name] = observations(fn, name) if fn is not None else []
    return _REAL_CACHE[name]


def matches(name, plan, flags=None):
    """-> (True, None) or (False, description of the first differing scenario)."""
    flags = flags or {}
    try:
        real = real_observations(name)
    except Exception as e:       # noqa
        return False, "the real method could not be exercised: %s: %s" % (type(e).__name__, e)
    if not real:
        return False, "signature not understood"
    ref = reference(plan, name, flags)
    for sc, obs in real:
        want = observe(ref, name, sc)
        if want != obs:
            return False, "%s: real %s, plan %s" % (tuple(sc), short(obs), short(want))
    return True, None


def short(obs):
    log, outcome, printed = obs
    return "%s -> %s%s" % ([(d, r) + a for d, r, a in log], outcome, " +stdout" if printed else "")


def dunder_lean(d):
    """'__radd__' -> 'radd', '__and__' -> 'and_'"""
    core = d[2:-2]
    return core + "_" if core in ("and", "or") else core


def _role(t):
    return {"S": "self", "O": "other", "P(O)": "other"}.get(t)


def candidates(name, real):
    """The plan space for one dunder, narrowed by what the real method was seen to do first."""
    out = []
    by_sc = {tuple(sc): obs for sc, obs in real}
    if name in BINARY_DUNDERS:
        extras0 = real[0][0].extras
        log = by_sc[("accept", "plain", extras0)][0]
        if not log:
            return []
        d, recv, args = log[0]
        a, b = _role(recv), _role(args[0]) if args else None
        if a is None or b is None or a == b or d not in BINARY_DUNDERS:
            return []
        firsts = [("method", dunder_lean(d), a, b)]
        firsts += [("infix", op, a, b) for op in ARITH + CMPS if py_name(op) == d]
        dlog = by_sc[("decline", "plain", extras0)][0]
        fallbacks = [None]
        if len(dlog) > 1 and dlog[1][0] in BINARY_DUNDERS and dlog[1][2]:
            d2, recv2, args2 = dlog[1]
            a2, b2 = _role(recv2), _role(args2[0])
            if a2 and b2 and a2 != b2:
                fallbacks.append(("method", dunder_lean(d2), a2, b2))
                fallbacks += [("infix", op, a2, b2) for op in ARITH + CMPS if py_name(op) == d2]
        for f in firsts:
            for fb in (fallbacks if f[0] == "method" else [None]):      # an operator never yields NotImplemented
                for w in (True, False):
                    for u in (True, False):
                        for p in (False, True):
                            out.append(Plan(f, fb, p, w, u))
    elif name == "__getitem__":
        for f in [("subscript",), ("method", "getitem", "self", "other")]:
            for w in (True, False):
                for u in (True, False):
                    out.append(Plan(f, None, False, w, u))
    elif name == "__contains__":
        for f in [("isIn",), ("method", "contains", "self", "other")]:
            for w in (True, False):
                for u in (True, False):
                    out.append(Plan(f, None, False, w, u))
    else:
        firsts = [("builtin", c) for c in CONVFUN] + [("method1", dunder_lean(d)) for d in FREE_UNARY + list(TYPED)]
        for f in firsts:
            for w in (True, False):
                for p in (False, True):
                    out.append(Plan(f, None, p, w, False))
    return out


def classify(name):
    """Plans (with flags) the real method is observationally identical to.  [] = none (not a forwarding plan)."""
    try:
        real = real_observations(name)
    except Exception:       # noqa
        return []
    if not real:
        return []
    flag_sets = [{"pow_mod": True}, {"pow_mod": False}] if name == "__pow__" else [{}]
    found = []
    first_sc, first_obs = real[0]
    for plan in candidates(name, real):
        for flags in flag_sets:
            ref = reference(plan, name, flags)
            if observe(ref, name, first_sc) != first_obs:      # cheap filter on the first scenario
                continue
            if all(observe(ref, name, sc) == obs for sc, obs in real[1:]):
                if not any(plan == p and flags == f for p, f in found):
                    found.append((plan, flags))
    return found


# ----------------------------------------------------------------------------------------------------------
# what attribute access on a proxy means (the reading in translate_proxy.py relies on these and only on these)

def measure_semantics():
    """Which attribute names of a SandboxResult answer what, measured on fresh objects."""
    class Plain:
        pass

    class WithValue:
        value = 5
    sem = {"inner": set(), "raw_inner": False, "actual_class": set(), "spoof": None, "meta": set(), "methods": set(),
           "ctor": False}
    class Colliding:
        """a student object with an attribute for every name the proxy itself uses"""
        def __init__(self):
            for n in colliding_names():
                object.__setattr__(self, n, Plain())

    class AnswersAll:
        def __getattr__(self, name):
            return 0
    sandbox = Plain()
    subjects = [Plain(), WithValue(), 3, "s", [1], Colliding(), AnswersAll()]
    try:
        proxies = [SR(x, 17, sandbox) for x in subjects]
        sem["ctor"] = all(type(p) is SR for p in proxies) and type(SR(subjects[0])) is SR
    except Exception:       # noqa
        return sem

    def holds(f):
        try:
            return all(f(p, x) for p, x in zip(proxies, subjects))
        except Exception:       # noqa
            return False
    sem["raw_inner"] = holds(lambda p, x: object.__getattribute__(p, "value") is x)
    for attr in ("value", "_actual_value"):
        if holds(lambda p, x: getattr(p, attr) is x):
            sem["inner"].add(attr)
    if holds(lambda p, x: p.__actual_class__ is SR):
        sem["actual_class"].add("__actual_class__")
    if holds(lambda p, x: p.__class__ is type(x) and isinstance(p, type(x))):
        sem["spoof"] = True
    elif holds(lambda p, x: p.__class__ is SR):
        sem["spoof"] = False
    if holds(lambda p, x: p._actual_context_id == 17):
        sem["meta"].add("_actual_context_id")
    if holds(lambda p, x: p._actual_sandbox is sandbox):
        sem["meta"].add("_actual_sandbox")
    for klass in SR.__mro__[:-1]:
        for mname, fn in klass.__dict__.items():
            if inspect.isfunction(fn) and getattr(SR, mname, None) is fn:
                if holds(lambda p, x: getattr(p, mname).__func__ is fn and getattr(p, mname).__self__ is p):
                    sem["methods"].add(mname)
    # plain student values must not look like proxies to the helpers
    sem["plain_lacks"] = {a for a in ("__actual_class__", "_actual_value")
                          if not any(hasattr(x, a) for x in subjects[:5])}     # ordinary plain values
    return sem


def measure_len_fn():
    """Does the module-level replacement `len` hand an ordinary value to the builtin (one __len__ call, a plain int)?"""
    fn = getattr(result_mod, "len", None)
    if fn is None or fn is len:
        return True
    try:
        for mode in ("accept",):
            log = Log()
            cls = make_class("RecL", log, mode, collide=colliding_names(plain_operand=True))
            r = fn(cls("S"))
            if not (type(r) is int and r == 7 and [e[0] for e in log.entries] == ["__len__"]):
                return False
        return fn([1, 2]) == 2 and type(fn("abc")) is int and fn(()) == 0
    except RecursionError:
        return False
    except Exception:       # noqa
        return False

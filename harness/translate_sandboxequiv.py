"""
C06 translator: regenerate lean/PedalModel/Gen/SandboxEquivGen.lean from the tree under test.

Constants are read from the imported module (MAXIMUM_TEMPORARY_LENGTH, MAXIMUM_INPUTS, the names a fresh Sandbox
overrides).  "Which branch does what" is measured by probing each mechanism function on its own with crafted
micro-inputs (`_track_inputs(...)`'s tracker, `_make_temporary`, `_purge_temporaries`, `_construct_call`, the
namespace after an empty execution) — robust against harmless refactoring, sensitive to a change of behaviour.
A probe whose outcome is none of the shapes the Lean model can express sets `understood := false`, which makes
the `gen_*_cfg` theorems (closed by `decide`) fail; nothing is defaulted silently.
"""
import contextlib
import hashlib
import io
import json
import os

from common import LEAN_DIR, lean_str, use_repo, write_if_changed

use_repo()

GEN = os.path.join(LEAN_DIR, "PedalModel", "Gen", "SandboxEquivGen.lean")


def lean_bool(b):
    return "true" if b else "false"


def fresh_sandbox():
    from pedal.core.commands import contextualize_report
    from pedal.core.report import MAIN_REPORT
    from pedal.core.submission import Submission
    contextualize_report(Submission(files={"answer.py": ""}, main_file="answer.py"))
    return MAIN_REPORT["sandbox"]["sandbox"]


def probe_input():
    from pedal.sandbox.data import SandboxContext, SandboxContextKind
    notes = {}
    ok = True

    def tracker_for(sb, queue):
        sb.inputs = list(queue)
        ctx = SandboxContext(0, "", "answer.py", SandboxContextKind.RUN, None, [], "", None, sb.report.submission)
        sb._context.append(ctx)
        return sb._track_inputs(ctx.inputs), ctx

    def ask(tr, *a):
        buf = io.StringIO()
        with contextlib.redirect_stdout(buf):
            try:
                r = ("value", tr(*a))
            except BaseException as e:      # noqa
                r = ("raise", type(e).__name__)
        return r, buf.getvalue()

    sb = fresh_sandbox()
    tr, ctx = tracker_for(sb, ["first", "second", "third"])
    r, out = ask(tr, "P? ")
    notes["nonempty"] = [r, out, list(sb.inputs), list(ctx.inputs)]
    pop_front = r == ("value", "first") and list(sb.inputs) == ["second", "third"]
    if not pop_front and not (r == ("value", "third") and list(sb.inputs) == ["first", "second"]):
        ok = False
    if out == "P? \n":
        echo_newline = True
    elif out == "P? ":
        echo_newline = False
    else:
        echo_newline, ok = True, False
    records = list(ctx.inputs) == [r[1]] if r[0] == "value" else False
    if not records and list(ctx.inputs):
        ok = False
    r0, out0 = ask(tr)                           # no prompt at all
    notes["noprompt"] = [r0, out0]
    if out0 != ("\n" if echo_newline else ""):
        ok = False
    sb = fresh_sandbox()
    tr, ctx = tracker_for(sb, [])
    r2, out2 = ask(tr, "Q")
    notes["empty"] = [r2, out2, list(ctx.inputs)]
    default = r2[1] if r2[0] == "value" and isinstance(r2[1], str) else None
    if default is None or out2 != ("Q\n" if echo_newline else "Q"):
        ok = False
        default = default or ""
    # the limit: with MAXIMUM_INPUTS = 2 on the instance, the second input() of an execution raises
    limit = getattr(type(sb), "MAXIMUM_INPUTS", None)
    if limit is not None and (not isinstance(limit, int) or isinstance(limit, bool) or limit < 1):
        ok = False
        limit = None
    sb = fresh_sandbox()
    sb.MAXIMUM_INPUTS = 2
    tr, ctx = tracker_for(sb, ["a", "b", "c"])
    seq = [ask(tr, "")[0] for _ in range(3)]
    notes["limit"] = seq
    if limit is None:
        if any(s[0] == "raise" for s in seq):
            ok = False
    else:
        if not (seq[0] == ("value", "a") and seq[1][0] == "raise" and list(ctx.inputs)[:2] == ["a", "b"]):
            ok = False
    return {"echoNewline": echo_newline, "popFront": pop_front, "defaultReply": default, "records": records,
            "maxInputs": limit, "understood": ok}, notes


def probe_call():
    from pedal.sandbox.data import SandboxVariable
    notes = {}
    ok = True
    sb = fresh_sandbox()
    max_len = getattr(type(sb), "MAXIMUM_TEMPORARY_LENGTH", None)
    if not isinstance(max_len, int) or isinstance(max_len, bool):
        return {"tempPrefix": "_temporary_", "maxLen": 0, "checksLiteral": False, "backsUp": False, "purgeRestores": False, "purgeDeletes": False,
                "purgeClears": False, "assignsTarget": False, "purgesAfterCall": False, "understood": False}, notes
    # boundary of the length test (a str of n characters has a repr of n + 2)
    at, over = "a" * (max_len - 2), "a" * (max_len - 1)
    r_at = sb._make_temporary("arg", "0", at)
    r_over = sb._make_temporary("arg", "1", over)
    notes["boundary"] = [r_at == repr(at), r_over]
    prefix = r_over[:-len("arg_1")] if isinstance(r_over, str) and r_over.endswith("arg_1") else None
    if prefix is None or not prefix.isidentifier() or r_at != repr(at) or sb.data.get(r_over) is not over:
        ok = False
        prefix = prefix if prefix and prefix.isidentifier() else "_temporary_"
    T = prefix
    sb._purge_temporaries()
    # a short value whose repr is not a faithful literal
    sb = fresh_sandbox()
    inf = float("inf")
    r_inf = sb._make_temporary("arg", "0", inf)
    marker = object()
    r_obj = sb._make_temporary("kwarg", "key", marker)
    notes["nonliteral"] = [r_inf, r_obj]
    if r_inf == T + "arg_0" and sb.data.get(T + "arg_0") is inf:
        checks_literal = True
        if not (r_obj == T + "kwarg_key" and sb.data.get(T + "kwarg_key") is marker):
            ok = False
    elif r_inf == repr(inf):
        checks_literal = False
        if r_obj != repr(marker):
            ok = False
    else:
        checks_literal, ok = False, False
    sb._purge_temporaries()
    # faithful literals of every builtin shape stay literals
    for v in (3, -0.0, "x", [1, (2, None)], {"k": {1, 2}}, True, b"ab", 1 + 2j, set()):
        sb = fresh_sandbox()
        if sb._make_temporary("arg", "0", v) != repr(v):
            ok = False
            notes["literal-not-used"] = repr(v)
    # a SandboxVariable is passed by name
    sb = fresh_sandbox()
    if sb._make_temporary("arg", "0", SandboxVariable("some_name", 5)) != "some_name":
        ok = False
    # shadowing, purge
    sb = fresh_sandbox()
    old = object()
    sb.data[T + "arg_0"] = old
    big = "b" * (max_len + 5)
    sb._make_temporary("arg", "0", big)
    sb._make_temporary("arg", "1", big)
    during = (sb.data.get(T + "arg_0") is big, sb.data.get(T + "arg_1") is big)
    sb._purge_temporaries()
    restored = sb.data.get(T + "arg_0") is old
    deleted = T + "arg_1" not in sb.data
    pending = getattr(sb, "_temporary_variables", None)        # bookkeeping, only looked at when it is there
    cleared = True if pending is None else len(pending) == 0
    notes["purge"] = [during, restored, deleted, cleared]
    if during != (True, True):
        ok = False
    if not restored and T + "arg_0" in sb.data and sb.data[T + "arg_0"] is not big:
        ok = False
    # the generated source
    sb = fresh_sandbox()
    actual, student, arguments = sb._construct_call("f", (1, "s"), {"k": 2.5}, [], [], "t")
    notes["source"] = [actual, arguments]
    assigns = actual == "t = f(1, 's', k=2.5)"
    if not assigns and actual != "f(1, 's', k=2.5)":
        ok = False
    actual2, _, _ = sb._construct_call("f", (), {}, [], [], None)
    if actual2 != "f()":
        ok = False
    # call() purges
    sb = fresh_sandbox()
    sb.run("def f(*a, **k):\n    return 0\n", filename="answer.py")
    sb.call("f", big, key=big)
    purges = not any(str(k).startswith(T) for k in sb.data)
    notes["call-purges"] = purges
    return {"tempPrefix": prefix, "maxLen": max_len, "checksLiteral": checks_literal, "backsUp": restored, "purgeRestores": restored,
            "purgeDeletes": deleted, "purgeClears": cleared, "assignsTarget": assigns, "purgesAfterCall": purges,
            "understood": ok}, notes


def probe_mock():
    import sandboxequiv_common as sc
    notes = {}
    ok = True
    sb = fresh_sandbox()
    declared = sorted(k for k in sb._module_overrides.get("__builtins__", {}))
    sb.run("", filename="answer.py")
    injected = sorted(k for k, v in sb.data.items() if isinstance(k, str) and sc.is_injected(v))
    others = sorted(k for k in sb.data if k not in injected)
    notes["after-empty-run"] = {"injected": injected, "others": others, "declared": declared}
    writes = len(injected) > 0
    names = injected if writes else sorted(set(declared) | {"input"})
    if writes and not set(declared) <= set(injected):
        # an allowed builtin (True) is written as the original function, not a pedal object
        extra = [n for n in declared if n not in injected and n in sb.data]
        names = sorted(set(injected) | set(extra))
    sets_name = sb.data.get("__name__") == "__main__"
    resets = isinstance(sb.data.get("__builtins__"), dict)
    if set(others) - {"__builtins__", "__name__"} - set(names):
        ok = False
    return {"overrideNames": names, "writesNamespace": writes, "setsMainName": sets_name, "resetsBuiltins": resets,
            "understood": ok}, notes


def render(inp, call, mock):
    mx = "none" if inp["maxInputs"] is None else "some %d" % inp["maxInputs"]
    lines = [
        "import PedalModel.SandboxEquiv",
        "/- GENERATED by harness/translate_sandboxequiv.py from pedal/sandbox/sandbox.py of the tree under test. Do not edit. -/",
        "namespace Pedal.Gen.SandboxEquiv",
        "open Pedal.SandboxEquiv",
        "",
        "def inputCfg : InputCfg :=",
        "  { echoNewline := %s, popFront := %s, defaultReply := %s, records := %s, maxInputs := %s, understood := %s }" % (
            lean_bool(inp["echoNewline"]), lean_bool(inp["popFront"]), lean_str(inp["defaultReply"]),
            lean_bool(inp["records"]), mx, lean_bool(inp["understood"])),
        "",
        "def callCfg : CallCfg :=",
        "  { maxLen := %d, checksLiteral := %s, backsUp := %s, purgeRestores := %s, purgeDeletes := %s," % (
            call["maxLen"], lean_bool(call["checksLiteral"]), lean_bool(call["backsUp"]),
            lean_bool(call["purgeRestores"]), lean_bool(call["purgeDeletes"])),
        "    purgeClears := %s, assignsTarget := %s, purgesAfterCall := %s, tempPrefix := %s, understood := %s }" % (
            lean_bool(call["purgeClears"]), lean_bool(call["assignsTarget"]), lean_bool(call["purgesAfterCall"]),
            lean_str(call["tempPrefix"]), lean_bool(call["understood"])),
        "",
        "def mockCfg : MockCfg :=",
        "  { overrideNames := [%s]," % ", ".join(lean_str(n) for n in mock["overrideNames"]),
        "    writesNamespace := %s, setsMainName := %s, resetsBuiltins := %s, understood := %s }" % (
            lean_bool(mock["writesNamespace"]), lean_bool(mock["setsMainName"]), lean_bool(mock["resetsBuiltins"]),
            lean_bool(mock["understood"])),
        "",
        "end Pedal.Gen.SandboxEquiv",
        "",
    ]
    return "\n".join(lines)


LAST = {}


def translate():
    inp, n1 = probe_input()
    call, n2 = probe_call()
    mock, n3 = probe_mock()
    text = render(inp, call, mock)
    LAST.update(input=inp, call=call, mock=mock)
    changed = write_if_changed(GEN, text)
    return {"generated": os.path.relpath(GEN, LEAN_DIR), "changed": changed,
            "sha1": hashlib.sha1(text.encode()).hexdigest()[:12],
            "input": inp, "call": call, "mock": mock,
            "probe_notes": json.loads(json.dumps({"input": n1, "call": n2, "mock": n3}, default=str))}


if __name__ == "__main__":
    print(json.dumps(translate(), indent=1, default=str))

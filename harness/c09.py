"""C09 — TIFA's initialisation / unused-variable diagnoses match the execution paths."""
import json
import os
import sys

from common import VERIF, CorrResult, Failure, run_check, use_repo
import tifaflow_common as tc
import tifafunc_stream as fs

use_repo()

THEOREMS = [
    "Pedal.TifaFlow.c09_merge_set_is_union",
    "Pedal.TifaFlow.c09_load_exact",
    "Pedal.TifaFlow.c09_store_exact",
    "Pedal.TifaFlow.c09_init_exact",
    "Pedal.TifaFlow.c09_unused_exact",
    "Pedal.TifaFlow.c09_unused_reported_when_never_read",
    "Pedal.TifaFlow.c09_unused_not_reported_when_always_read",
    "Pedal.TifaFlow.c09_unused_full_of_no_excluded",
    "Pedal.TifaFlow.c09_unused_phantom_counterexample",
    "Pedal.TifaFlow.c09_paths_are_executions",
    "Pedal.TifaFlow.c09_loops_sound_partial",
    "Pedal.TifaFlow.c09_loops_sound_full_of_no_for",
    "Pedal.TifaFlow.c09_for_zero_iterations_counterexample",
]
REFUTED = [
    {"statement": "Pedal.TifaFlow.C09_UnusedExact_Full", "refuted_by": "c09_unused_phantom_counterexample",
     "finding": {"kind": "unused-missed", "cause": "earlier-unset-read"}},
    {"statement": "Pedal.TifaFlow.C09_LoopsSound_Full", "refuted_by": "c09_for_zero_iterations_counterexample",
     "finding": {"kind": "unset-read-missed", "cause": "for-zero-iterations"}},
]
NOTES = [
    "flow subset: one (module) scope; statements x = e, x += e, e / print(e) / pass, if/elif/else, while, for; "
    "expressions reduced to the ordered list of variables they read; no loop-else, break/continue, def, del, try",
    "State is reduced to (set, read); over/type/trace never feed back into set/read",
    "the exactness theorems are about the if-subset; for while only 'no missed uninitialised read' is proved; "
    "for `for` it is refuted (open finding)",
    "executions in the soundness theorem continue after an uninitialised read (a superset of CPython's, which stop)",
    "the unused-variable theorem excludes variables read somewhere while assigned on no path (open finding)",
]

WITNESS_FOR = [["as", 6, [], False], ["for", 5, [6], [["as", 0, [], False]]], ["ex", [0]]]
WITNESS_PHANTOM = [["as", 3, [], False], ["ex", [0]], ["if", [3], [["as", 0, [], False]], []]]


def corpus_cases():
    d = os.path.join(VERIF, "corpus", "C09")
    out = [WITNESS_FOR, WITNESS_PHANTOM]
    if os.path.isdir(d):
        for name in sorted(os.listdir(d)):
            if name.endswith(".json"):
                with open(os.path.join(d, name)) as fh:
                    out.append(json.load(fh)["block"])
    return out


def nontrivial(b):
    """A compound statement with an assignment inside it, and a read somewhere after it."""
    def assigns(bb):
        return any(s[0] in ("as", "for") or (s[0] == "if" and (assigns(s[2]) or assigns(s[3]))) or
                   (s[0] == "wh" and assigns(s[2])) for s in bb)
    for i, s in enumerate(b):
        if s[0] in ("if", "wh", "for"):
            inner = (s[2] + s[3]) if s[0] == "if" else s[-1]
            if assigns(inner) and i + 1 < len(b):
                return True
    return False


def case_stream(rng, tier):
    """(block, style_rng_or_None) for the correspondence; the search re-uses them."""
    for b in corpus_cases():
        yield b, None
    n = 5000 if tier == "quick" else 40000
    mixes = [("if",), ("if",), ("if", "wh"), ("if", "wh", "for"), ("wh",), ("for", "if")]
    for i in range(n):
        kinds = mixes[i % len(mixes)]
        if rng.random() < 0.4:
            yield tc.gen_pattern(rng, kinds), rng
        else:
            yield tc.gen_case(rng, kinds=kinds, max_size=9 if rng.random() < 0.9 else 16), rng
    if tier == "quick":
        for b in tc.enum_programs(4, 2, ["if"]):
            yield b, None
        for b in tc.enum_programs(3, 1, ["wh", "for"]):
            yield b, None
    else:
        for b in tc.enum_programs(5, 2, ["if"]):
            yield b, None
        for b in tc.enum_programs(4, 2, ["if"], cond_is_var=True):
            yield b, None
        for b in tc.enum_programs(4, 2, ["if", "wh", "for"]):
            yield b, None


class OracleSink:
    """Runs the property oracle on cases as they stream by; keeps the first case per signature."""

    def __init__(self):
        self.evaluations = 0
        self.nontrivial = set()
        self.first = {}

    def consider(self, b, code, nb, real):
        self.evaluations += 1
        if nontrivial(b):
            self.nontrivial.add(hash(code))
        for sig, what in tc.oracle(nb, real):
            key = json.dumps(sig, sort_keys=True)
            if key not in self.first:
                self.first[key] = (sig, what, b)


def correspond(rng, tier, driver):
    res = CorrResult()
    res.rule = ("cases = corpus (incl. the two open-finding witnesses) + seeded random flow programs (<=16 statements, "
                "<=5 variables, nesting <=4, if/elif/else, while, for; expression and else-if spelling randomised) + "
                "'assigned inside a compound statement, read afterwards' patterns + EVERY program up to a bound "
                "(quick: if-subset <=4 statements, with loops <=3; thorough: if-subset <=5 statements / 2 variables / depth 2, with loops <=4); "
                "real = tifa_analysis on the rendered source, sorted (label, name, line) of the three initialisation "
                "labels and (label, name) of unused_variable; model = Pedal.TifaFlow.analyse through the driver; "
                "for if-only programs the Lean path semantics specRun is also compared with the Python path oracle; "
                "non-trivial = a compound statement containing an assignment, followed by more statements")
    sink = OracleSink()
    res.sink = sink
    samples = []

    def flush(cases):
        lines, spec_lines, spec_idx = [], [], []
        for i, (b, code, nb, real) in enumerate(cases):
            w = tc.wire(nb)
            lines.append("tifaflow " + w)
            if not (tc.has_kind(nb, "wh") or tc.has_kind(nb, "for")) and tc.count_paths(nb) <= tc.PATH_CAP:
                spec_idx.append(i)
                spec_lines.append("tifaspec " + w)
        answers = driver.ask(lines)
        spec_answers = driver.ask(spec_lines)
        for (b, code, nb, real), ans, req in zip(cases, answers, lines):
            model = tc.parse_model(ans)
            res.evaluations += 1
            kinds = "+".join(k for k in ("if", "wh", "for") if tc.has_kind(nb, k)) or "straight"
            res.count("kinds:" + kinds)
            res.count("size:%02d" % min(tc.size(b), 12))
            for lab, _, _ in real.get("issues", []):
                res.count("label:" + lab)
            if "error" in real:
                res.count("real-analysis-failed")
            if nontrivial(b):
                res.nontrivial.add(hash(code))
            if real != model and len(res.disagreements) < 50:
                res.disagreements.append({"case": {"block": b, "code": code}, "real": real, "model": model,
                                          "request": req})
            sink.consider(b, code, nb, real)
        for i, ans in zip(spec_idx, spec_answers):
            b, code, nb, real = cases[i]
            lean_spec = tc.parse_spec(ans)
            py_spec = tc.read_classes_ordered(nb)
            res.count("spec-crosscheck")
            if lean_spec != py_spec and len(res.disagreements) < 50:
                res.disagreements.append({"case": {"block": b, "code": code}, "real": {"python_path_oracle": py_spec},
                                          "model": {"lean_specRun": lean_spec}, "request": "tifaspec " + tc.wire(nb)})

    batch = []
    for b, srng in case_stream(rng, tier):
        style = tc.Style(srng)
        code, nb = tc.render_safe(b, style)
        variant = srng.choice([0, 0, 0, 1, 2, 3]) if srng is not None else 0
        res.count("call-variant:%d" % variant)
        res.count("eol:%r names:%s" % (style.eol, "ascii" if style.names is tc.NAMES else ("builtin-like" if style.names is tc.BUILTIN_LIKE_NAMES else "non-ascii")))
        batch.append((b, code, nb, tc.run_real(code, style.names, variant)))
        if len(samples) < 5:
            samples.append(code)
        if len(batch) >= 4000:
            flush(batch)
            batch = []
    flush(batch)
    res.samples = samples[2:5]
    res.count("oracle-skipped(too many paths)", tc.ORACLE_SKIPPED[0])
    return res


def tc_canon(sig):
    import json
    return json.dumps(sig, sort_keys=True)


def search(rng, tier, broken, corr):
    info = {"rule": "real tifa_analysis vs a path-enumeration oracle written from the property text: if-subset - every "
                    "read classified over all branch-outcome vectors (none / Initialization Problem or read-out-of-scope "
                    "/ Possible Initialization Problem exactly), unused reported when no path reads after the last "
                    "assignment and not reported when every path does; with loops - every read unassigned on some real "
                    "execution (0/1/2 iterations per loop, stopping at the first NameError) carries an issue; over the "
                    "correspondence cases (corpus, random, patterns, exhaustive small scope) plus fresh random ones; "
                    "programs with more than %d executions are skipped" % tc.PATH_CAP,
            "evaluations": 0, "distinct_nontrivial": 0, "samples": []}
    sink = getattr(corr, "sink", None) or OracleSink()
    extra = (300 if tier == "quick" else 5000) * (4 if broken else 1)
    for i in range(extra):
        kinds = [("if",), ("if", "wh"), ("wh", "for", "if")][i % 3]
        b = tc.gen_pattern(rng, kinds) if i % 2 else tc.gen_case(rng, kinds=kinds)
        style = tc.Style(rng)
        code, nb = tc.render_safe(b, style)
        sink.consider(b, code, nb, tc.run_real(code, style.names, rng.choice([0, 1, 2, 3])))
    failures = []
    for key, (sig, what, b) in sink.first.items():
        def still(bb):
            c2, nb2 = tc.render(bb)
            return any(s2 == sig for s2, _ in tc.oracle(nb2, tc.run_real(c2)))
        small = tc.shrink(b, still) if still(b) else b
        c2, nb2 = tc.render(small)
        r2 = tc.run_real(c2)
        w2 = [w for s2, w in tc.oracle(nb2, r2) if s2 == sig]
        failures.append(Failure(sig, (w2[0] if w2 else what) + " | program: " + c2.rstrip("\n").replace("\n", " / "),
                                {"block": small, "code": c2, "real": r2}))
    # programs WITH function definitions and calls (outside the Lean model): CPython's own executions are the oracle
    nfun = (1500 if tier == "quick" else 25000) * (3 if broken else 1)
    fun_first, fun_err_programs = {}, 0
    for i in range(nfun):
        code = fs.gen(rng)
        found, errs = fs.judge(code, i % 2)
        fun_err_programs += 1 if errs else 0
        for sig, what in found:
            fun_first.setdefault(tc_canon(sig), (sig, what, code))
    for key, (sig, what, code) in fun_first.items():
        def still_f(src, sig=sig):
            return any(s2 == sig for s2, _ in fs.judge(src)[0])
        small = fs.shrink(code, still_f)
        w2 = [w for s2, w in fs.judge(small)[0] if s2 == sig]
        failures.append(Failure(sig, (w2[0] if w2 else what) + " | program: " + small.rstrip("\n").replace("\n", " / "),
                                {"code": small, "stream": "functions"}))
    info["function_programs"] = {"evaluated": nfun, "with_a_real_NameError": fun_err_programs}
    info["evaluations"] = sink.evaluations + nfun
    info["rule"] += (" | functions stream: generated programs with def/global/call/if/while on input() are really executed "
                     "under every input() answer vector; every line where NameError/UnboundLocalError is raised must "
                     "carry an initialisation-type TIFA issue")
    info["distinct_nontrivial"] = len(sink.nontrivial)
    info["oracle_skipped_too_many_paths"] = tc.ORACLE_SKIPPED[0]
    info["samples"] = [f.replay["code"] for f in failures][:3]
    return failures, info


def replay(payload):
    rp = payload.get("replay") or {}
    b = rp.get("block")
    if b is None:
        print(json.dumps(payload, indent=1)[:4000])
        return 0
    code, nb = tc.render(b)
    real = tc.run_real(code)
    print(code)
    print("real  :", real)
    from common import Driver
    d = Driver("driver_c09")
    if d.available:
        print("model :", tc.parse_model(d.ask(["tifaflow " + tc.wire(nb)])[0]))
    print("oracle:", tc.oracle(nb, real))
    return 0


if __name__ == "__main__":
    sys.exit(run_check("C09", proof_modules=["PedalProofs.C09"], theorems=THEOREMS, driver_exe="driver_c09",
                       correspond=correspond, search=search, replay=replay, model_notes=NOTES,
                       refuted_full=REFUTED, leanchecker_modules=["PedalProofs.C09"]))

"""C09 — TIFA's initialisation / unused-variable diagnoses match the execution paths."""
import json
import os
import sys

from common import VERIF, CorrResult, Failure, run_check, use_repo
import tifaflow_common as tc
import tifafunc_stream as fs

use_repo()

THEOREMS = [
    "Pedal.TifaFlow.c09_merge_set_is_union",
    "Pedal.TifaFlow.c09_load_exact",
    "Pedal.TifaFlow.c09_store_exact",
    "Pedal.TifaFlow.c09_init_exact",
    "Pedal.TifaFlow.c09_unused_exact",
    "Pedal.TifaFlow.c09_unused_reported_when_never_read",
    "Pedal.TifaFlow.c09_unused_not_reported_when_always_read",
    "Pedal.TifaFlow.c09_unused_full_of_no_excluded",
    "Pedal.TifaFlow.c09_unused_phantom_counterexample",
    "Pedal.TifaFlow.c09_paths_are_executions",
    "Pedal.TifaFlow.c09_loops_sound_partial",
    "Pedal.TifaFlow.c09_loops_sound_full_of_no_for",
    "Pedal.TifaFlow.c09_for_zero_iterations_counterexample",
]
REFUTED = [
    {"statement": "Pedal.TifaFlow.C09_UnusedExact_Full", "refuted_by": "c09_unused_phantom_counterexample",
     "finding": {"kind": "unused-missed", "cause": "earlier-unset-read"}},
    {"statement": "Pedal.TifaFlow.C09_LoopsSound_Full", "refuted_by": "c09_for_zero_iterations_counterexample",
     "finding": {"kind": "unset-read-missed", "cause": "for-zero-iterations"}},
]
NOTES = [
    "flow subset: one (module) scope; statements x = e, x += e, e / print(e) / pass, if/elif/else, while, for; "
    "expressions reduced to the ordered list of variables they read; no loop-else, break/continue, def, del, try",
    "State is reduced to (set, read); over/type/trace never feed back into set/read",
    "the exactness theorems are about the if-subset; for while only 'no missed uninitialised read' is proved; "
    "for `for` it is refuted (open finding)",
    "executions in the soundness theorem continue after an uninitialised read (a superset of CPython's, which stop)",
    "the unused-variable theorem excludes variables read somewhere while assigned on no path (open finding)",
]

WITNESS_FOR = [["as", 6, [], False], ["for", 5, [6], [["as", 0, [], False]]], ["ex", [0]]]
WITNESS_PHANTOM = [["as", 3, [], False], ["ex", [0]], ["if", [3], [["as", 0, [], False]], []]]


def corpus_cases():
    d = os.path.join(VERIF, "corpus", "C09")
    out = [WITNESS_FOR, WITNESS_PHANTOM]
    if os.path.isdir(d):
        for name in sorted(os.listdir(d)):
            if name.endswith(".json"):
                with open(os.path.join(d, name)) as fh:
                    out.append(json.load(fh)["block"])
    return out


def nontrivial(b):
    """A compound statement with an assignment inside it, and a read somewhere after it."""
    def assigns(bb):
        return any(s[0] in ("as", "for") or (s[0] == "if" and (assigns(s[2]) or assigns(s[3]))) or
                   (s[0] == "wh" and assigns(s[2])) for s in bb)
    for i, s in enumerate(b):
        if s[0] in ("if", "wh", "for"):
            inner = (s[2] + s[3]) if s[0] == "if" else s[-1]
            if assigns(inner) and i + 1 < len(b):
                return True
    return False


def case_stream(rng, tier):
    """(block, style_rng_or_None) for the correspondence; the search re-uses them."""
    for b in corpus_cases():
        yield b, None
    n = 5000 if tier == "quick" else 40000
    mixes = [("if",), ("if",), ("if", "wh"), ("if", "wh", "for"), ("wh",), ("for", "if")]
    for i in range(n):
        kinds = mixes[i % len(mixes)]
        if rng.random() < 0.4:
            yield tc.gen_pattern(rng, kinds), rng
        else:
            yield tc.gen_case(rng, kinds=kinds, max_size=9 if rng.random() < 0.9 else 16), rng
    if tier == "quick":
        for b in tc.enum_programs(4, 2, ["if"]):
            yield b, None
        for b in tc.enum_programs(3, 1, ["wh", "for"]):
            yield b, None
    else:
        for b in tc.enum_programs(5, 2, ["if"]):
            yield b, None
        for b in tc.enum_programs(4, 2, ["if"], cond_is_var=True):
            yield b, None
        for b in tc.enum_programs(4, 2, ["if", "wh", "for"]):
            yield b, None


class OracleSink:
    """Runs the property oracle on cases as they stream by; keeps the first case per signature."""

    def __init__(self):
        self.evaluations = 0
        self.nontrivial = set()
        self.first = {}
        self.pool = []          # a sample of the cases, for the history stream of the search

    def consider(self, b, code, nb, real, names=None):
        self.evaluations += 1
        if self.evaluations % 4 == 0 and len(self.pool) < 6000:
            self.pool.append({"block": b, "code": code, "nb": nb, "names": names, "real": real})
        if nontrivial(b):
            self.nontrivial.add(hash(code))
        for sig, what in tc.oracle(nb, real):
            key = json.dumps(sig, sort_keys=True)
            if key not in self.first:
                self.first[key] = (sig, what, b)


def correspond(rng, tier, driver):
    res = CorrResult()
    res.rule = ("cases = corpus (incl. the two open-finding witnesses) + seeded random flow programs (<=16 statements, "
                "<=5 variables, nesting <=4, if/elif/else, while, for; expression and else-if spelling randomised) + "
                "'assigned inside a compound statement, read afterwards' patterns + EVERY program up to a bound "
                "(quick: if-subset <=4 statements, with loops <=3; thorough: if-subset <=5 statements / 2 variables / depth 2, with loops <=4); "
                "real = tifa_analysis on the rendered source, sorted (label, name, line) of the three initialisation "
                "labels and (label, name) of unused_variable; model = Pedal.TifaFlow.analyse through the driver; "
                "for if-only programs the Lean path semantics specRun is also compared with the Python path oracle; "
                "non-trivial = a compound statement containing an assignment, followed by more statements")
    sink = OracleSink()
    res.sink = sink
    samples = []

    def flush(cases):
        lines, spec_lines, spec_idx = [], [], []
        for i, (b, code, nb, real, names) in enumerate(cases):
            w = tc.wire(nb)
            lines.append("tifaflow " + w)
            if not (tc.has_kind(nb, "wh") or tc.has_kind(nb, "for")) and tc.count_paths(nb) <= tc.PATH_CAP:
                spec_idx.append(i)
                spec_lines.append("tifaspec " + w)
        answers = driver.ask(lines)
        spec_answers = driver.ask(spec_lines)
        for (b, code, nb, real, names), ans, req in zip(cases, answers, lines):
            model = tc.parse_model(ans)
            res.evaluations += 1
            kinds = "+".join(k for k in ("if", "wh", "for") if tc.has_kind(nb, k)) or "straight"
            res.count("kinds:" + kinds)
            res.count("size:%02d" % min(tc.size(b), 12))
            for lab, _, _ in real.get("issues", []):
                res.count("label:" + lab)
            if "error" in real:
                res.count("real-analysis-failed")
            if nontrivial(b):
                res.nontrivial.add(hash(code))
            if real != model and len(res.disagreements) < 50:
                res.disagreements.append({"case": {"block": b, "code": code}, "real": real, "model": model,
                                          "request": req})
            sink.consider(b, code, nb, real, names)
        for i, ans in zip(spec_idx, spec_answers):
            b, code, nb, real, names = cases[i]
            lean_spec = tc.parse_spec(ans)
            py_spec = tc.read_classes_ordered(nb)
            res.count("spec-crosscheck")
            if lean_spec != py_spec and len(res.disagreements) < 50:
                res.disagreements.append({"case": {"block": b, "code": code}, "real": {"python_path_oracle": py_spec},
                                          "model": {"lean_specRun": lean_spec}, "request": "tifaspec " + tc.wire(nb)})

    batch = []
    for b, srng in case_stream(rng, tier):
        style = tc.Style(srng)
        code, nb = tc.render_safe(b, style)
        variant = srng.choice([0, 0, 0, 1, 2, 3]) if srng is not None else 0
        res.count("call-variant:%d" % variant)
        res.count("eol:%r names:%s" % (style.eol, "ascii" if style.names is tc.NAMES else ("builtin-like" if style.names is tc.BUILTIN_LIKE_NAMES else "non-ascii")))
        batch.append((b, code, nb, tc.run_real(code, style.names, variant), style.names))
        if len(samples) < 5:
            samples.append(code)
        if len(batch) >= 4000:
            flush(batch)
            batch = []
    flush(batch)
    res.samples = samples[2:5]
    res.count("oracle-skipped(too many paths)", tc.ORACLE_SKIPPED[0])
    return res


def tc_canon(sig):
    import json
    return json.dumps(sig, sort_keys=True)


def history_stream(rng, tier, broken, pool, fun_codes):
    """The history dimension of the real-code side: a sample of the generated programs is analysed AFTER one or two
    other programs by the same TIFA instance (every spelling of tc.HISTORY_APIS in turn); what is reported for it -
    issues and variable states - must be what a fresh analysis reports (which the correspondence and the path oracle
    have judged), and the results handed out for the earlier programs must not change afterwards."""
    n = (1500 if tier == "quick" else 12000) * (2 if broken else 1)
    odd = [{"code": c, "block": None, "names": None, "real": None} for c in tc.odd_earlier_programs()]
    funs = [{"code": c, "block": None, "names": None, "real": None} for c in fun_codes]
    flow = [e for e in pool if "issues" in (e["real"] or {})]
    info = {"histories": 0, "with_different_issues": 0, "by_api": {}, "earlier_kinds": {"flow": 0, "functions": 0, "odd": 0}}
    if not flow:
        return [], info
    fresh_cache = {}

    def fresh(code):
        if code not in fresh_cache:
            fresh_cache[code] = tc.run_fresh_full(code)
        return fresh_cache[code]

    def flagged(e):
        return {(lab, name) for lab, name, _ in e["real"]["issues"]}

    def assigned(b):
        out = set()
        for s in b:
            if s[0] in ("as", "for"):
                out.add(tc.NAMES[s[1]])
            for sub in s[1:]:
                if isinstance(sub, list) and sub and isinstance(sub[0], list):
                    out |= assigned(sub)
        return out

    def pick_earlier(test):
        r = rng.random()
        if r < 0.12:
            info["earlier_kinds"]["odd"] += 1
            return rng.choice(odd)
        if r < 0.27 and funs:
            info["earlier_kinds"]["functions"] += 1
            return rng.choice(funs)
        info["earlier_kinds"]["flow"] += 1
        cands = [rng.choice(flow) for _ in range(8)]
        if test["real"] is None:
            return cands[0]
        mine = flagged(test)
        mine_names = {name for _, name in mine}

        def score(e):
            theirs = flagged(e)
            sc = len(theirs - mine) + len(mine - theirs)
            if e["names"] is test["names"]:
                sc += 2               # same spelling of the variables: stale state would be about the SAME names
                if assigned(e["block"]) & mine_names:
                    sc += 2           # it assigns what the program under test reads unassigned
            return sc
        return max(cands, key=score)

    first = {}
    for i in range(n):
        test = rng.choice(funs) if (funs and i % 6 == 5) else rng.choice(flow)
        earlier = []
        for _ in range(1 if rng.random() < 0.6 else 2):
            e = pick_earlier(test)
            if e["code"] != test["code"] and e["code"] not in [x["code"] for x in earlier]:
                earlier.append(e)
        if not earlier:
            continue
        api = tc.HISTORY_APIS[i % len(tc.HISTORY_APIS)]
        codes = [e["code"] for e in earlier]
        f = fresh(test["code"])
        fe = [fresh(c) for c in codes]
        info["histories"] += 1
        info["by_api"][api] = info["by_api"].get(api, 0) + 1
        if any(x.get("issues") != f.get("issues") for x in fe):
            info["with_different_issues"] += 1
        verdict, got = tc.history_verdict(codes, test["code"], api, f, fe)
        for kind, txt in verdict:
            sig = {"kind": "history-dependent", "what": kind, "api": "tifa_analysis" if "tifa_analysis" in api else "process_code"}
            first.setdefault(tc_canon(sig), (sig, txt, earlier, test, api, got))
    failures = []
    for key, (sig, txt, earlier, test, api, got) in first.items():
        def still(codes, code, api=api, sig=sig):
            return any(k == sig["what"] for k, _ in tc.history_verdict(codes, code, api)[0])
        codes, code = [e["code"] for e in earlier], test["code"]
        cur_nb, cur_names = test.get("nb"), test["names"]
        for j in range(len(codes) - 1, -1, -1):                    # fewer earlier programs
            if len(codes) > 1 and still(codes[:j] + codes[j + 1:], code):
                codes = codes[:j] + codes[j + 1:]
        if test["block"] is not None and still(codes, tc.render(test["block"])[0]):    # a smaller program under test
            small = tc.shrink(test["block"], lambda bb: still(codes, tc.render(bb)[0]))
            code, cur_nb = tc.render(small)
            cur_names = tc.NAMES
        elif test["block"] is None:
            code = fs.shrink(code, lambda src: still(codes, src))
        for at in range(len(codes)):                                                    # earlier programs given as text
            if not any(e["code"] == codes[at] and e["block"] is not None for e in earlier):
                codes[at] = fs.shrink(codes[at], lambda src, at=at: still(codes[:at] + [src] + codes[at + 1:], code))
        for j, e in enumerate(earlier):                                                 # smaller earlier programs
            if e["code"] in codes and e["block"] is not None:
                at = codes.index(e["code"])
                def still_e(bb, at=at):
                    return still(codes[:at] + [tc.render(bb)[0]] + codes[at + 1:], code)
                if still_e(e["block"]):
                    codes[at] = tc.render(tc.shrink(e["block"], still_e))[0]
        v2, got2 = tc.history_verdict(codes, code, api)
        txt2 = ([t for k, t in v2 if k == sig["what"]] or [txt])[0]
        f2 = tc.run_fresh_full(code)
        verdict_on_stale = ""
        if test["block"] is not None and "issues" in got2 and sig["what"] == "issues":
            stale = tc.oracle(cur_nb, tc.back_names(got2["issues"], cur_names))
            own = tc.oracle(cur_nb, tc.back_names(f2.get("issues", []), cur_names)) if "issues" in f2 else []
            new = [s for s, _ in stale if s not in [o for o, _ in own]]
            if new:
                verdict_on_stale = " | path oracle on that result: %s" % json.dumps(new[:3])
        failures.append(Failure(sig, "%s [%s]%s | analysed first: %s | program under test: %s"
                                % (txt2, api, verdict_on_stale, " ;; ".join(c.rstrip().replace("\n", " / ") for c in codes),
                                   code.rstrip().replace("\n", " / ")),
                                {"stream": "history", "api": api, "earlier": codes, "code": code,
                                 "fresh": f2, "with_history": got2}))
    return failures, info


def search(rng, tier, broken, corr):
    info = {"rule": "real tifa_analysis vs a path-enumeration oracle written from the property text: if-subset - every "
                    "read classified over all branch-outcome vectors (none / Initialization Problem or read-out-of-scope "
                    "/ Possible Initialization Problem exactly), unused reported when no path reads after the last "
                    "assignment and not reported when every path does; with loops - every read unassigned on some real "
                    "execution (0/1/2 iterations per loop, stopping at the first NameError) carries an issue; over the "
                    "correspondence cases (corpus, random, patterns, exhaustive small scope) plus fresh random ones; "
                    "programs with more than %d executions are skipped" % tc.PATH_CAP,
            "evaluations": 0, "distinct_nontrivial": 0, "samples": []}
    sink = getattr(corr, "sink", None) or OracleSink()
    extra = (300 if tier == "quick" else 5000) * (4 if broken else 1)
    for i in range(extra):
        kinds = [("if",), ("if", "wh"), ("wh", "for", "if")][i % 3]
        b = tc.gen_pattern(rng, kinds) if i % 2 else tc.gen_case(rng, kinds=kinds)
        style = tc.Style(rng)
        code, nb = tc.render_safe(b, style)
        sink.consider(b, code, nb, tc.run_real(code, style.names, rng.choice([0, 1, 2, 3])), style.names)
    failures = []
    for key, (sig, what, b) in sink.first.items():
        def still(bb):
            c2, nb2 = tc.render(bb)
            return any(s2 == sig for s2, _ in tc.oracle(nb2, tc.run_real(c2)))
        small = tc.shrink(b, still) if still(b) else b
        c2, nb2 = tc.render(small)
        r2 = tc.run_real(c2)
        w2 = [w for s2, w in tc.oracle(nb2, r2) if s2 == sig]
        failures.append(Failure(sig, (w2[0] if w2 else what) + " | program: " + c2.rstrip("\n").replace("\n", " / "),
                                {"block": small, "code": c2, "real": r2}))
    # programs WITH function definitions and calls (outside the Lean model): CPython's own executions are the oracle
    nfun = (1500 if tier == "quick" else 25000) * (3 if broken else 1)
    fun_first, fun_err_programs = {}, 0
    fun_codes = []
    for i in range(nfun):
        code = fs.gen(rng)
        if len(fun_codes) < 400:
            fun_codes.append(code)
        found, errs = fs.judge(code, i % 2)
        fun_err_programs += 1 if errs else 0
        for sig, what in found:
            fun_first.setdefault(tc_canon(sig), (sig, what, code))
    for key, (sig, what, code) in fun_first.items():
        def still_f(src, sig=sig):
            return any(s2 == sig for s2, _ in fs.judge(src)[0])
        small = fs.shrink(code, still_f)
        w2 = [w for s2, w in fs.judge(small)[0] if s2 == sig]
        failures.append(Failure(sig, (w2[0] if w2 else what) + " | program: " + small.rstrip("\n").replace("\n", " / "),
                                {"code": small, "stream": "functions"}))
    info["function_programs"] = {"evaluated": nfun, "with_a_real_NameError": fun_err_programs}
    hist_failures, hist_info = history_stream(rng, tier, broken, sink.pool, fun_codes)
    failures.extend(hist_failures)
    info["history_stream"] = hist_info
    info["evaluations"] = sink.evaluations + nfun + hist_info["histories"]
    info["rule"] += (" | functions stream: generated programs with def/global/call/if/while on input() are really executed "
                     "under every input() answer vector; every line where NameError/UnboundLocalError is raised must "
                     "carry an initialisation-type TIFA issue"
                     " | history stream: a sample of all these programs is analysed after one or two OTHER programs (flow programs "
                     "chosen to be flagged differently / to assign what the program under test reads unassigned, function programs, "
                     "a program that does not parse, an empty one, def/class/import/del/try/with/loop-else programs, all-names-assigned "
                     "and all-names-read programs) by ONE TIFA instance - tifa_analysis(code) on one report, contextualize_report("
                     "clear=False) + tifa_analysis(), an own Report, one Tifa object's process_code() on an own / the main report; the "
                     "flow issues (label, name, line, with duplicates) and the (set, read, over) state of every variable must equal "
                     "those of a fresh analysis, and results already handed out for the earlier programs must not change")
    info["distinct_nontrivial"] = len(sink.nontrivial)
    info["oracle_skipped_too_many_paths"] = tc.ORACLE_SKIPPED[0]
    info["samples"] = [f.replay["code"] for f in failures][:3]
    return failures, info


def replay(payload):
    rp = payload.get("replay") or {}
    b = rp.get("block")
    if rp.get("stream") == "history":
        print("analysed first:")
        for c in rp["earlier"]:
            print("---\n" + c)
        print("--- program under test\n" + rp["code"])
        print("api   :", rp["api"])
        print("fresh :", tc.run_fresh_full(rp["code"]))
        verdict, got = tc.history_verdict(rp["earlier"], rp["code"], rp["api"])
        print("after :", got)
        print("verdict:", verdict)
        return 0
    if b is None:
        print(json.dumps(payload, indent=1)[:4000])
        return 0
    code, nb = tc.render(b)
    real = tc.run_real(code)
    print(code)
    print("real  :", real)
    from common import Driver
    d = Driver("driver_c09")
    if d.available:
        print("model :", tc.parse_model(d.ask(["tifaflow " + tc.wire(nb)])[0]))
    print("oracle:", tc.oracle(nb, real))
    return 0


if __name__ == "__main__":
    sys.exit(run_check("C09", proof_modules=["PedalProofs.C09"], theorems=THEOREMS, driver_exe="driver_c09",
                       correspond=correspond, search=search, replay=replay, model_notes=NOTES,
                       refuted_full=REFUTED, leanchecker_modules=["PedalProofs.C09"]))

"""
Group-context stream of the C07 check (search only; the Lean model of unit_test / assert_group counts the children of ONE
group and abstracts the report's stack of open groups away).

unit_test() and hand-written `with assert_group(...)` blocks are run while OTHER feedback groups of the same report are
alive: enclosing assert_groups (holding assertions of their own before and after), the group pedal.source.sections keeps
open for the current section (independent and cumulative, first and later sections, also across next_section()), both
together, on MAIN_REPORT or on a Report object of its own (while MAIN_REPORT holds a decoy group), several unit_tests /
groups one after the other in the same outer group.

Oracle, from the property text ("unit_test() succeeds exactly when all of its cases pass and reports the true pass
count", "every assert_* check stays silent exactly when the relation holds"):
  * unit_test: returned value == every case passes; success_count / total_count / the "You passed x/y tests." sentence ==
    the true counts of ITS cases; a failing one is listed in report.feedback, a passing one is not;
  * assert_group: its counts are the true counts of the assertions written directly in its block (the cases of a
    unit_test or of an inner group are not its own), it fails when one of them fails and succeeds when everything inside
    it (inner groups included) passes; when only an inner group fails its verdict is left open;
  * every single assertion fires / stays silent as its relation says, wherever it is written.
A scenario is a JSON-able dict (see `run`), so a failure replays literally.
"""
import itertools
import re

from common import use_repo

use_repo()

from pedal import contextualize_report, run as pedal_run, call  # noqa: E402
from pedal.core.report import MAIN_REPORT, Report  # noqa: E402
import pedal.assertions.runtime as rt  # noqa: E402
from pedal.assertions.commands import unit_test  # noqa: E402
from pedal.assertions.feedbacks import assert_group  # noqa: E402
from pedal.source.sections import separate_into_sections, next_section  # noqa: E402

BODY = '''def val(k):
    if k < 0:
        raise ValueError("negative")
    return k
'''
PLAIN = BODY
SECTIONED = "zero = 0\n##### Part 1\n" + BODY + "##### Part 2\n" + BODY + "two = 2\n##### Part 3\n" + BODY + "three = 3\n"

# a case / an assertion: 'p' passes, 'f' fails (wrong value), 'e' fails (the call raises)
ARG = {"p": (3, 3), "f": (4, 5), "e": (-1, -1)}

# the ways an own assertion is written: (label, function(kind, report kwargs) -> feedback, passes?)
def _call(k, kw):
    return call("val", k, **kw)


def make_assertion(how, kind, kw):
    arg, exp = ARG[kind]
    if how == "equal_call":
        return rt.assert_equal(_call(arg, kw), exp, **kw)
    if how == "equal_raw":
        if kind == "e":
            return rt.assert_equal(_call(arg, kw), exp, **kw)
        return rt.assert_equal(arg, exp, **kw)
    if how == "true":
        if kind == "e":
            return rt.assert_true(_call(arg, kw), **kw)
        return rt.assert_true(_call(arg, kw) == exp, **kw)
    if how == "in":
        return rt.assert_in(_call(arg, kw), [exp], **kw)
    if how == "not_equal":          # the negated spelling: passes when the values differ
        return rt.assert_not_equal(_call(arg, kw), arg + 1 if kind == "p" else arg, **kw)
    raise ValueError(how)


HOWS = ("equal_call", "equal_raw", "true", "in", "not_equal")


class Abort(Exception):
    pass


def _counts_of(group):
    f = group.fields
    m = re.search(r"You passed (\d+)/(\d+) tests", str(f.get("summary_statistics", "")))
    return {"succ": f.get("success_count"), "total": f.get("total_count"),
            "bad": None if f.get("failure_count") is None else f.get("failure_count") + f.get("error_count", 0),
            "said": [int(m.group(1)), int(m.group(2))] if m else None}


def run(sc):
    """Execute a scenario on the real code.
    sc = {"report": "main" | "own", "section": None | {"independent": bool, "skip": n}, "body": [item, ...]}
      item = ["a", kind, how]                      one assertion
           | ["u", "pfe...", partial]              unit_test('val', one case per letter)
           | ["g", [item, ...], try_all]           with assert_group(...): items
           | ["n"]                                 next_section(); run()   (top level only)
    -> list of observations in execution order (pre-order), or {"error": ...}"""
    MAIN_REPORT.clear()
    own = sc.get("report") == "own"
    sectioned = sc.get("section") is not None
    code = SECTIONED if sectioned else PLAIN
    if own:
        # unit_test() calls the student's function through MAIN_REPORT's sandbox whatever report it reports to:
        # both reports get the program; MAIN_REPORT additionally holds a decoy group that must stay empty
        contextualize_report(PLAIN)
        pedal_run()
        report = Report()
        contextualize_report(code, report=report)
        kw = {"report": report}
    else:
        contextualize_report(code)
        report = MAIN_REPORT
        kw = {}
    obs = []
    decoy = None
    try:
        if own:
            decoy = assert_group("decoy")
            decoy.__enter__()
        if sectioned:
            separate_into_sections(independent=bool(sc["section"].get("independent")), **kw)
            for _ in range(1 + int(sc["section"].get("skip", 0))):
                next_section(**kw)
        pedal_run(**kw)
        _items(sc["body"], report, kw, obs, top=True)
        if decoy is not None:
            decoy.__exit__(None, None, None)
            obs.append(dict(_counts_of(decoy), what="decoy", failed=bool(decoy)))
    except Exception as e:       # noqa: BLE001 - an escaping exception is an observation
        return {"error": "escapes:" + type(e).__name__ + ":" + str(e)[:80]}
    finally:
        MAIN_REPORT.clear()
    return obs


def _listed(report, fb):
    return any(f is fb for f in report.feedback)


def _items(items, report, kw, obs, top=False):
    for it in items:
        tag = it[0]
        if tag == "a":
            fb = make_assertion(it[2], it[1], kw)
            obs.append({"what": "a", "fired": bool(fb), "listed": _listed(report, fb)})
        elif tag == "u":
            before = {id(f) for f in report.feedback + report.ignored_feedback}
            extra = dict(kw)
            if len(it) > 2 and it[2]:
                extra["partial_credit"] = True
            ok = unit_test("val", *[([ARG[c][0]], ARG[c][1]) for c in it[1]], **extra)
            new = [f for f in report.feedback + report.ignored_feedback
                   if id(f) not in before and type(f).__name__ == "unit_test"]
            if len(new) != 1:
                obs.append({"what": "u", "error": "found %d new unit_test feedbacks" % len(new)})
                continue
            obs.append(dict(_counts_of(new[0]), what="u", passed=bool(ok), listed=_listed(report, new[0])))
        elif tag == "g":
            slot = {"what": "g"}
            obs.append(slot)
            group = assert_group("block", try_all=bool(it[2]) if len(it) > 2 else True, **kw)
            with group:
                _items(it[1], report, kw, obs)
            slot.update(_counts_of(group), failed=bool(group), listed=_listed(report, group))
        elif tag == "n":
            if not top:
                raise Abort("next_section inside a group")
            next_section(**kw)
            pedal_run(**kw)
        else:
            raise Abort("unknown item %r" % (it,))


# --------------------------------------------------------------------------------------
# oracle

def _all_pass(items):
    for it in items:
        if it[0] == "a" and it[1] != "p":
            return False
        if it[0] == "u" and any(c != "p" for c in it[1]):
            return False
        if it[0] == "g" and not _all_pass(it[1]):
            return False
    return True


def expect(sc):
    out = []
    _expect(sc["body"], out)
    if sc.get("report") == "own":
        out.append({"what": "decoy", "succ": 0, "total": 0, "bad": 0, "said": [0, 0], "failed": False})
    return out


def _expect(items, out):
    for it in items:
        if it[0] == "a":
            out.append({"what": "a", "fired": it[1] != "p", "listed": it[1] != "p"})
        elif it[0] == "u":
            good = sum(1 for c in it[1] if c == "p")
            n = len(it[1])
            out.append({"what": "u", "passed": good == n, "succ": good, "total": n, "bad": n - good, "said": [good, n],
                        "listed": good != n})
        elif it[0] == "g":
            own = [x[1] for x in it[1] if x[0] == "a"]
            good = sum(1 for c in own if c == "p")
            n = len(own)
            if good != n:
                failed = True
            elif _all_pass(it[1]):
                failed = False
            else:
                failed = None                  # only an inner group fails: the property leaves the outer verdict open
            slot = {"what": "g", "succ": good, "total": n, "bad": n - good, "said": [good, n], "failed": failed,
                    "listed": failed}
            out.append(slot)
            _expect(it[1], out)


def compare(real, want):
    """-> None when the observations satisfy the oracle, else (kind, index, field)"""
    if isinstance(real, dict):
        return ("escapes", None, None)
    if len(real) != len(want):
        return ("shape", None, None)
    order = {"passed": 0, "failed": 0, "fired": 0, "succ": 1, "total": 1, "bad": 1, "said": 1, "listed": 2}
    worst = None
    for i, (r, w) in enumerate(zip(real, want)):
        if "error" in r:
            return ("escapes", i, None)
        for k, v in w.items():
            if v is None:
                continue
            if k in ("bad", "said") and r.get(k) is None:
                # secondary spellings of the count (failure_count + error_count, the sentence of the message): absent /
                # reworded is not a wrong count; success_count and total_count are the observation the property names
                continue
            if r.get(k) != v:
                cand = (order.get(k, 3), i, k)
                if worst is None or cand < worst:
                    worst = cand
    if worst is None:
        return None
    _, i, k = worst
    kind = {"passed": "verdict", "failed": "verdict", "fired": "verdict", "listed": "report"}.get(k, "count")
    return (kind, i, k)


# --------------------------------------------------------------------------------------
# describing the context of the observation that went wrong (signature)

def _paths(items, path, out):
    for it in items:
        if it[0] in ("a", "u"):
            out.append((it, tuple(path)))
        elif it[0] == "g":
            out.append((it, tuple(path)))
            _paths(it[1], path + ["group"], out)


def context_of(sc, index):
    """where the item with that observation index sits: 'top' | 'group' | 'group/group' | 'section' | 'section/group' ..."""
    out = []
    _paths(sc["body"], [], out)
    if index is None or index >= len(out):
        where, what = (), "decoy" if index is not None else "?"
    else:
        it, where = out[index]
        what = {"a": "assertion", "u": "unit_test", "g": "assert_group"}[it[0]]
    ctx = (["section"] if sc.get("section") is not None else []) + list(where)
    depth = "/".join(ctx[:3]) or "top"
    return what, depth


# --------------------------------------------------------------------------------------
# generators

def _sections():
    return [None, {"independent": False, "skip": 0}, {"independent": True, "skip": 0},
            {"independent": False, "skip": 1}, {"independent": True, "skip": 1}]


def wrap(payload, depth, before="", after="", how="equal_call"):
    """payload (a list of items) inside `depth` assert_groups; the groups hold own assertions before / after"""
    items = payload
    for _ in range(depth):
        items = [["g", [["a", c, how] for c in before] + items + [["a", c, how] for c in after], True]]
    return items


def corpus():
    """hand-picked scenarios: every context x the payloads that tell the defects apart"""
    out = []
    payloads = [
        [["u", "pf", False]], [["u", "pp", False]], [["u", "f", False]], [["u", "", False]], [["u", "pe", True]],
        [["u", "pf", False], ["u", "pp", False]],                       # two unit_tests in the same outer group
        [["u", "pp", False], ["u", "fp", True]],
        [["g", [["a", "p", "equal_call"], ["a", "f", "equal_call"]], True]],
        [["g", [["a", "p", "true"], ["a", "p", "in"]], True]],
        [["a", "f", "equal_call"], ["u", "pp", False], ["a", "p", "equal_raw"]],
    ]
    surround = [("", ""), ("p", ""), ("f", ""), ("", "p"), ("", "f"), ("p", "f"), ("pf", "p")]
    for report in ("main", "own"):
        for section in _sections():
            for depth in (0, 1, 2):
                for pi, payload in enumerate(payloads):
                    for si, (b, a) in enumerate(surround if depth else [("", "")]):
                        # thin the product deterministically; every (context, payload) pair is kept with some surround
                        if depth and (pi + si + depth) % 3 and not (si == 0 and pi < 3):
                            continue
                        if report == "own" and (pi + si) % 2:
                            continue
                        out.append({"report": report, "section": section, "body": wrap(payload, depth, b, a)})
    # across next_section(): a unit_test in each section, a group closed before the section changes
    for independent in (False, True):
        for report in ("main", "own"):
            out.append({"report": report, "section": {"independent": independent, "skip": 0},
                        "body": [["u", "pf", False], ["n"], ["u", "pp", False], ["n"], ["u", "f", False]]})
            out.append({"report": report, "section": {"independent": independent, "skip": 0},
                        "body": [["g", [["a", "p", "equal_call"], ["u", "pf", False]], True], ["n"],
                                 ["g", [["u", "pp", False], ["a", "f", "true"]], True]]})
    return out


def random_items(rng, depth, budget):
    items = []
    for _ in range(rng.randrange(1, 4)):
        if budget[0] <= 0:
            break
        budget[0] -= 1
        r = rng.random()
        if r < 0.35:
            items.append(["a", rng.choice("pppffe"), rng.choice(HOWS)])
        elif r < 0.7 or depth >= 3:
            items.append(["u", "".join(rng.choice("pppffe") for _ in range(rng.randrange(0, 4))), rng.random() < 0.3])
        else:
            items.append(["g", random_items(rng, depth + 1, budget), rng.random() < 0.85])
    return items


def random_scenario(rng):
    section = rng.choice(_sections())
    body = random_items(rng, 0, [rng.randrange(2, 9)])
    if section is not None and section["skip"] == 0 and rng.random() < 0.3:
        body = body + [["n"]] + random_items(rng, 0, [rng.randrange(1, 5)])
    return {"report": "own" if rng.random() < 0.3 else "main", "section": section, "body": body}


def exhaustive():
    """small scope: every context (report x section x nesting depth 0..2 x one own assertion before / after or none)
    x every unit_test of up to 2 cases over p/f/e, alone and followed by a second unit_test"""
    tables = ["".join(t) for n in range(0, 3) for t in itertools.product("pfe", repeat=n)]
    for report in ("main", "own"):
        for section in _sections():
            for depth in (0, 1, 2):
                for b, a in ([("", "")] if depth == 0 else [("", ""), ("p", ""), ("f", ""), ("", "p"), ("", "f")]):
                    for t in tables:
                        yield {"report": report, "section": section, "body": wrap([["u", t, False]], depth, b, a)}
                        if len(t) == 1:
                            for t2 in ("p", "f", "pp"):
                                yield {"report": report, "section": section,
                                       "body": wrap([["u", t, False], ["u", t2, False]], depth, b, a)}


def scenarios(rng, tier):
    out = corpus()
    n = 120 if tier == "quick" else 1500
    out += [random_scenario(rng) for _ in range(n)]
    if tier != "quick":
        out += list(exhaustive())
    return out


def shrink(sc, still_fails):
    """greedy: drop items, unwrap groups, drop the section / own report"""
    changed = True
    while changed:
        changed = False
        for cand in _smaller(sc):
            if still_fails(cand):
                sc = cand
                changed = True
                break
    return sc


def _smaller(sc):
    if sc.get("report") == "own":
        yield dict(sc, report="main")
    for body in _smaller_items(sc["body"]):
        yield dict(sc, body=body)
    if sc.get("section") is not None and not any(it[0] == "n" for it in sc["body"]):
        if sc["section"].get("skip"):
            yield dict(sc, section=dict(sc["section"], skip=0))
        if sc["section"].get("independent"):
            yield dict(sc, section=dict(sc["section"], independent=False))


def _smaller_items(items):
    for i, it in enumerate(items):
        yield items[:i] + items[i + 1:]
        if it[0] == "u" and len(it[1]) > 1:
            for j in range(len(it[1])):
                yield items[:i] + [["u", it[1][:j] + it[1][j + 1:], it[2]]] + items[i + 1:]
        if it[0] == "u" and it[2]:
            yield items[:i] + [["u", it[1], False]] + items[i + 1:]
        if it[0] == "g":
            for inner in _smaller_items(it[1]):
                yield items[:i] + [["g", inner] + it[2:]] + items[i + 1:]


def render(sc):
    """the scenario as the grading script an instructor would write"""
    lines = []
    kw = ", report=r" if sc.get("report") == "own" else ""
    if sc.get("report") == "own":
        lines.append("r = Report(); contextualize_report(CODE, report=r)   # MAIN_REPORT holds the program and an open group")
    if sc.get("section") is not None:
        lines.append("separate_into_sections(independent=%s%s)" % (bool(sc["section"].get("independent")), kw))
        lines += ["next_section(%s)" % kw.lstrip(", ")] * (1 + int(sc["section"].get("skip", 0)))
    lines.append("run(%s)" % kw.lstrip(", "))

    def walk(items, ind):
        for it in items:
            if it[0] == "a":
                arg, exp = ARG[it[1]]
                if it[2] == "not_equal":
                    exp = arg + 1 if it[1] == "p" else arg
                text = {"equal_call": "assert_equal(call('val', %d), %d%s)", "equal_raw": "assert_equal(%d, %d%s)",
                        "true": "assert_true(call('val', %d) == %d%s)", "in": "assert_in(call('val', %d), [%d]%s)",
                        "not_equal": "assert_not_equal(call('val', %d), %d%s)"}[it[2]] % (arg, exp, kw)
                if it[1] == "e" and it[2] == "equal_raw":
                    text = "assert_equal(call('val', %d), %d%s)" % (arg, exp, kw)
                if it[1] == "e" and it[2] == "true":
                    text = "assert_true(call('val', %d)%s)" % (arg, kw)
                lines.append("%s%s   # %s" % (ind, text, {"p": "holds", "f": "does not hold",
                                                          "e": "the call raises"}[it[1]]))
            elif it[0] == "u":
                lines.append("%sunit_test(%s%s%s)" % (ind, ", ".join(["'val'"] + ["([%d], %d)" % ARG[c] for c in it[1]]),
                                                      ", partial_credit=True" if it[2] else "", kw))
            elif it[0] == "g":
                lines.append("%swith assert_group('block'%s):" % (ind, kw))
                walk(it[1], ind + "    ")
                if not it[1]:
                    lines.append(ind + "    pass")
            elif it[0] == "n":
                lines.append("%snext_section(%s); run(%s)" % (ind, kw.lstrip(", "), kw.lstrip(", ")))
    walk(sc["body"], "")
    return lines

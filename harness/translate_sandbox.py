"""
Regenerates lean/PedalModel/Gen/SandboxExecGen.lean from the tree under test (C04 / C05).

Two kinds of extraction:

* AST (order and structure matter, and it cannot be observed without running programs):
  `Sandbox._execute` is read BY MEANING into the handler ladder `pre; try body; except clauses; else; finally; post`
  by harness/sandboxexec_ladder.py - a symbolic reader (locals followed, private helpers and local functions inlined,
  the non-threaded path chosen by partial evaluation, `except` over a tuple of classes / a class or module constant
  and `isinstance` dispatch inside `except BaseException` expanded into the equivalent clauses) whose result is
  CROSS-CHECKED against the behaviour of the real `_execute` measured on an instrumented sandbox (one run per
  control signature); simple statements the reader cannot follow are taken from that measurement.  A statement that
  is neither read nor measured, an `except` class the model has no clause for, or a reading that disagrees with the
  measurement becomes `Act.unknown` (the well-formedness check in PedalProofs/C05.lean then fails) - it is never
  dropped.  harness/sandboxexec_ladder_selftest.py runs ~55 harmless / broken rewrites of `_execute` through it.
  `Sandbox._import` (import of another student file during an execution) is scanned, private helpers followed, for
  the three facts the model relies on: its `exec` sits inside the tracer's `with`, there is no `try` in it (nor, in a
  helper, around the way to the `exec`), it calls none of the mocking / capturing methods.
* Probes (behaviour of small units, robust against refactoring): `_start_mocking` / `_stop_mocking` /
  `_stop_patches` / `_reset_builtins` are called on a fresh Sandbox and the borrowed globals are compared;
  every tracer style is entered/left around a pre-installed trace function; `ExpandedTraceback.line_number`
  is computed for four crafted tracebacks; `Sandbox.run` is fed one program per exception-object hazard to see
  which of them make pedal's own bookkeeping raise; the blocked builtins/modules are called once each.
  `EXCEPTION_FF_MAP` is read from the imported module.
"""
import ast
import hashlib
import inspect
import os
import sys
import textwrap
import time

from common import LEAN_DIR, lean_list, lean_str, use_repo, write_if_changed

HAZARDS = ["strRaises", "reprRaises", "attrReadRaises", "attrWriteRaises", "synNoLine", "synNoSource", "truthRaises",
           "attrMissingRaises"]

HAZARD_PROGRAMS = {
    "strRaises": "class E(Exception):\n    def __str__(self):\n        raise ValueError('no')\nraise E()\n",
    "reprRaises": "class E(Exception):\n    def __repr__(self):\n        raise ValueError('no')\nraise E()\n",
    "attrReadRaises": "class E(Exception):\n    def __getattribute__(self, k):\n        raise ValueError('no')\nraise E()\n",
    "attrWriteRaises": "class E(Exception):\n    def __setattr__(self, k, v):\n        raise ValueError('no')\nraise E()\n",
    "synNoLine": "raise SyntaxError('no position')\n",
    "synNoSource": "raise SyntaxError('elsewhere', ('not_a_student_file.py', 7, 2, 'abc'))\n",
    "attrMissingRaises": "class E(Exception):\n    def __getattr__(self, k):\n        raise ValueError('no')\nraise E()\n",
    "truthRaises": "class E(Exception):\n    def __bool__(self):\n        raise ValueError('no')\nraise E()\n",
}


# --------------------------------------------------------------------------
# Sandbox._execute: harness/sandboxexec_ladder.py (read by meaning + measured on the real function)
# Sandbox._import: scanned here, helper methods followed

def _is_self_call(node, name):
    return (isinstance(node, ast.Call) and isinstance(node.func, ast.Attribute) and node.func.attr == name
            and isinstance(node.func.value, ast.Name) and node.func.value.id == "self")


def _is_name_call(node, name):
    return isinstance(node, ast.Call) and isinstance(node.func, ast.Name) and node.func.id == name


def _self_attr(node, name):
    return (isinstance(node, ast.Attribute) and node.attr == name and isinstance(node.value, ast.Name)
            and node.value.id == "self")


MOCKING_METHODS = ("_start_mocking", "_stop_mocking", "_start_patches", "_stop_patches", "_capture_exception")


def _is_tracer_with(node):
    if not isinstance(node, ast.With):
        return False
    for item in node.items:
        ce = item.context_expr
        if (isinstance(ce, ast.Call) and isinstance(ce.func, ast.Attribute) and ce.func.attr == "as_filename"
                and _self_attr(ce.func.value, "trace")):
            return True
    return False


def walk_import(func_src, methods=None):
    """-> {"reentersTracer", "hasHandlers", "touchesMocking"} for Sandbox._import.

    `methods` (name -> FunctionDef of the class): private helpers `_import` calls are FOLLOWED, so that moving the
    compile / traced exec (or anything else) into a helper changes nothing.  What is looked for:
      hasHandlers     any `try` in `_import` itself, or - in a helper - a `try` around the path to an `exec`
                      (a `try` elsewhere in a helper, e.g. while the builtins are copied, handles no student failure);
      touchesMocking  a call of a mocking / capturing method anywhere on the way;
      reentersTracer  an `exec` reached inside `with self.trace.as_filename(...)`.
    """
    fn = ast.parse(textwrap.dedent(func_src)).body[0]
    methods = methods or {}
    found = {"try": False, "touches": False, "traced": 0, "execs": 0}
    try_types = (ast.Try,) + ((ast.TryStar,) if hasattr(ast, "TryStar") else ())

    def contains_exec(node, seen):
        for n in ast.walk(node):
            if _is_name_call(n, "exec"):
                return True
            if isinstance(n, ast.Call) and isinstance(n.func, ast.Attribute) and isinstance(n.func.value, ast.Name) \
                    and n.func.value.id == "self" and n.func.attr in methods and n.func.attr not in seen:
                if contains_exec(methods[n.func.attr], seen | {n.func.attr}):
                    return True
        return False

    def scan(node, in_try, traced, own, seen):
        if isinstance(node, try_types):
            if own or contains_exec(node, seen):
                found["try"] = True
            in_try = True
        if _is_tracer_with(node):
            traced = True
        if isinstance(node, ast.Call):
            if any(_is_self_call(node, m) for m in MOCKING_METHODS):
                found["touches"] = True
            if _is_name_call(node, "exec"):
                found["execs"] += 1
                if traced:
                    found["traced"] += 1
            f = node.func
            if (isinstance(f, ast.Attribute) and isinstance(f.value, ast.Name) and f.value.id == "self"
                    and f.attr in methods and f.attr not in seen and f.attr not in MOCKING_METHODS):
                for st in methods[f.attr].body:
                    scan(st, in_try, traced, False, seen | {f.attr})
        for child in ast.iter_child_nodes(node):
            scan(child, in_try, traced, own, seen)

    for st in fn.body:
        scan(st, False, False, True, {fn.name})
    # an `exec` outside the tracer next to one inside would need a finer model: say "re-enters" (the weaker claim)
    return {"reentersTracer": found["traced"] > 0, "hasHandlers": found["try"], "touchesMocking": found["touches"],
            "execs": found["execs"]}


# --------------------------------------------------------------------------
# probes

def _snapshot():
    import builtins
    return {"stdout": sys.stdout, "sleep": time.sleep, "modules": dict(sys.modules), "trace": sys.gettrace(),
            "builtins": dict(builtins.__dict__)}


def _same(a, b, key):
    if key in ("modules", "builtins"):
        return a[key].keys() == b[key].keys() and all(a[key][k] is b[key][k] for k in a[key])
    return a[key] is b[key]


def probe_mocking():
    from pedal.core.report import Report
    from pedal.core.submission import Submission
    from pedal.sandbox.sandbox import Sandbox
    from pedal.sandbox.data import SandboxContext, SandboxContextKind
    from pedal.sandbox import mocked
    import builtins
    report = Report()
    report.contextualize(Submission(main_code="x = 1\n"))
    sb = Sandbox(report)

    def ctx():
        c = SandboxContext(0, "x = 1\n", "answer.py", SandboxContextKind.RUN, None, [], "", None, report.submission)
        sb._context.append(c)
        return c
    before = _snapshot()
    res = {}
    try:
        c1 = ctx()
        sb._start_mocking(c1)
        mid = _snapshot()
        res["startPushesStdout"] = len(sb._current_stdout)
        res["startPushesPatches"] = len(sb._current_patches)
        res["patchesStdout"] = not _same(before, mid, "stdout")
        res["patchesSleep"] = not _same(before, mid, "sleep")
        res["patchesModules"] = not _same(before, mid, "modules")
        other_mid = _same(before, mid, "trace") and _same(before, mid, "builtins")
        sb._stop_mocking(c1)
        after = _snapshot()
        res["stopPopsStdout"] = res["startPushesStdout"] - len(sb._current_stdout)
        res["stopPopsPatches"] = res["startPushesPatches"] - len(sb._current_patches)
        restored = all(_same(before, after, k) for k in ("stdout", "sleep", "modules", "trace"))
        builtins_ok = other_mid and _same(before, after, "builtins")
        # nested
        if restored and not sb._current_patches and not sb._current_stdout:
            c2, c3 = ctx(), ctx()
            sb._start_mocking(c2)
            sb._start_mocking(c3)
            sb._stop_mocking(c3)
            sb._stop_mocking(c2)
            after2 = _snapshot()
            restored = restored and all(_same(before, after2, k) for k in ("stdout", "sleep", "modules", "trace"))
            restored = restored and not sb._current_patches and not sb._current_stdout
            builtins_ok = builtins_ok and _same(before, after2, "builtins")
        res["stopRestores"] = restored
        # empty stacks
        for _ in range(8):               # bounded: a `_stop_patches` that never pops must not hang the check
            if not sb._current_patches:
                break
            sb._stop_patches()
        del sb._current_patches[:]
        sb._current_stdout.clear()
        try:
            sb._stop_patches()
            res["stopPatchesEmptyRaises"] = False
        except Exception:
            res["stopPatchesEmptyRaises"] = True
        try:
            sb._stop_mocking(ctx())
            res["popStdoutEmptyRaises"] = False
        except Exception:
            res["popStdoutEmptyRaises"] = True
        d = {}
        Sandbox._reset_builtins(d)
        fresh = (d.get("__builtins__") is not builtins.__dict__ and d.get("__builtins__") is not mocked._default_builtins
                 and isinstance(d.get("__builtins__"), dict))
        d2 = {}
        Sandbox._reset_builtins(d2)
        fresh = fresh and d2["__builtins__"] is not d["__builtins__"]
        res["builtinsPrivate"] = bool(fresh and builtins_ok)
    finally:
        # never leave the translator's own process patched
        for _ in range(8):
            try:
                sb._stop_patches()
            except Exception:
                break
        sys.stdout = before["stdout"]
        time.sleep = before["sleep"]
        # ... nor the module table (a tree whose nested start/stop does not restore would otherwise leave pedal's
        # mocked / blocked modules in THIS process and break everything the check does afterwards)
        for k in list(sys.modules):
            if k not in before["modules"]:
                del sys.modules[k]
        for k, v in before["modules"].items():
            if sys.modules.get(k) is not v:
                sys.modules[k] = v
    return res


PROBE_THREADS = ["thread", "pool", "dummy", "timer"]


def probe_mocking_on_threads(main):
    """`_start_mocking; _stop_mocking` (single and nested) once more on every kind of thread a grader can find
    itself on: a plain threading.Thread, a pool worker, a thread `threading` did not start, a Timer.  The borrowed
    globals are process wide and `_stop_mocking` consults the current thread (the finish claim of a timed execution):
    what the probe measures must not depend on the thread.
    -> ([(kind, same as on the main thread and restoring)], {kind: what was seen})"""
    import sandboxexec_common as sx
    seen = {}
    verdicts = []
    for kind in PROBE_THREADS:
        try:
            res = sx.on_grader_thread(kind, probe_mocking)
            same = all(res.get(k) == main.get(k) for k in main)
            seen[kind] = "as on the main thread" if same else {k: res.get(k) for k in main if res.get(k) != main.get(k)}
            verdicts.append((kind, bool(res.get("stopRestores")) and same))
        except BaseException as e:      # noqa - the probe itself failed there: nothing was restored
            seen[kind] = "probe raised %s: %s" % (type(e).__name__, str(e)[:120])
            verdicts.append((kind, False))
    return verdicts, seen


def _instantiate(cls):
    for args in (("probe",), ()):
        try:
            return cls(*args)
        except BaseException:       # noqa
            continue
    return None


_SWALLOW_CACHE = {}


def probe_tracer_swallows():
    """Which (tracer style, exception class) pairs does the tracer's `with` block NOT let through?  The model treats
    `with self.trace.as_filename(...): exec(...)` as transparent: what the code raises is what `_execute`'s handlers
    see.  Probed for every exception class the sandbox's own code names and all their bases (read from the tree under
    test, sandboxexec_special.special_classes), raised inside the `with` entered once and re-entered (as `_import`
    does), around a pre-installed trace function.  -> [(style, class name, "swallowed" | "replaced by X")]"""
    from pedal.sandbox.tracer import TRACER_STYLES
    import sandboxexec_special as sp
    import pedal
    cache_key = os.path.abspath(pedal.__file__)
    if cache_key in _SWALLOW_CACHE:
        return list(_SWALLOW_CACHE[cache_key])

    def dummy(frame, event, arg):
        return None
    out = []
    old = sys.gettrace()
    try:
        for name in sorted(TRACER_STYLES):
            for rec in sp.special_classes():
                cls = rec["cls"]
                for nested in (False, True):
                    exc = _instantiate(cls)
                    if exc is None:
                        break
                    try:
                        tr = TRACER_STYLES[name]()
                    except Exception:
                        break
                    verdict = None
                    sys.settrace(dummy)
                    try:
                        with tr.as_filename("answer.py", "x = 1\n"):
                            if not nested:
                                raise exc
                            with tr.as_filename("helper.py", "y = 2\n"):
                                raise exc
                            verdict = "swallowed"           # only reached when the inner `with` suppressed it
                    except BaseException as seen:       # noqa
                        if seen is not exc:
                            verdict = "replaced by " + type(seen).__name__
                    else:
                        verdict = "swallowed"
                    finally:
                        sys.settrace(None)
                    if verdict is not None:
                        item = (name, cls.__name__, verdict)
                        if item not in out:
                            out.append(item)
    finally:
        sys.settrace(old)
    _SWALLOW_CACHE[cache_key] = list(out)
    return out


def probe_tracers():
    from pedal.sandbox.tracer import TRACER_STYLES

    def dummy(frame, event, arg):
        return None
    out = []
    old = sys.gettrace()
    try:
        for name in sorted(TRACER_STYLES):
            installs, restores, nested_ok = False, True, True
            for nested in (False, True):
                for raising in (False, True):
                    try:
                        tr = TRACER_STYLES[name]()
                    except Exception:
                        installs, restores, nested_ok = False, False, False
                        break
                    sys.settrace(dummy)
                    inside = None
                    try:
                        with tr.as_filename("answer.py", "x = 1\n"):
                            inside = sys.gettrace()
                            if nested:
                                # what Sandbox._import does when the running code imports another student file
                                with tr.as_filename("helper.py", "y = 2\n"):
                                    if raising:
                                        raise KeyError("probe")
                            elif raising:
                                raise KeyError("probe")
                    except KeyError:
                        pass
                    except Exception:
                        # the style cannot be re-entered at all
                        if nested:
                            nested_ok = False
                        else:
                            restores = False
                    after = sys.gettrace()
                    sys.settrace(None)
                    installs = installs or (inside is not dummy)
                    if nested:
                        nested_ok = nested_ok and (after is dummy)
                    else:
                        restores = restores and (after is dummy)
            out.append((name, installs, restores, restores and nested_ok))
    finally:
        sys.settrace(old)
    return out


def _raise_through(files_lines, exc_code="raise ValueError('probe')"):
    """Build a real traceback whose frames are (filename, line) in order; the innermost frame raises."""
    ns = {}
    prev = None
    for idx, (fname, line) in enumerate(reversed(files_lines)):
        body = exc_code if prev is None else "%s()" % prev
        name = "f%d" % idx
        src = "\n" * (line - 1) + "def %s(): %s\n" % (name, body)
        exec(compile(src, fname, "exec"), ns)
        prev = name
    try:
        ns[prev]()
    except BaseException:
        return sys.exc_info()


def probe_line_strategy():
    from pedal.utilities.exceptions import ExpandedTraceback
    lib = os.path.join(os.sep, "usr", "lib", "probe_library.py")
    show, hide = {"answer.py"}, {"instructor.py"}

    def ln(info, exc=None):
        e = exc if exc is not None else info[1]
        return ExpandedTraceback(e, info, False, hide, {}, show, ["x = 1"] * 20,
                                 {"answer.py": ["x = 1"] * 20}).line_number
    obs = []
    obs.append(ln(_raise_through([("answer.py", 2), (lib, 9)])))                      # student -> library
    obs.append(ln(_raise_through([("instructor.py", 1), ("answer.py", 3), (lib, 9)])))  # call -> student -> library
    obs.append(ln(_raise_through([("instructor.py", 1), (lib, 9)])))                  # instructor -> library
    try:
        compile("x = 1\ny = (\n", "answer.py", "exec")
    except SyntaxError:
        info = sys.exc_info()
    obs.append(ln(info))                                                              # compile failure
    if obs[:3] == [9, 9, 9] and obs[3] != 2:
        return "lastAny", obs
    if obs == [2, 3, 1, 2]:
        return "studentFirst", obs
    return "unknown", obs


def probe_hazards():
    """Which exception-object hazards make Sandbox.run raise instead of returning."""
    from pedal.core.report import MAIN_REPORT
    from pedal.core.commands import clear_report, contextualize_report
    from pedal.sandbox import commands
    unguarded = []
    keep_out, keep_sleep = sys.stdout, time.sleep
    for hz in HAZARDS:
        clear_report()
        contextualize_report(HAZARD_PROGRAMS[hz])
        try:
            commands.run()
        except BaseException:
            unguarded.append(hz)
        finally:
            sb = commands.get_sandbox()
            for _ in range(4):
                try:
                    sb._stop_patches()
                except Exception:
                    break
            sys.stdout, time.sleep = keep_out, keep_sleep
    clear_report()
    return unguarded


def probe_blocked():
    from pedal.core.report import Report
    from pedal.core.submission import Submission
    from pedal.sandbox.sandbox import Sandbox
    from pedal.sandbox import mocked
    report = Report()
    report.contextualize(Submission(main_code="x = 1\n"))
    sb = Sandbox(report)
    over = sb._module_overrides
    out = []

    def record(name, thunk):
        try:
            thunk()
            out.append((name, "-", False, False))
        except BaseException as e:
            out.append((name, type(e).__name__, isinstance(e, Exception), isinstance(e, SystemExit)))
    for name, value in sorted(over.get("__builtins__", {}).items()):
        if value is False:
            record(name, lambda n=name: mocked.disabled_builtin(n)())
    opener = over.get("__builtins__", {}).get("open")
    if callable(opener):
        record("open:.py", lambda: opener("secret.py"))
        record("open:write", lambda: opener("data.txt", "w"))
    importer = over.get("__builtins__", {}).get("__import__")
    if callable(importer):
        record("import:pedal", lambda: importer("pedal"))
        record("import:pedal.sub", lambda: importer("pedal.core.report"))
    if "pedal" in over and over["pedal"] is not True:
        record("module:pedal", lambda: over["pedal"].anything)
    sb.block_module("verif_probe_blocked_module")
    record("module:block_module()", lambda: over["verif_probe_blocked_module"].anything)
    return out


# --------------------------------------------------------------------------

def acts(xs):
    return lean_list(["." + a for a in xs])


def generate():
    """-> (text of the generated Lean file, info) - nothing is written"""
    use_repo()
    from pedal.sandbox.sandbox import Sandbox
    from pedal.sandbox.feedbacks import EXCEPTION_FF_MAP, runtime_error
    import pedal.sandbox.sandbox as sandbox_module
    import sandboxexec_ladder as ladder
    mock = probe_mocking()
    thread_verdicts, mock_threads = probe_mocking_on_threads(mock)
    module_src = inspect.getsource(sandbox_module)
    parts, notes, ladder_info = ladder.build_ladder(module_src, mock, module_obj=sandbox_module,
                                                    module_file=inspect.getsourcefile(sandbox_module))
    class_methods = ladder.Reader(module_src).methods
    imp = walk_import(inspect.getsource(Sandbox._import), class_methods)
    tracers = probe_tracers()
    swallows = probe_tracer_swallows()
    strategy, strategy_obs = probe_line_strategy()
    unguarded = probe_hazards()
    blocked = probe_blocked()
    ffmap = sorted((k.__name__, v.__name__) for k, v in EXCEPTION_FF_MAP.items())
    generic = runtime_error.__name__
    category = str(runtime_error.category)

    def b(x):
        return "true" if x else "false"
    handlers = lean_list(["{ catches := .%s, body := %s }" % (c, acts(body)) for c, body in parts["handlers"]])
    lines = [
        "/- GENERATED by harness/translate_sandbox.py from the tree under test. Do not edit. -/",
        "import PedalModel.SandboxExecTypes",
        "namespace Pedal.Gen.SandboxExec",
        "open Pedal.SandboxExec",
        "",
        "-- ladder: %s; measurement: %s; cross-check: %s" % (
            ladder_info["source"], ladder_info["measured"], ladder_info["cross_check"]),
        "/-- `Sandbox._execute` (non-threaded path): read from its AST by meaning (locals followed, helpers inlined,",
        "    tuple / isinstance handlers expanded into clauses) and cross-checked against the measured behaviour of",
        "    the real function (harness/sandboxexec_ladder.py). -/",
        "def executeDef : ExecuteDef :=",
        "  { pre := %s," % acts(parts["pre"]),
        "    body := %s," % acts(parts["body"]),
        "    handlers := %s," % handlers,
        "    orelse := %s," % acts(parts["orelse"]),
        "    final := %s," % acts(parts["final"]),
        "    post := %s }" % acts(parts["post"]),
    ]
    for n in notes:
        lines.append("-- translator note: " + n.replace("\n", " "))
    lines += [
        "",
        "/-- `Sandbox._import` (another student file imported while `_execute` runs), from its AST. -/",
        "def importDef : ImportDef :=",
        "  { reentersTracer := %s, hasHandlers := %s, touchesMocking := %s }" % (
            b(imp["reentersTracer"]), b(imp["hasHandlers"]), b(imp["touchesMocking"])),
        "",
        "/-- `_start_mocking` / `_stop_mocking` / `_stop_patches` / `_reset_builtins`, probed on a fresh Sandbox (on the",
        "    main thread). -/",
        "def mockProbe : MockProbe :=",
        "  { startPushesStdout := %d, startPushesPatches := %d," % (mock["startPushesStdout"], mock["startPushesPatches"]),
        "    patchesStdout := %s, patchesSleep := %s, patchesModules := %s," % (
            b(mock["patchesStdout"]), b(mock["patchesSleep"]), b(mock["patchesModules"])),
        "    stopPopsStdout := %d, stopPopsPatches := %d, stopRestores := %s," % (
            max(0, mock["stopPopsStdout"]), max(0, mock["stopPopsPatches"]), b(mock["stopRestores"])),
        "    stopPatchesEmptyRaises := %s, popStdoutEmptyRaises := %s, builtinsPrivate := %s }" % (
            b(mock["stopPatchesEmptyRaises"]), b(mock["popStdoutEmptyRaises"]), b(mock["builtinsPrivate"])),
        "",
        "/-- The same probe repeated with the caller on every other kind of thread a grader can run on (a plain",
        "    threading.Thread, a pool worker, a thread `threading` did not start, a Timer): does it measure the same as on",
        "    the main thread, restoring everything?  Seen: %s. -/" % ", ".join(
            "%s: %s" % (k, v) for k, v in sorted(mock_threads.items())).replace("-/", "- /").replace("/-", "/ -"),
        "def mockProbeOnThread : List (String × Bool) := " + lean_list(
            ["(%s, %s)" % (lean_str(k), b(v)) for k, v in thread_verdicts]),
        "",
        "/-- `TRACER_STYLES`, each probed around a pre-installed trace function (normal and raising exit; entered",
        "    once, and re-entered inside its own `with` as `_import` does). -/",
        "def traceStyles : List TraceStyle := " + lean_list(
            ["{ name := %s, installs := %s, restores := %s, restoresNested := %s }" % (lean_str(n), b(i), b(r), b(rn))
             for n, i, r, rn in tracers]),
        "",
        "/-- (tracer style, exception class) pairs that the tracer's `with` block does not let through unchanged,",
        "    probed for every exception class the sandbox's own code names and their bases (%d classes). -/" % (
            len(__import__("sandboxexec_special").special_classes())),
        "def tracerSwallows : List (String × String) := " + lean_list(
            ["(%s, %s)" % (lean_str(st), lean_str(c)) for st, c, _ in swallows]),
        "",
        "/-- Exception-object hazards that make `Sandbox.run` raise (one probe program each). -/",
        "def unguarded : List Hazard := " + lean_list(["." + h for h in unguarded]),
        "",
        "/-- `ExpandedTraceback.line_number` on four crafted tracebacks: %s -/" % (strategy_obs,),
        "def lineStrategy : LineStrategy := ." + strategy,
        "",
        "/-- `EXCEPTION_FF_MAP`: exact class name of the key ↦ feedback label. -/",
        "def ffMap : List (String × String) := " + lean_list(
            ["(%s, %s)" % (lean_str(k), lean_str(v)) for k, v in ffmap]),
        "def genericLabel : String := " + lean_str(generic),
        "def runtimeCategory : String := " + lean_str(category),
        "",
        "/-- Default blocked builtins, restricted `open`/`import`, blocked modules: what using each raises. -/",
        "def blocked : List Blocked := " + lean_list(
            ["{ name := %s, raisesCls := %s, isException := %s, isSystemExit := %s }" % (
                lean_str(n), lean_str(c), b(e), b(s)) for n, c, e, s in blocked]),
        "",
        "end Pedal.Gen.SandboxExec",
        "",
    ]
    src = "\n".join(lines)
    return src, {"file": "PedalModel/Gen/SandboxExecGen.lean", "sha1": hashlib.sha1(src.encode()).hexdigest()[:12],
                 "notes": notes, "unguarded": unguarded, "line_strategy": strategy,
            "tracers": tracers, "tracer_swallows": swallows, "mock_probe_on_threads": mock_threads,
            "import": imp, "ladder": ladder_info}


def translate():
    src, info = generate()
    path = os.path.join(LEAN_DIR, "PedalModel", "Gen", "SandboxExecGen.lean")
    info["changed"] = write_if_changed(path, src)
    return info


if __name__ == "__main__":
    if "--dry" in sys.argv:                  # print the generated definition of the ladder, write nothing
        text, meta = generate()
        print(text[text.index("-- ladder:"):text.index("/-- `Sandbox._import`")])
        print(meta["import"], meta["ladder"])
    else:
        print(translate())

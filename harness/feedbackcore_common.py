"""
C20 harness core: sessions of feedback constructions / overrides / clears run on REAL pedal, the same
sessions written for the Lean model (driver_c20), and the property oracle written from the C20 text.

A *case* (JSON-able; stored literally in replays):

  {"classes": [{"name": "U0", "base": "gently" | "U1" | ..., "group": bool,
                "attrs": {"title": "T", "message_template": "x {a:name}", "constant_fields": {"k": <val>}, ...},
                "cond": "default" | "true" | "false" | "truthy" | "falsy" | "raise:KeyError",
                "msg":  "default" | "ret:<text>" | "retnone" | "raise:ValueError"}],
   "ops": [{"op": "setformatter", "name": "Html"},
           {"op": "new", "cls": "U0", "args": [...], "kw": {...}, "parent": null | {"scalar": 3} | {"group": <k>}},
           {"op": "handle", "target": <k>}, {"op": "override", "cls": "gently", "fields": {"title": "X"}},
           {"op": "clear"}, {"op": "start", "parent": ...}, {"op": "stop", "parent": ...}]}

`<k>` is the index (0-based) of the k-th feedback object created in the session.
Field values are JSON values: str, int, null, list, or {"obj": {"line": 3}} (an object with attributes).
"""
import gc
import json
import string
import types

from common import enc_str, enc_opt, enc_bool, dec_str, dec_opt, parse_kv, use_repo

use_repo()

from pedal.core import feedback as fb_mod                     # noqa: E402
from pedal.core import formatting                             # noqa: E402
from pedal.core.feedback import Feedback, FeedbackGroup, FeedbackResponse   # noqa: E402
from pedal.core.report import MAIN_REPORT, Report             # noqa: E402
from pedal.core import commands                               # noqa: E402

TAG_OPEN, TAG_SEP, TAG_CLOSE = "\ue000", "\ue001", "\ue002"

#: class attributes the model knows about (everything Feedback.__init__/_get_* read from the class)
RELEVANT = ["title", "message", "message_template", "else_message", "else_message_template", "justification",
            "justification_template", "constant_fields", "field_names"]
#: attributes that override() may target in generated cases (RELEVANT + ones the model treats as opaque tokens)
OVERRIDABLE = RELEVANT + ["priority", "muted", "category"]


def base_classes():
    from pedal.sandbox import feedbacks as sf
    out = {"Feedback": Feedback, "FeedbackResponse": FeedbackResponse, "FeedbackGroup": FeedbackGroup,
           "gently": commands.gently, "explain": commands.explain, "compliment": commands.compliment,
           "give_partial": commands.give_partial, "set_correct": commands.set_correct,
           "guidance": commands.guidance, "system_error": commands.system_error,
           "runtime_error": sf.runtime_error, "type_error": sf.type_error, "name_error": sf.name_error}
    return out


# ---------------------------------------------------------------------------------------------
# formatters

class TaggingFormatter(formatting.Formatter):
    """Every method wraps its argument visibly; `shout` is an extra format, listed FIRST."""
    available = ["shout"] + list(formatting.Formatter.available)

    def shout(self, v):
        return "<<" + str(v).upper() + ">>"


def _tagger(name):
    def method(self, v, *a):
        return "<%s|%s>" % (name, v)
    return method


for _n in formatting.Formatter.available:
    if isinstance(_n, str):
        setattr(TaggingFormatter, _n, _tagger(_n))


class RaisingFormatter(formatting.Formatter):
    def exception(self, v):
        raise ValueError("formatter refuses")

    def name(self, v):
        return 42          # a non-string result: int.__format__ takes over


FORMATTERS = {"Formatter": formatting.Formatter, "Html": formatting.HtmlFormatter, "Text": formatting.TextFormatter,
              "Tagging": TaggingFormatter, "Raising": RaisingFormatter}


# ---------------------------------------------------------------------------------------------
# values

class Values:
    """token <-> Python object table of one session"""

    def __init__(self):
        self.objs = []
        self.by_json = {}

    def make(self, j):
        """JSON description -> (token, object); equal descriptions share one object"""
        key = repr(j)
        if j is None:
            return "None", None
        if key in self.by_json:
            return self.by_json[key]
        if isinstance(j, dict) and "obj" in j:
            o = types.SimpleNamespace(**j["obj"])
        else:
            o = j
        tok = "t%d" % len(self.objs)
        self.objs.append(o)
        self.by_json[key] = (tok, o)
        return tok, o

    def token_of(self, o):
        if o is None:
            return "None"
        for i, x in enumerate(self.objs):
            if x is o:
                return "t%d" % i
        for i, x in enumerate(self.objs):
            if type(x) is type(o) and x == o:
                return "t%d" % i
        return "?%s" % type(o).__name__

    def get(self, tok):
        if tok == "None":
            return None
        return self.objs[int(tok[1:])]


# ---------------------------------------------------------------------------------------------
# templates

def parse_template(t):
    """CPython's own template grammar -> list of segments, or None if outside the modelled subset
    (nested replacement fields, positional fields)."""
    segs = []
    try:
        parts = list(string.Formatter().parse(t))
    except ValueError:
        return None
    for lit, field, spec, conv in parts:
        if lit:
            segs.append(("L", lit))
        if field is None:
            continue
        if spec is None:
            spec = ""
        if "{" in spec or "}" in spec:
            return None
        i = len(field)
        for j, ch in enumerate(field):
            if ch in ".[":
                i = j
                break
        name, acc = field[:i], field[i:]
        if name == "" or name.isdigit():
            return None
        segs.append(("F", name, acc, conv or "", spec))
    return segs


def enc_template(t):
    segs = parse_template(t)
    if segs is None:
        raise ValueError("template outside the modelled subset: %r" % (t,))
    out = ["T", str(len(segs))]
    for s in segs:
        if s[0] == "L":
            out += ["L", enc_str(s[1])]
        else:
            out += ["F", enc_str(s[1]), enc_str(s[2]), enc_str(s[3]), enc_str(s[4])]
    return " ".join(out)


def enc_opt_template(t):
    return "-" if t is None else enc_template(t)


def resolve_accessor(v, acc):
    """what str.format does with `.attr` / `[idx]` after the field name (through FeedbackFieldWrapper)"""
    i = 0
    while i < len(acc):
        if acc[i] == ".":
            j = i + 1
            while j < len(acc) and acc[j] not in ".[":
                j += 1
            v = getattr(v, acc[i + 1:j])
            i = j
        elif acc[i] == "[":
            j = acc.index("]", i)
            key = acc[i + 1:j]
            v = v[int(key)] if key.isdigit() else v[key]
            i = j + 1
        else:
            raise ValueError("bad accessor")
    return v


# ---------------------------------------------------------------------------------------------
# running a session on real pedal

class Session:
    def __init__(self, case):
        self.case = case
        self.values = Values()
        self.classes = {}          # name -> class object (bases + generated)
        self.generated = []
        self.objects = []          # every Feedback whose base __init__ started, in order
        self.captured = []         # (self, kwargs at the base boundary, instance dict at entry)
        self.child_log = []
        #: the report every op of the session addresses: the global one or a separate Report()
        self.report = MAIN_REPORT if case.get("report", "main") == "main" else Report()
        self.formatters = {"default": formatting.Formatter()}
        self.fmt_epoch = 0
        self.current_fmt = "default"

    # -- class construction ------------------------------------------------------------------
    def build_classes(self):
        self.classes = dict(base_classes())
        sess = self
        for cd in self.case.get("classes", []):
            base = self.classes[cd["base"]]
            body = {}
            for a, v in cd.get("attrs", {}).items():
                if a == "constant_fields" and v is not None:
                    body[a] = {k: self.values.make(x)[1] for k, x in v.items()}
                else:
                    body[a] = v
            cond, msg = cd.get("cond", "default"), cd.get("msg", "default")
            if cond != "default":
                body["condition"] = _make_condition(cond)
            if msg != "default":
                body["_get_message"] = _make_get_message(msg)
            if cd.get("group"):
                def _get_child_feedback(self, feedback, active):
                    sess.child_log.append((self, feedback, active))
                body["_get_child_feedback"] = _get_child_feedback
            cls = type(cd["name"], (base,), body)
            self.classes[cd["name"]] = cls
            self.generated.append(cd["name"])
        # the class table is what the classes look like BEFORE any op of the session runs
        self.class_table_before = self.class_table()
        self.attrs0 = self.attr_snapshot()

    def class_outcomes(self, cls):
        """(cond, msg) description for the model: the nearest generated class in the MRO that defines them"""
        cond = msg = "default"
        by_obj = {self.classes[n]: n for n in self.generated}
        decl = {cd["name"]: cd for cd in self.case.get("classes", [])}
        for k in cls.__mro__:
            n = by_obj.get(k)
            if n is None:
                continue
            if cond == "default" and decl[n].get("cond", "default") != "default":
                cond = decl[n]["cond"]
            if msg == "default" and decl[n].get("msg", "default") != "default":
                msg = decl[n]["msg"]
        return cond, msg

    # -- the class table for the model ------------------------------------------------------
    def class_name(self, k):
        for n, c in self.classes.items():
            if c is k:
                return n
        return k.__module__ + "." + k.__qualname__

    def aval(self, attr, v):
        if v is None:
            return "AN"
        if attr in ("message_template", "else_message_template", "justification_template") and isinstance(v, str):
            if parse_template(v) is None:
                return "AK " + enc_str(self.values.token_of(v))
            return "AT %s %s" % (enc_str(v), enc_template(v))
        if attr == "constant_fields" and isinstance(v, dict):
            items = ["%s %s" % (enc_str(k), enc_str(self.values.token_of(x))) for k, x in v.items()]
            return " ".join(["AF", str(len(items))] + items)
        if attr == "field_names" and isinstance(v, (list, tuple)):
            return " ".join(["AM", str(len(v))] + [enc_str(x) for x in v])
        if isinstance(v, str):
            return "AS " + enc_str(v)
        tok = self.values.token_of(v)
        if tok.startswith("?"):
            tok, _ = self.values.make({"opaque": repr(v)})
        return "AK " + enc_str(tok)

    def class_table(self):
        seen, decls = set(), []
        for n, cls in self.classes.items():
            for k in cls.__mro__:
                if k is object or k in seen:
                    continue
                seen.add(k)
                mro = [self.class_name(x) for x in k.__mro__ if x is not object]
                attrs = []
                for a in RELEVANT + [x for x in OVERRIDABLE if x not in RELEVANT]:
                    if a in k.__dict__:
                        attrs.append("%s %s" % (enc_str(a), self.aval(a, k.__dict__[a])))
                decls.append(" ".join([enc_str(self.class_name(k)), str(len(mro))] + [enc_str(m) for m in mro]
                                      + [str(len(attrs))] + attrs))
        return decls

    # -- operations ---------------------------------------------------------------------------
    def parent_obj(self, p):
        if p is None:
            return None
        if "scalar" in p:
            return p["scalar"]
        return self.objects[p["group"]]

    def run(self):
        """Executes the ops on real pedal; returns the list of observations (one per op) and the final lists."""
        obs = []
        orig_init = Feedback.__init__
        sess = self

        def spy(self_, *args, **kwargs):
            sess.objects.append(self_)
            sess.captured.append((self_, args, dict(kwargs), dict(vars(self_))))
            return orig_init(self_, *args, **kwargs)

        def log_child(self_, feedback, active):
            sess.child_log.append((self_, feedback, active))

        orig_child = Feedback._get_child_feedback
        saved = snapshot_class_state(self.classes.values())
        MAIN_REPORT.clear()
        R = self.report
        Feedback.__init__ = spy
        Feedback._get_child_feedback = log_child
        try:
            for op in self.case["ops"]:
                obs.append(self.run_op(op))
            final = {"feedback": [self.obj_id(f) for f in R.feedback],
                     "ignored": [self.obj_id(f) for f in R.ignored_feedback],
                     "stray": (len(MAIN_REPORT.feedback) + len(MAIN_REPORT.ignored_feedback)) if R is not MAIN_REPORT else 0,
                     "childlog": [(self.obj_id(g), self.obj_id(c), bool(a)) for g, c, a in self.child_log]}
        finally:
            Feedback.__init__ = orig_init
            Feedback._get_child_feedback = orig_child
            for rep in (R, MAIN_REPORT):
                try:
                    rep.clear()
                except Exception:       # noqa: BLE001
                    pass
            restore_class_state(saved)
        return obs, final

    def attr_snapshot(self):
        return {(n, a): getattr(cls, a, _ABSENT) for n, cls in self.classes.items() for a in OVERRIDABLE}

    def attr_diff(self):
        now = self.attr_snapshot()
        return sorted("%s.%s" % k for k, v in self.attrs0.items() if now[k] is not v and now[k] != v)

    def obj_id(self, f):
        for i, o in enumerate(self.objects):
            if o is f:
                return i
        return -1

    def observe(self, o, raised):
        d = vars(o)
        parent = getattr(o, "parent", None)
        if parent is None:
            p = "PN"
        elif isinstance(parent, (int, str)):
            p = "PS" + enc_str(repr(parent))
        else:
            p = "PG%d" % self.obj_id(parent)
        fields = getattr(o, "fields", None) or {}
        rep = self.report
        return {"kind": "fb", "id": self.obj_id(o), "met": bool(o) if "_met_condition" in d else None,
                "n_triggered": sum(1 for f in rep.feedback if f is o),
                "n_untriggered": sum(1 for f in rep.ignored_feedback if f is o),
                "status": d.get("_status"), "raised": raised,
                "message": getattr(o, "message", None), "else": getattr(o, "else_message", None),
                "unused": getattr(o, "unused_message", None), "just": getattr(o, "justification", None),
                "title": getattr(o, "title", None), "label": getattr(o, "label", None), "parent": p,
                "fields": {k: self.values.token_of(v) for k, v in fields.items()}}

    def run_op(self, op):
        k = op["op"]
        if k == "new":
            cls = self.classes[op["cls"]]
            kw = {}
            for key, v in op.get("kw", {}).items():
                if key == "fields" and v is not None:
                    kw[key] = {a: self.values.make(x)[1] for a, x in v.items()}
                elif key in ("label", "title", "message", "message_template", "else_message", "else_message_template",
                             "justification", "field_names", "activate", "delay_condition", "category", "priority"):
                    kw[key] = v
                else:
                    kw[key] = self.values.make(v)[1]
            if op.get("parent") is not None:
                kw["parent"] = self.parent_obj(op["parent"])
            if self.report is not MAIN_REPORT:
                kw["report"] = self.report
            n0 = len(self.objects)
            raised = None
            try:
                cls(*op.get("args", []), **kw)
            except Exception as e:      # noqa: BLE001
                raised = type(e).__name__
            if len(self.objects) != n0 + 1:
                return {"kind": "noobj", "raised": raised, "created": len(self.objects) - n0}
            return self.observe(self.objects[n0], raised)
        if k == "handle":
            o = self.objects[op["target"]]
            raised = None
            try:
                o._handle_condition()
            except Exception as e:      # noqa: BLE001
                raised = type(e).__name__
            return self.observe(o, raised)
        if k == "override":
            cls = self.classes[op["cls"]]
            raised = None
            try:
                if self.report is not MAIN_REPORT:
                    cls.override(report=self.report, **op["fields"])
                else:
                    cls.override(**op["fields"])
            except Exception as e:      # noqa: BLE001
                raised = type(e).__name__
            return {"kind": "ov", "raised": raised}
        if k == "clear":
            self.report.clear()
            self.current_fmt = "default"
            return {"kind": "ok", "not_restored": self.attr_diff()}
        if k == "start":
            self.report.start_group(self.parent_obj(op["parent"]))
            return {"kind": "ok"}
        if k == "stop":
            self.report.stop_group(self.parent_obj(op["parent"]))
            return {"kind": "ok"}
        if k == "setformatter":
            self.fmt_epoch += 1
            fid = "%s#%d" % (op["name"], self.fmt_epoch)
            f = FORMATTERS[op["name"]](self.report)
            self.formatters[fid] = f
            self.current_fmt = fid
            self.report.set_formatter(f)
            return {"kind": "ok"}
        if k == "probe":
            cls = self.classes[op["cls"]]
            return {"kind": "pv", "value": probe_value(getattr(cls, op["attr"], _ABSENT))}
        raise ValueError("unknown op " + k)

    # -- the same session for the model ------------------------------------------------------
    def model_request(self, mode, table):
        """Must be called AFTER run() (class table and captured keywords come from the real objects'
        classes and from what reached Feedback.__init__)."""
        toks = ["session", mode, str(len(table))]
        for call, outcome in table:
            toks += [enc_prim(call), outcome[0], enc_str(outcome[1])]
        decls = self.class_table_before
        toks += [str(len(decls))] + decls
        ops = []
        created = 0
        fmt_epoch = 0
        for op, ob in zip(self.case["ops"], self.obs):
            k = op["op"]
            if k == "new":
                if ob["kind"] == "noobj":
                    continue
                ops.append("new " + self.enc_spec(created, op))
                created += 1
            elif k == "handle":
                ops.append("handle %d" % op["target"])
            elif k == "override":
                items = ["%s %s" % (enc_str(a), self.aval(a, v)) for a, v in op["fields"].items()]
                ops.append(" ".join(["override", enc_str(op["cls"]), str(len(items))] + items))
            elif k == "clear":
                ops.append("clear")
            elif k in ("start", "stop"):
                ops.append(k + " " + self.enc_parent(op["parent"]))
            elif k == "setformatter":
                fmt_epoch += 1
                F = FORMATTERS[op["name"]]
                fid = "%s#%d" % (op["name"], fmt_epoch)
                if list(F.available) == list(formatting.Formatter.available):
                    ops.append("setavail %s gen" % enc_str(fid))
                else:
                    ops.append(" ".join(["setavail", enc_str(fid), str(len(F.available))] + [enc_str(a) for a in F.available]))
            elif k == "probe":
                ops.append("probe %s %s" % (enc_str(op["cls"]), enc_str(op["attr"])))
        toks += [str(len(ops))] + ops
        return " ".join(toks)

    def enc_parent(self, p):
        if p is None:
            return "PN"
        if "scalar" in p:
            return "PS " + enc_str(repr(p["scalar"]))
        return "PG %d" % p["group"]

    def enc_spec(self, idx, op):
        o, args, kw, inst = self.captured[idx]
        cls = type(o)
        cond, msg = self.class_outcomes(cls)
        named = {}
        extras = []
        for key, v in kw.items():
            if key in _INIT_NAMED:
                named[key] = v
            else:
                extras.append((key, v))
        def s(key):
            v = named.get(key)
            return enc_opt(v if (v is None or isinstance(v, str)) else repr(v))
        fields = named.get("fields")
        if fields is None:
            fenc = "-"
        else:
            # the dict is aliased by the object and mutated by __init__: take the keys the CALL passed
            src = op.get("kw", {}).get("fields") or {}
            items = ["%s %s" % (enc_str(a), enc_str(self.values.make(x)[0])) for a, x in src.items()]
            fenc = " ".join(["D", str(len(items))] + items)
        names = named.get("field_names")
        nenc = "-" if names is None else " ".join(["M", str(len(names))] + [enc_str(x) for x in names])
        kws = ["%s %s" % (enc_str(a), enc_str(self.values.token_of(v))) for a, v in extras]
        parent = named.get("parent")
        if parent is None:
            penc = "PN"
        elif isinstance(parent, (int, str)):
            penc = "PS " + enc_str(repr(parent))
        else:
            penc = "PG %d" % self.obj_id(parent)
        activate = named.get("activate", True)
        toks = [enc_str(self.class_name(cls)), s("label"), s("title"), s("message"),
                enc_opt_template(named.get("message_template")), s("else_message"),
                enc_opt_template(named.get("else_message_template")), s("justification"), fenc, nenc,
                str(len(kws))] + kws + [enc_bool(bool(activate)), enc_bool(bool(named.get("delay_condition", False))),
                                        penc, enc_cond(cond), enc_msg(msg)]
        return " ".join(toks)


_INIT_NAMED = {"label", "category", "justification", "fields", "field_names", "kind", "title", "message",
               "message_template", "else_message", "else_message_template", "priority", "valence", "location",
               "score", "correct", "muted", "unscored", "tool", "version", "author", "tags", "parent", "report",
               "delay_condition", "activate"}
_ABSENT = object()


def probe_value(v):
    if v is _ABSENT:
        return "-"
    if v is None:
        return "N"
    if isinstance(v, str):
        return "S:" + v
    return "K:" + repr(v)


def _make_condition(kind):
    if kind == "true":
        return lambda self, *a, **k: True
    if kind == "false":
        return lambda self, *a, **k: False
    if kind == "truthy":
        return lambda self, *a, **k: [0]
    if kind == "falsy":
        return lambda self, *a, **k: ""
    if kind.startswith("val:"):
        value = json.loads(kind[4:])
        return lambda self, *a, **k: value
    if kind.startswith("raise:"):
        exc = _exc_class(kind[6:])

        def cond(self, *a, **k):
            raise exc("condition failed")
        return cond
    raise ValueError(kind)


def _make_get_message(kind):
    if kind.startswith("ret:"):
        text = kind[4:]
        return lambda self: text
    if kind == "retnone":
        return lambda self: None
    if kind.startswith("raise:"):
        exc = _exc_class(kind[6:])

        def gm(self):
            raise exc("message failed")
        return gm
    raise ValueError(kind)


def _exc_class(name):
    import builtins
    return getattr(builtins, name)


def cond_truth(kind, activate):
    """the property's notion of 'the condition held' for a generated class"""
    if kind.startswith("val:"):
        return bool(json.loads(kind[4:]))
    return {"default": bool(activate), "true": True, "truthy": True, "false": False, "falsy": False}.get(kind, False)


def enc_cond(kind):
    if kind == "default":
        return "CD"
    if kind in ("true", "truthy"):
        return "CT"
    if kind in ("false", "falsy"):
        return "CF"
    if kind.startswith("val:"):
        return "CT" if json.loads(kind[4:]) else "CF"
    return "CE " + enc_str(kind[6:])


def enc_msg(kind):
    if kind == "default":
        return "MD"
    if kind == "retnone":
        return "MR -"
    if kind.startswith("ret:"):
        return "MR " + enc_str(kind[4:])
    return "ME " + enc_str(kind[6:])


def enc_prim(call):
    if call[0] == "f":
        return "Pf %s %s %s %s %s" % tuple(enc_str(x) for x in call[1:])
    if call[0] == "p":
        return "Pp %s %s %s" % tuple(enc_str(x) for x in call[1:])
    return "Pc %s %s %s %s" % tuple(enc_str(x) for x in call[1:])


# ---------------------------------------------------------------------------------------------
# hygiene: the harness puts every class dictionary back after a case, so one leaking case cannot
# make the next one fail (each case is judged on its own)

_HYGIENE = OVERRIDABLE + ["_override_backups"]


def snapshot_class_state(classes):
    seen, snap = set(), []
    for cls in classes:
        for k in cls.__mro__:
            if k is object or k in seen:
                continue
            seen.add(k)
            snap.append((k, {a: k.__dict__[a] for a in _HYGIENE if a in k.__dict__}))
    pools = dict(Feedback._pools)
    return snap, pools


def restore_class_state(saved):
    snap, pools = saved
    for k, attrs in snap:
        for a in _HYGIENE:
            if a in attrs:
                if k.__dict__.get(a, _ABSENT) is not attrs[a]:
                    setattr(k, a, attrs[a])
            elif a in k.__dict__:
                delattr(k, a)
        if isinstance(k.__dict__.get("_override_backups"), dict):
            k.__dict__["_override_backups"].clear()
    Feedback._pools.clear()
    Feedback._pools.update(pools)
    MAIN_REPORT.pools = []
    MAIN_REPORT.chosen_pool = None


# ---------------------------------------------------------------------------------------------
# oracle evaluation (the real primitives) and the two-phase model run

def split_tags(text):
    """all tags occurring in a phase-1 string"""
    out = []
    i = 0
    while True:
        a = text.find(TAG_OPEN, i)
        if a < 0:
            return out
        b = text.index(TAG_CLOSE, a)
        out.append(tuple(text[a + 1:b].split(TAG_SEP)))
        i = b + 1


def eval_prim(sess, call):
    kind = call[0]
    try:
        if kind == "f":
            _, fid, name, tok, acc, rest = call
            v = resolve_accessor(sess.values.get(tok), acc)
            return ("O", getattr(sess.formatters[fid], name)(v).__format__(rest))
        if kind == "p":
            _, tok, acc, spec = call
            v = resolve_accessor(sess.values.get(tok), acc)
            return ("O", str(v).__format__(spec))
        _, c, tok, acc, spec = call
        v = resolve_accessor(sess.values.get(tok), acc)
        v = {"r": repr, "s": str, "a": ascii}[c](v)
        return ("O", format(v, spec))
    except Exception as e:      # noqa: BLE001
        return ("E", type(e).__name__)


def parse_answer(ans):
    """driver answer -> (list of per-op dicts, final dict) or None for bad-request"""
    if ans.startswith("bad-request"):
        return None
    groups = [g.strip() for g in ans.split(" ; ")]
    out = []
    for g in groups[:-1]:
        head, kv = parse_kv(g)
        if head == "fb":
            fields = {}
            if kv.get("fields"):
                for item in kv["fields"].split(","):
                    a, b = item.split(":")
                    fields[dec_str(a)] = dec_str(b)
            out.append({"kind": "fb", "id": int(kv["id"]), "met": kv["met"] == "1", "status": kv["status"],
                        "raised": dec_opt(kv["raised"]), "message": dec_opt(kv["message"]), "else": dec_opt(kv["else"]),
                        "unused": dec_opt(kv["unused"]), "just": dec_opt(kv["just"]), "title": dec_opt(kv["title"]),
                        "label": dec_str(kv["label"]), "parent": kv["parent"], "fields": fields,
                        "calls": dec_str(kv["calls"]) if "calls" in kv else ""})
        elif head == "ov":
            out.append({"kind": "ov", "raised": dec_opt(kv["raised"])})
        elif head == "pv":
            rest = g[3:]
            if rest == "-":
                v = "-"
            elif rest == "N":
                v = "N"
            elif rest[0] == "S":
                v = "S:" + dec_str(rest[1:])
            else:
                v = rest
            out.append({"kind": "pv", "value": v})
        else:
            out.append({"kind": head})
    head, kv = parse_kv(groups[-1])
    ids = lambda s: [int(x) for x in s.split(",")] if s else []      # noqa: E731
    log = []
    if kv.get("childlog"):
        for item in kv["childlog"].split(","):
            g, i, b = item.split(":")
            log.append((int(g), int(i), b == "1"))
    return out, {"feedback": ids(kv.get("feedback", "")), "ignored": ids(kv.get("ignored", "")), "childlog": log}


def all_strings(model_ops):
    for m in model_ops:
        if m.get("kind") == "fb":
            if m.get("calls"):
                yield m["calls"]


def run_sessions(driver, cases, chunk=400):
    """Runs every case on real pedal and (two-phase) on the model.  Returns list of
    (case, None, real_obs, real_final, model_ops, model_final, n_oracle_entries);
    model_* is None on bad-request.  Works in chunks and drops the generated classes of finished
    chunks (every assignment to a Feedback attribute walks all live subclasses)."""
    out = []
    for start in range(0, len(cases), chunk):
        out.extend(_run_chunk(driver, cases[start:start + chunk]))
        gc.collect()
    return out


def _run_chunk(driver, cases):
    sessions = []
    for case in cases:
        s = Session(case)
        s.build_classes()
        s.obs, s.final = s.run()
        sessions.append(s)
    phase1 = driver.ask([s.model_request("sym", []) for s in sessions])
    tables = []
    for s, ans in zip(sessions, phase1):
        parsed = parse_answer(ans)
        table = []
        if parsed is not None:
            seen = set()
            for text in all_strings(parsed[0]):
                for call in split_tags(text):
                    if call not in seen:
                        seen.add(call)
                        table.append((call, eval_prim(s, call)))
        tables.append(table)
    phase2 = driver.ask([s.model_request("tab", t) for s, t in zip(sessions, tables)])
    out = []
    for s, ans, t in zip(sessions, phase2, tables):
        parsed = parse_answer(ans)
        out.append((s.case, None, s.obs, s.final, parsed[0] if parsed else None, parsed[1] if parsed else None, len(t)))
    return out


# ---------------------------------------------------------------------------------------------
# comparison

def compare(case, real_obs, real_final, model_ops, model_final):
    """list of human-readable differences (empty = agree)"""
    if model_ops is None:
        return ["model: bad-request"]
    diffs = []
    ri = [o for o in real_obs if o["kind"] != "noobj"]
    if len(ri) != len(model_ops):
        return ["op count real=%d model=%d" % (len(ri), len(model_ops))]
    for i, (r, m) in enumerate(zip(ri, model_ops)):
        if r["kind"] != m["kind"]:
            diffs.append("op%d kind real=%s model=%s" % (i, r["kind"], m["kind"]))
            continue
        if r["kind"] == "fb":
            # what the C20 statement talks about; title / label / justification / unused_message are carried for
            # the replay print-outs but a change to them alone is not a C20 matter
            for key in ("id", "met", "status", "raised", "message", "else", "parent"):
                rv, mv = r[key], m[key]
                if key == "met" and rv is None:
                    rv = False
                if key == "status" and rv is None:
                    rv = "<unset>"
                if rv != mv:
                    diffs.append("op%d %s real=%r model=%r" % (i, key, rv, mv))
            if dict(r["fields"]) != dict(m["fields"]):
                diffs.append("op%d fields real=%r model=%r" % (i, r["fields"], m["fields"]))
        elif r["kind"] == "ov":
            if r["raised"] != m["raised"]:
                diffs.append("op%d override raised real=%r model=%r" % (i, r["raised"], m["raised"]))
        elif r["kind"] == "pv":
            rv, mv = r["value"], m["value"]
            if rv.startswith("K:") or mv.startswith("K") or mv.startswith("T") or mv.startswith("F") or mv.startswith("M"):
                continue        # opaque values: identity is checked by the search oracle, not through the wire
            if rv != mv:
                diffs.append("op%d probe real=%r model=%r" % (i, rv, mv))
    for key in ("feedback", "ignored"):
        if real_final[key] != model_final[key]:
            diffs.append("final %s real=%r model=%r" % (key, real_final[key], model_final[key]))
    if real_final.get("stray"):
        diffs.append("%d objects recorded in MAIN_REPORT although every call named another report" % real_final["stray"])
    if sorted(real_final["childlog"]) != sorted(model_final["childlog"]):
        diffs.append("final childlog real=%r model=%r" % (real_final["childlog"], model_final["childlog"]))
    return diffs

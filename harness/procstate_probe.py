"""
C13, measurements for the translator (harness/translate_procstate.py).

Where a table entry is a fact about what a function DOES (not how it is written), the translator reads the AST
first and - as cross-check, and as fallback when the AST has a shape it does not understand - MEASURES the fact
here on fresh objects of the tree under test:

* `init_fields()`            vars(Report()) -> (name, Kind of the value)
* `clear_behaviour()`        for every field: dirty it (alone / all together / seeded subsets), call clear(), see
                             whether it is as __init__ made it and whether the container object was kept
                             (`.clearCall`) or replaced (`.assign kind`); register probe classes through
                             override_feedback (two of them with the SAME __name__) and see whether each one had its
                             _restore_overrides() called while the report still knew it
* `method_dirties()`         call every Report method we have a recipe for on a fresh report and list the fields
                             that changed
* `lazy_tool_reset()`        report[t] resets a tool that is missing from the tool data - and only then
* `override_facts()`         override() down a class hierarchy / failing half-way / two classes with one name /
                             override_for_pool(), then clear(): everything is as the classes defined it
* `env_clears_first()`       Environment(report=dirty report) has put everything back by the time it contextualises
* `tifa_reset_rebuilds()`    what an analysed program added to a builtin module is gone after clear() + report['tifa']

Every function returns None (or leaves the entry out) when the measurement itself could not be made: the caller
then keeps what the AST said.  Nothing here touches MAIN_REPORT; class-level state (Feedback._pools, the tool
registry, BUILTIN_MODULES) is put back.
"""
import random

from common import use_repo

use_repo()


def _report_cls():
    from pedal.core.report import Report
    return Report


def kind_of_value(v):
    """-> Lean term of type Kind for a value found in a fresh report"""
    from common import lean_str
    if v is None:
        return ".none"
    if type(v) is dict and not v:
        return ".dict"
    if type(v) is list and not v:
        return ".list"
    if type(v) is set and not v:
        return ".set"
    if isinstance(v, (bool, int, float, str, bytes, tuple, frozenset)):
        return ".ctor " + lean_str("const " + repr(v))
    if isinstance(v, (dict, list, set)):
        return ".opaque " + lean_str(repr(v)[:60])
    return ".ctor " + lean_str(type(v).__name__)


def init_fields():
    try:
        return [(f, kind_of_value(v)) for f, v in vars(_report_cls()()).items()]
    except Exception:       # noqa: BLE001
        return None


# ---------------------------------------------------------------------------------------------------------
# clear()

class _Dirt:
    """what a probe puts where None / a scalar was"""
    def __repr__(self):
        return "<dirt>"


def _make_probe_class(name, log):
    def _restore_overrides(cls):
        log.append(cls)
    return type(name, (), {"_restore_overrides": classmethod(_restore_overrides)})


def _dirty(r, f, fresh_value, probe_classes):
    """make field f differ from what __init__ gave it; -> the object stored there afterwards"""
    v = getattr(r, f)
    if f == "overridden_feedbacks" and hasattr(r, "override_feedback"):
        for c in probe_classes:
            r.override_feedback(c)
        return getattr(r, f)
    if isinstance(v, dict):
        v["__verif_dirt__"] = _Dirt()
    elif isinstance(v, list):
        v.append(_Dirt())
    elif isinstance(v, set):
        v.add(_Dirt())
    elif v is None or isinstance(v, (bool, int, float, str, bytes, tuple, frozenset)):
        setattr(r, f, _Dirt())
    else:
        # an object (the formatter): another object of a subclass, built without running any constructor
        sub = type("Dirty" + type(v).__name__, (type(v),), {})
        try:
            setattr(r, f, object.__new__(sub))
        except TypeError:
            setattr(r, f, _Dirt())
    return getattr(r, f)


def _as_fresh(v, f0):
    if isinstance(f0, (dict, list, set)):
        return type(v) is type(f0) and len(v) == len(f0) and (len(f0) == 0 or v == f0)
    if f0 is None:
        return v is None
    if isinstance(f0, (bool, int, float, str, bytes, tuple, frozenset)):
        return type(v) is type(f0) and v == f0
    return type(v) is type(f0)


def clear_behaviour():
    """-> {"fields": {f: {"reset": bool, "kept": bool|None, "kind": Kind of the value after clear}},
           "restored": bool  (every registered probe class was restored, exactly once, in every trial),
           "restore_any": bool, "registry_reset": bool, "trials": n, "error": str|None}"""
    Report = _report_cls()
    try:
        fresh = vars(Report())
    except Exception as e:       # noqa: BLE001
        return {"error": "Report() raised %s" % type(e).__name__}
    names = list(fresh)
    rng = random.Random(13)
    trials = [[f] for f in names] + [list(names)] + [[f for f in names if rng.random() < 0.5] for _ in range(16)]
    out = {f: {"reset": True, "kept": None, "kind": None, "seen": 0} for f in names}
    restored, restore_any, n_reg = True, False, 0
    for dirty in trials:
        r = Report()
        log = []
        # two probe classes share one __name__ (pedal ships such pairs: source/sandbox indentation_error)
        probes = [_make_probe_class("verif_probe_a", log), _make_probe_class("verif_probe_same", log),
                  _make_probe_class("verif_probe_same", log)]
        before = {}
        try:
            for f in dirty:
                before[f] = _dirty(r, f, fresh[f], probes)
            r.clear()
        except Exception as e:       # noqa: BLE001
            return {"error": "clear() on a dirtied report raised %s: %s" % (type(e).__name__, str(e)[:80])}
        for f in names:
            v = getattr(r, f, None)
            ok = _as_fresh(v, fresh[f])
            rec = out[f]
            if f in dirty:
                rec["seen"] += 1
                rec["reset"] = rec["reset"] and ok
                if ok:
                    kept = v is before[f]
                    rec["kept"] = kept if rec["kept"] is None else (rec["kept"] and kept)
                    rec["kind"] = kind_of_value(v)
            elif not ok:
                # clear() damaged a field that was fine
                rec["reset"] = False
        if "overridden_feedbacks" in dirty and hasattr(r, "override_feedback"):
            n_reg += 1
            once = all(any(c is p for c in log) for p in probes)
            restored = restored and once
            restore_any = restore_any or bool(log)
    return {"fields": out, "restored": restored and n_reg > 0, "restore_any": restore_any, "trials": len(trials),
            "error": None}


# ---------------------------------------------------------------------------------------------------------
# which fields a method changes

def _shape(v, depth=0):
    if depth > 4:
        return id(v)
    if isinstance(v, dict):
        return ("d",) + tuple((repr(k) if isinstance(k, (str, int)) else id(k), _shape(x, depth + 1)) for k, x in v.items())
    if isinstance(v, (list, tuple)):
        return ("l",) + tuple(_shape(x, depth + 1) for x in v)
    if isinstance(v, (set, frozenset)):
        return ("s",) + tuple(sorted(id(x) for x in v))
    if v is None or isinstance(v, (bool, int, float, str, bytes)):
        return repr(v)
    return id(v)


def _fingerprint(r):
    return {f: (id(v), _shape(v)) for f, v in vars(r).items()}


class _StubFeedback:
    parent = None
    label = "verif_stub"
    category = "instructor"


def _recipes():
    from pedal.core import formatting

    def with_pools(r):
        r.set_pools(2)

    def with_group(r):
        r.start_group("g")

    return {
        "suppress": (None, lambda r: (r.suppress("runtime"), r.suppress(None, "some_label"))),
        "hide_correctness": (None, lambda r: r.hide_correctness()),
        "add_hook": (None, lambda r: r.add_hook("pedal.report.add_feedback", lambda *a, **k: None)),
        "set_formatter": (None, lambda r: r.set_formatter(formatting.HtmlFormatter(r))),
        "start_group": (None, lambda r: r.start_group("g")),
        "stop_group": (with_group, lambda r: r.stop_group("g")),
        "get_current_group": (with_group, lambda r: r.get_current_group()),
        "set_pools": (None, lambda r: r.set_pools(2)),
        "finalize_pools": (with_pools, lambda r: r.finalize_pools()),
        "finalize_feedbacks": (with_pools, lambda r: r.finalize_feedbacks()),
        "contextualize": (None, lambda r: r.contextualize(_Dirt())),
        "add_feedback": (None, lambda r: r.add_feedback(_StubFeedback())),
        "add_ignored_feedback": (None, lambda r: r.add_ignored_feedback(_StubFeedback())),
        "override_feedback": (None, lambda r: r.override_feedback(_make_probe_class("verif_probe_m", []))),
        "__setitem__": (None, lambda r: r.__setitem__("verif_probe_tool", {})),
        "__contains__": (None, lambda r: "verif_probe_tool" in r),
        "execute_hooks": (None, lambda r: r.execute_hooks("pedal.report", "add_feedback", (_StubFeedback(),))),
    }


def method_dirties():
    """-> {method: sorted list of fields the call changed} for the methods we know how to call"""
    Report = _report_cls()
    out = {}
    for name, (setup, call) in _recipes().items():
        if not callable(getattr(Report, name, None)):
            continue
        try:
            r = Report()
            if setup is not None:
                setup(r)
            before = _fingerprint(r)
            call(r)
            after = _fingerprint(r)
        except Exception:       # noqa: BLE001
            continue
        changed = sorted(f for f in after if before.get(f) != after[f])
        try:
            r.clear()
        except Exception:       # noqa: BLE001
            pass
        out[name] = changed
    return out


# ---------------------------------------------------------------------------------------------------------
# report[tool]

def lazy_tool_reset():
    Report = _report_cls()
    calls = []
    names = ["__verif_probe_tool_a__", "__verif_probe_tool_b__"]

    def make(name):
        def reset(report=None):
            calls.append(name)
            report[name] = {"built": len(calls)}
            return report[name]
        return reset

    registered = []
    try:
        for n in names:
            Report.register_tool(n, make(n))
            registered.append(n)
        r = Report()
        a, b = names
        d1 = r[a]
        ok = calls == [a] and d1 == {"built": 1}
        d1["mark"] = 1
        ok = ok and r[a].get("mark") == 1 and calls == [a]              # not reset again while it has data
        r[b]
        ok = ok and calls == [a, b]                                     # a missing tool is reset although others have data
        ok = ok and r[a].get("mark") == 1
        r.clear()
        ok = ok and "mark" not in r[a] and calls == [a, b, a]           # and again after clear()
        ok = ok and r[a] is r[a] and calls == [a, b, a]
        return bool(ok)
    except Exception:       # noqa: BLE001
        return None
    finally:
        tools = getattr(Report, "TOOLS", None)
        for n in registered:
            try:
                tools.pop(n, None)
            except Exception:       # noqa: BLE001
                pass


# ---------------------------------------------------------------------------------------------------------
# Feedback.override / _restore_overrides / override_for_pool

def override_facts():
    """-> {"backup_per_class", "override_registers", "restore_clears_pools", "pool_override_registers"}: bool | None"""
    from pedal.core.feedback import Feedback
    Report = _report_cls()
    out = {"backup_per_class": None, "override_registers": None, "restore_clears_pools": None,
           "pool_override_registers": None}
    pools = getattr(Feedback, "_pools", None)
    saved_pools = dict(pools) if isinstance(pools, dict) else None
    try:
        # -- a class that is overridden is put back by clear(); also two classes that share a name
        def fam():
            class verif_probe_same(Feedback):
                title = "same"
            return verif_probe_same
        try:
            r = Report()
            C, S1, S2 = type("verif_probe_c", (Feedback,), {"title": "c"}), fam(), fam()
            for rounds in range(2):
                C.override(report=r, title="XC")
                S1.override(report=r, title="X1")
                S2.override(report=r, title="X2")
                S1.override(report=r, title="X1b")
                seen = (C.title, S1.title, S2.title) == ("XC", "X1b", "X2")
                r.clear()
                ok = seen and (C.__dict__.get("title"), S1.__dict__.get("title"), S2.__dict__.get("title")) == ("c", "same", "same")
                out["override_registers"] = ok if out["override_registers"] is None else (out["override_registers"] and ok)
        except Exception:       # noqa: BLE001
            out["override_registers"] = None
        # -- backups are per class: base first, then a subclass that only inherits; an override failing half-way
        try:
            r = Report()
            A = type("verif_probe_base", (Feedback,), {"title": "a"})
            B = type("verif_probe_derived", (A,), {})
            ok = True
            for rounds in range(2):
                A.override(report=r, title="XA")
                B.override(report=r, title="XB", priority="low")
                try:
                    A.override(report=r, justification="J", verif_no_such_attribute=1)
                    failed = False
                except AttributeError:
                    failed = True
                ok = ok and failed and (A.title, B.title, B.priority) == ("XA", "XB", "low")
                r.clear()
                ok = ok and A.__dict__.get("title") == "a" and "title" not in B.__dict__ and B.title == "a"
                ok = ok and "priority" not in B.__dict__ and "priority" not in A.__dict__
                ok = ok and "justification" not in A.__dict__
                # the subclass first, then the base
                B.override(report=r, title="YB")
                A.override(report=r, title="YA")
                ok = ok and (A.title, B.title) == ("YA", "YB")
                r.clear()
                ok = ok and A.__dict__.get("title") == "a" and "title" not in B.__dict__ and B.title == "a"
            out["backup_per_class"] = ok
        except Exception:       # noqa: BLE001
            out["backup_per_class"] = None
        # -- the pool table
        if isinstance(pools, dict) and callable(getattr(Feedback, "override_for_pool", None)):
            try:
                r = Report()
                D = type("verif_probe_pool", (Feedback,), {"title": "d"})
                E = type("verif_probe_pool2", (Feedback,), {"title": "e"})
                E.override(report=r, title="XE")
                D.override_for_pool("A", report=r, title="PA")
                D.override_for_pool(["A", "B"], report=r, message_template="PM")
                filled = bool(Feedback._pools)
                r.clear()
                out["restore_clears_pools"] = filled and not Feedback._pools
                D.override_for_pool("A", report=r, title="PA")
                filled = bool(Feedback._pools)
                r.clear()
                out["pool_override_registers"] = filled and not Feedback._pools
            except Exception:       # noqa: BLE001
                pass
    finally:
        if saved_pools is not None:
            try:
                Feedback._pools.clear()
                Feedback._pools.update(saved_pools)
            except Exception:       # noqa: BLE001
                pass
    return out


# ---------------------------------------------------------------------------------------------------------
# Environment.__init__

def env_clears_first():
    Report = _report_cls()
    try:
        from pedal.core.environment import Environment
    except Exception:       # noqa: BLE001
        return None
    verdicts = []
    for attach in (False, True):
        seen = {"at_ctx": None}

        class ProbeReport(Report):
            def contextualize(self, submission):
                if seen["at_ctx"] is None:
                    seen["at_ctx"] = _dirt_left(self)
                return super().contextualize(submission)

        def _dirt_left(r):
            return [f for f in ("feedback", "suppressions", "suppressed_labels", "hooks", "resolves", "_tool_data")
                    if hasattr(r, f) and len(getattr(r, f)) > 0] + (["result"] if getattr(r, "result", None) is not None else [])

        def soil(r):
            r.feedback.append(_Dirt())
            r.suppress("runtime")
            r.suppress(None, "some_label")
            r.add_hook("verif.probe", lambda *a, **k: None)
            r.resolves.append(_Dirt())
            r.result = _Dirt()
            r["verif_probe_tool"] = {}
            if attach:
                r.contextualize(_Dirt())

        try:
            # what clear() itself leaves behind is clear()'s business (clearSteps), not the environment's
            r0 = Report()
            soil(r0)
            r0.clear()
            baseline = set(_dirt_left(r0))
            r = ProbeReport()
            soil(r)
            seen["at_ctx"] = None
            if not set(_dirt_left(r)) - baseline:
                return None
            Environment(main_code="print(1)\n", report=r)
            after = set(_dirt_left(r)) - baseline
            attached = getattr(r, "submission", None) is not None
            verdicts.append(not after and attached and (seen["at_ctx"] is None or not set(seen["at_ctx"]) - baseline))
        except Exception:       # noqa: BLE001
            return None
    return all(verdicts)


# ---------------------------------------------------------------------------------------------------------
# the TIFA tool's reset

def tifa_reset_rebuilds():
    Report = _report_cls()
    try:
        import pedal.tifa                                        # noqa: F401  (registers the tool)
        from pedal.tifa import tifa_analysis
        import pedal.types.new_types as new_types
    except Exception:       # noqa: BLE001
        return None

    def marks():
        m = new_types.BUILTIN_MODULES.get("math")
        return [k for k in (m.fields if m is not None else {}) if k.startswith("verif_probe_")]

    try:
        r = Report()
        tifa_analysis(code="import math\nmath.verif_probe_1 = 1\nprint(math.verif_probe_1)\n", report=r)
        if marks() != ["verif_probe_1"]:
            return None
        # a second analysis in the same grading (no clear in between) sees the same table
        r.clear()
        r["tifa"]
        ok = marks() == []
        # also when the table is not empty and another tool has been used in between
        tifa_analysis(code="import math\nmath.verif_probe_2 = 1\n", report=r)
        r.clear()
        tifa_analysis(code="import math\nmath.verif_probe_3 = 1\n", report=r)
        ok = ok and marks() == ["verif_probe_3"]
        r.clear()
        return ok
    except Exception:       # noqa: BLE001
        return None
    finally:
        try:
            new_types.reset_builtin_modules()
        except Exception:       # noqa: BLE001
            pass


def external_dirties():
    """fields of a report the resolvers of the package change (the package's only writers outside report.py today)"""
    Report = _report_cls()
    out = set()
    import importlib
    ran = 0
    for name in ("simple", "sectional", "full", "statistics"):
        try:
            mod = importlib.import_module("pedal.resolvers." + name)
            r = Report()
            before = _fingerprint(r)
            mod.resolve(report=r)
            after = _fingerprint(r)
            ran += 1
        except Exception:       # noqa: BLE001
            continue
        out |= {f for f in after if before.get(f) != after[f]}
    return sorted(out) if ran else None


def measure():
    return {"init_fields": init_fields(), "clear": clear_behaviour(), "method_dirties": method_dirties(),
            "lazy_tool_reset": lazy_tool_reset(), "override": override_facts(), "env_clears_first": env_clears_first(),
            "tifa_reset_rebuilds": tifa_reset_rebuilds(), "external_dirties": external_dirties()}


if __name__ == "__main__":
    import json
    print(json.dumps(measure(), indent=1, default=str))

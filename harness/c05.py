"""C05 — whatever the sandbox patches is restored after every execution, however it ends."""
import sys
import sandboxexec_check as sc

THEOREMS = [
    "Pedal.SandboxExec.c05_ladder_well_formed",
    "Pedal.SandboxExec.c05_ladder_balanced",
    "Pedal.SandboxExec.c05_import_transparent",
    "Pedal.SandboxExec.c05_probe_restores",
    "Pedal.SandboxExec.c05_probe_thread_independent",
    "Pedal.SandboxExec.c05_restored_after_execute",
    "Pedal.SandboxExec.c05_restored_after_op",
    "Pedal.SandboxExec.c05_discharges_c04_hypothesis",
    "Pedal.SandboxExec.c05_restored_after_history",
    "Pedal.SandboxExec.c05_ladder_depth_independent",
    "Pedal.SandboxExec.c05_discharges_c04_depth_hypothesis",
    "Pedal.SandboxExec.c05_restored_when_nested",
    "Pedal.SandboxExec.c05_restored_after_nested",
    "Pedal.SandboxExec.c05_restored_after_nested_history",
    "Pedal.SandboxExec.c05_executeN_extends_execute",
    "Pedal.SandboxExec.c05_builtins_private",
    "Pedal.SandboxExec.c05_restored_partial",
    "Pedal.SandboxExec.c05_restored_full_of_no_excluded",
    "Pedal.SandboxExec.c05_restored_counterexample",
    "Pedal.SandboxExec.c05_counterexample_applies",
]
NOTES = [
    "borrowed globals are identities: sys.stdout, time.sleep, sys.gettrace() by `is`, sys.modules and the process "
    "builtins as key set + identity of every value; unittest.mock's start()/stop() are modelled as save/restore of "
    "the patched targets (probed: which targets, that start;stop and start;start;stop;stop restore them)",
    "the handler ladder is read from the AST of Sandbox._execute by meaning (locals followed, helpers inlined, tuple / "
    "isinstance handlers expanded into clauses - sandboxexec_ladder.py) and cross-checked against the measured "
    "behaviour of the real function on an instrumented sandbox; a statement the translator does not recognise and "
    "cannot measure, an except class outside Exception / SystemExit / BaseException, or a reading that disagrees with "
    "the measurement becomes Act.unknown and c05_ladder_well_formed / c05_ladder_balanced fail",
    "tracer styles enter the theorems as the probed triple (installs, restores, restores when re-entered inside "
    "its own `with`); the harness pre-installs a trace function before every execution so that a style that resets "
    "it to None is visible",
    "a nested import of a student file is modelled only as re-entering the tracer (Sandbox._import is read from its "
    "AST, private helpers followed: exec inside the tracer's `with`, no try around it, no mocking calls - c05_import_transparent); that it patches "
    "nothing else is sampled by the histories that import helper.py",
    "student code that itself calls sys.settrace is outside the model (not generated)",
    "timeouts (_execute_with_timeout's TimeoutError branch) are C14's and not modelled. A THREADED execution that "
    "ends by itself (sandbox.threaded = True / threaded=True; the same ladder run by a worker thread, the imports "
    "relayed to a further thread) is not modelled either: it is SAMPLED - every threaded history is compared with "
    "the model's answer for the same history unthreaded (except the calling thread's trace function, which a "
    "threaded execution does not borrow: the oracle demands it untouched) and judged by the oracle",
    "NESTED executions (an execution started on the sandbox while another one is in progress on it: the input "
    "callable, a mocked builtin or an instructor function in the student namespace running call / evaluate / run) "
    "ARE modelled: executeN / runN apply the nested executions while the outer `exec` step is in progress, each "
    "planned at the depth of the stacks it finds (baseOf); c05_ladder_depth_independent (plan_transfer: a ladder "
    "that never pops an empty stack has the same plan at every depth) + the frame lemma applyPrimsN_frames (a "
    "balanced, strict list of steps touches only the frames it pushed) give c05_restored_when_nested / "
    "c05_restored_after_nested for every tree of executions, to any depth. How student code REACHES the hook "
    "(mocked builtin, namespace, input callable) is exercised, not modelled; an inner execution given no tracer "
    "style of its own re-enters the outer tracer object (modelled like a nested import)",
    "_stop_mocking is ONE primitive step of the model (its effect is the probed MockProbe): the order of the "
    "statements inside it, and a failure of pedal's own bookkeeping between them (storing the captured output: "
    "Sandbox.append_output / _read_captured raising, e.g. MemoryError on a huge output), are outside the model. "
    "That case is a SEARCH-ONLY stream: a failure is injected into each of those steps for every way an execution "
    "ends x every tracer style x run/call/import, judged by the snapshot oracle of the statement (the failure may "
    "propagate; the borrowed globals and both stacks must be as before)",
    "the THREAD the grader runs on is not in the model. mockProbe (the start/stop probe behind c05_probe_restores, a "
    "hypothesis of every theorem) is measured on the main thread and repeated on a plain threading.Thread, a pool "
    "worker, a thread `threading` did not start and a Timer (c05_probe_thread_independent: all agree and restore); "
    "that whole executions restore everything there too - every ending x "
    "entry point x threaded mode, nested executions - is SAMPLED by the histories carrying `on` and judged by the "
    "snapshot oracle on that thread (the trace function is per thread: installed, and compared, on the thread the "
    "history runs on). GATED (fails on the unchanged tree, reported): the grader inside pedal's own timeout(), and an "
    "execution with threaded=False nested in a threaded one - both finish on an InterruptableThread and take its "
    "one-shot finish claim",
    "sizes (inputs consumed, output printed, traceback depth, message / argument / source length) and the report's "
    "formatter are not in the model; sampled by the size sweep shared with C04 (sandboxexec_sizes.py)",
    "WHICH REPORT is graded (MAIN_REPORT / a Report of its own through commands with report= / a Sandbox(report=...) "
    "object, with other reports alive) and the EXECUTED TEXT differing from the text stored under the file name are "
    "not in the model: sampled (sandboxexec_where.py), compared with the model's answer for the same history on "
    "MAIN_REPORT / with the stored text. TIMEOUT as an ending stays outside the model (C14's protocol); C05 adds a "
    "SEARCH-ONLY stream for what C14's forced interleavings do not vary: an execution NESTED in another one that is "
    "given up on (every nesting route; the abandoned code ending at once or swallowing its SystemExit), judged by the "
    "snapshot oracle right after the inner call returns and again after the abandoned thread has ended, and an "
    "abandoned thread that is released by - and ends during - the next top-level execution",
]


def refuted(info):
    bad = [n for n, inst, rest, rest_nested in info.get("tracers", []) if inst and not (rest and rest_nested)]
    if bad:
        return [{"statement": "Pedal.SandboxExec.C05_Restored_Full",
                 "refuted_by": "Pedal.SandboxExec.c05_restored_counterexample",
                 "known_finding": {"c05": "leak", "what": ["trace"], "style": bad[0]},
                 "non_restoring_styles": bad}]
    return []


if __name__ == "__main__":
    sys.exit(sc.make("C05", THEOREMS, model_notes=NOTES, refuted_full=refuted)())

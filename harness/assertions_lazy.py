"""
C07, operand VALUE CLASSES beyond the plain containers: lazy / view / iterator-like objects and the other classes
`pedal/utilities/comparisons.py` has a branch for (range, map, filter, zip, enumerate, reversed, dict views, generators,
iterators, deque, frozenset, bytes, bytearray, complex / Fraction / Decimal) - on either side, on both sides, the same
object on both sides, at top level and nested (inside lists, tuples, dict values, sets, other lazy objects), raw and
proxied, both argument orders.

* Every operand is described by a JSON-able RECIPE (spec) and built afresh for every single use: one-shot iterators are
  consumed by the assertion, by the oracle and by the encoder alike.
* WHICH classes are generated is read from the tree under test: every module-level tuple of classes in
  pedal.utilities.comparisons (LIST_GENERATOR_TYPES, SET_GENERATOR_TYPES, ...) and every class named in an
  `isinstance(...)` test of that module.  Each such class needs a recipe here (`RECIPES_BY_TYPE`); classes without one
  are listed in the evidence (`table classes without a recipe`).  Recipes for classes that are NOT in the tables
  (generators, list iterators, deque, OrderedDict views, ...) are generated as well.
* Oracle (search): written from the property text.  Two readings of "the corresponding Python relation" exist for a lazy
  operand: (P) Python's own `==` on the objects as they are (identity for one-shot iterators and values() views, content
  for range / keys() / items() / deque / frozenset / bytes), lifted through lists / tuples / sets / dicts with the
  documented tolerance and normalisation exactly as for plain operands; (C) the lazy object stands for its elements
  (a list for sequence-like objects, a set for keys(), a dict for items(), a list or - when hashable - a set for
  values()).  Where ALL readings agree the answer is definite and the assertion must follow it.  Where they differ the
  oracle abstains about the verdict and demands only what the property states for every operand pair: assert_equal and
  assert_not_equal neither both pass nor both fail, the outcome does not depend on the argument order, and it does not
  depend on which operands are proxied.
* Model (correspondence): the Lean model has no lazy values; pedal's equality_test materialises the classes of its two
  tables FIRST, so the encoder sends the materialised operands (list for the six sequence-like classes, set for the
  three views - the behaviour of the tree as modelled, hard-coded here like the model itself) for the equality family
  and for direct calls of equality_test; everything else is unencodable and search-only.
"""
import ast
import collections
import dataclasses
import decimal
import fractions
import inspect
import itertools

import assertions_common as ac
from assertions_gen import f20, ONE

import pedal.utilities.comparisons as comparisons  # noqa: E402


# --------------------------------------------------------------------------------------
# recipes

def _same(x):
    return x


def _true(x):
    return True


def _gen(xs):
    for x in xs:
        yield x


@dataclasses.dataclass
class Point:
    x: float
    y: int


@dataclasses.dataclass
class Pair:
    x: float
    y: int


DATACLASSES = {"Point": Point, "Pair": Pair}


# kind -> (constructor from the list of built elements, one-shot?)
SEQ_KINDS = {
    "map": (lambda xs: map(_same, xs), True),
    "filter": (lambda xs: filter(_true, xs), True),
    "zip": (lambda xs: zip(xs), True),                       # content: 1-tuples
    "zip2": (lambda xs: zip(xs, list(xs)), True),            # content: pairs (x, x)
    "enumerate": (lambda xs: enumerate(xs), True),           # content: (i, x)
    "reversed": (lambda xs: reversed(xs[::-1]), True),       # list_reverseiterator; content: xs
    "gen": (lambda xs: _gen(xs), True),
    "iter": (lambda xs: iter(xs), True),                     # list_iterator
    "tupleiter": (lambda xs: iter(tuple(xs)), True),
    "revtuple": (lambda xs: reversed(tuple(xs[::-1])), True),  # the builtin `reversed` class
    "chain": (lambda xs: itertools.chain(xs), True),
    "islice": (lambda xs: itertools.islice(xs, None), True),
}
VIEW_KINDS = ("keys", "values", "items", "okeys", "ovalues", "oitems")


def seq_content(kind, elems):
    """what list(<object>) gives, for a sequence-like kind over the list `elems`"""
    if kind == "zip":
        return [(x,) for x in elems]
    if kind == "zip2":
        return [(x, x) for x in elems]
    if kind == "enumerate":
        return [(i, x) for i, x in enumerate(elems)]
    return list(elems)


def build(spec, env=None):
    """fresh Python object for a recipe.  {"t": "ref", "id": n, "of": spec} builds its object once per `env`
    (the SAME object wherever the id occurs, also across the two operands of a pair)."""
    env = {} if env is None else env
    t = spec["t"]
    if t == "ref":
        if spec["id"] not in env:
            env[spec["id"]] = build(spec["of"], env)
        return env[spec["id"]]
    if t == "list":
        return [build(x, env) for x in spec["v"]]
    if t == "tuple":
        return tuple(build(x, env) for x in spec["v"])
    if t == "set":
        return set(build(x, env) for x in spec["v"])
    if t == "frozenset":
        return frozenset(build(x, env) for x in spec["v"])
    if t == "dict":
        return {build(k, env): build(v, env) for k, v in spec["v"]}
    if t == "deque":
        return collections.deque(build(x, env) for x in spec["v"])
    if t == "bytes":
        return spec["v"].encode("latin-1")
    if t == "bytearray":
        return bytearray(spec["v"].encode("latin-1"))
    if t == "complex":
        return complex(spec["v"][0], spec["v"][1])
    if t == "fraction":
        return fractions.Fraction(spec["v"][0], spec["v"][1])
    if t == "decimal":
        return decimal.Decimal(spec["v"])
    if t == "range":
        return range(*spec["v"])
    if t == "dc":
        return DATACLASSES[spec["c"]](*[build(x, env) for x in spec["v"]])
    if t == "dcclass":
        return DATACLASSES[spec["c"]]
    if t == "lazy":
        return SEQ_KINDS[spec["k"]][0]([build(x, env) for x in spec["v"]])
    if t == "view":
        k = spec["k"]
        d = (collections.OrderedDict if k.startswith("o") else dict)((build(a, env), build(b, env)) for a, b in spec["v"])
        return getattr(d, k.lstrip("o"))()
    return ac.build(spec)


class Unavailable(Exception):
    """a reading / an encoding that does not exist for this recipe"""


def content(spec, values_as="list", items_as="dict"):
    """reading (C): the concrete value a recipe stands for when lazy objects stand for their elements
    (values(): a list or a set; items(): a dict - values compared with the tolerance - or a set of pairs)"""
    t = spec["t"]
    if t == "ref":
        return content(spec["of"], values_as, items_as)

    def c(x):
        return content(x, values_as, items_as)
    try:
        if t == "list":
            return [c(x) for x in spec["v"]]
        if t == "tuple":
            return tuple(c(x) for x in spec["v"])
        if t == "set":
            return set(c(x) for x in spec["v"])
        if t == "frozenset":
            return frozenset(c(x) for x in spec["v"])
        if t == "dict":
            return {c(k): c(v) for k, v in spec["v"]}
        if t == "deque":
            return collections.deque(c(x) for x in spec["v"])
        if t == "range":
            return list(range(*spec["v"]))
        if t == "dc":
            return DATACLASSES[spec["c"]](*[c(x) for x in spec["v"]])
        if t == "lazy":
            return seq_content(spec["k"], [c(x) for x in spec["v"]])
        if t == "view":
            k = spec["k"].lstrip("o")
            d = dict((c(a), c(b)) for a, b in spec["v"])
            if k == "keys":
                return set(d.keys())
            if k == "items":
                return d if items_as == "dict" else set(d.items())
            return list(d.values()) if values_as == "list" else set(d.values())
    except TypeError:
        raise Unavailable("unhashable")
    return build(spec)


def view_kinds_in(spec):
    """{'values', 'items', 'bytes'} present anywhere in the recipe: the readings that have to be told apart"""
    t = spec["t"]
    out = set()
    if t == "ref":
        return view_kinds_in(spec["of"])
    if t == "view":
        out.add(spec["k"].lstrip("o"))
    if t == "bytes":
        out.add("bytes")
    if t == "dc":
        out.add("dc")
    if t in ("list", "tuple", "set", "frozenset", "deque", "lazy", "dc"):
        for x in spec["v"]:
            out |= view_kinds_in(x)
    elif t in ("dict", "view"):
        for a, b in spec["v"]:
            out |= view_kinds_in(a) | view_kinds_in(b)
    return out


# what the tree (as modelled) turns into a list / a set before it compares; hard-coded like the Lean model itself
MODEL_LIST_KINDS = ("range", "map", "filter", "zip", "zip2", "enumerate", "reversed")
MODEL_SET_KINDS = ("keys", "values", "items")
MODEL_PLAIN = ("none", "bool", "int", "float", "str")


def model_value(spec):
    """the operand as pedal's equality_test sees it after its own materialisation step, for the Lean driver"""
    t = spec["t"]
    try:
        if t == "list":
            return [model_value(x) for x in spec["v"]]
        if t == "tuple":
            return tuple(model_value(x) for x in spec["v"])
        if t == "set":
            return set(model_value(x) for x in spec["v"])
        if t == "dict":
            return {model_value(k): model_value(v) for k, v in spec["v"]}
        if t == "range":
            return list(range(*spec["v"]))
        if t == "lazy" and spec["k"] in MODEL_LIST_KINDS:
            return seq_content(spec["k"], [model_value(x) for x in spec["v"]])
        if t == "view" and spec["k"] in MODEL_SET_KINDS:
            d = {model_value(a): model_value(b) for a, b in spec["v"]}
            return set(getattr(d, spec["k"])())
    except TypeError:
        raise Unavailable("unhashable")
    if t in MODEL_PLAIN:
        return ac.build(spec)
    raise Unavailable(t)


def type_of(spec):
    """class of the object a recipe builds (built once; cheap)"""
    return type(build(spec))


def label(spec):
    """short class label of an operand for signatures: `range`, `map`, `dict_keys`, `list[range]`, `list[map,range]`"""
    t = spec["t"]
    if t == "ref":
        return label(spec["of"])
    inner = sorted(set(_special_inside(spec, top=True)))
    head = top_label(spec)
    return head if not inner else "%s[%s]" % (head, ",".join(inner))


def top_label(spec):
    t = spec["t"]
    if t == "ref":
        return top_label(spec["of"])
    if t in ("dc", "dcclass"):
        return "dataclass" if t == "dc" else "dataclass-class"
    if t in ("range", "lazy", "view", "deque", "bytes", "bytearray", "complex", "fraction", "decimal", "frozenset"):
        return type_of(spec).__name__
    return {"none": "none", "obj": "object", "err": "error"}.get(t, t)


SPECIAL = ("range", "lazy", "view", "deque", "bytes", "bytearray", "complex", "fraction", "decimal", "frozenset", "dc",
           "dcclass")


def _special_inside(spec, top=False):
    t = spec["t"]
    if t == "ref":
        for x in _special_inside(spec["of"], top):
            yield x
        return
    if not top and t in SPECIAL:
        yield top_label(spec)
    if t in ("list", "tuple", "set", "frozenset", "deque", "lazy", "dc"):
        for x in spec["v"]:
            for y in _special_inside(x):
                yield y
    elif t in ("dict", "view"):
        for a, b in spec["v"]:
            for x in (a, b):
                for y in _special_inside(x):
                    yield y


def kinds_in(spec):
    """all special class labels occurring anywhere in the recipe (for the evidence counts)"""
    return sorted(set(_special_inside(spec)))


def has_ref(spec):
    t = spec["t"]
    if t == "ref":
        return True
    if t in ("list", "tuple", "set", "frozenset", "deque", "lazy"):
        return any(has_ref(x) for x in spec["v"])
    if t in ("dict", "view"):
        return any(has_ref(a) or has_ref(b) for a, b in spec["v"])
    return False


# --------------------------------------------------------------------------------------
# the tables of the tree under test

def tree_tables():
    """{constant name: tuple of classes} for every module-level tuple of classes in pedal.utilities.comparisons, and
    the set of classes named in isinstance() tests anywhere in that module (resolved through the module's globals)."""
    tables = {}
    for name, value in vars(comparisons).items():
        if isinstance(value, (tuple, list, set, frozenset, dict)) and value and all(isinstance(x, type) for x in value):
            tables[name] = tuple(value)
    tested = set()
    try:
        tree = ast.parse(inspect.getsource(comparisons))
        for node in ast.walk(tree):
            if isinstance(node, ast.Call) and isinstance(node.func, ast.Name) and node.func.id in ("isinstance", "issubclass") \
                    and len(node.args) == 2:
                try:
                    v = eval(compile(ast.Expression(node.args[1]), "<isinstance>", "eval"), dict(vars(comparisons)))
                except Exception:
                    continue
                for c in (v if isinstance(v, tuple) else (v,)):
                    if isinstance(c, type):
                        tested.add(c)
    except (OSError, SyntaxError):
        pass
    return tables, tested


# --------------------------------------------------------------------------------------
# oracle

def _norm_text(s):
    return ac.o_norm(s)


def o_eq(a, b, exact, delta, bytes_as="exact", dc_as="python"):
    """ac.o_equal extended to frozenset (like set), bytes (two readings: compared exactly, or normalised like the
    text they spell) and dataclass instances (two readings: their own ==, or field by field with the tolerance);
    `==` first, so every class Python itself compares by content is covered."""
    def rec(x, y):
        return o_eq(x, y, exact, delta, bytes_as, dc_as)
    if ac.is_num(a) and ac.is_num(b):
        if isinstance(a, float) or isinstance(b, float):
            return abs(fractions.Fraction(a) - fractions.Fraction(b)) < fractions.Fraction(delta)
        return a == b
    if isinstance(a, str) and isinstance(b, str):
        return a == b if exact else _norm_text(a) == _norm_text(b)
    if type(a) is bytes and type(b) is bytes and bytes_as == "text" and not exact:
        return _norm_text(a.decode("latin-1")) == _norm_text(b.decode("latin-1"))
    if a == b:
        return True
    if isinstance(a, list) and isinstance(b, list) or isinstance(a, tuple) and isinstance(b, tuple):
        if len(a) != len(b):
            return False
        return all([rec(x, y) for x, y in zip(a, b)])
    if (isinstance(a, set) and isinstance(b, set)) or (isinstance(a, frozenset) and isinstance(b, frozenset)):
        return (len(a) == len(b) and all(any(rec(x, y) for y in b) for x in a)
                and all(any(rec(x, y) for x in a) for y in b))
    if isinstance(a, dict) and isinstance(b, dict):
        if set(a.keys()) != set(b.keys()):
            ka, kb = list(a.keys()), list(b.keys())
            if (len(ka) == len(kb) and all(any(rec(x, y) for y in kb) for x in ka)
                    and all(any(rec(x, y) for x in ka) for y in kb)):
                raise ac.Ambiguous()
            return False
        return all([rec(a[k], b[k]) for k in a])
    if dc_as == "fields" and type(a) is type(b) and dataclasses.is_dataclass(a) and not isinstance(a, type):
        return all([rec(getattr(a, f.name), getattr(b, f.name)) for f in dataclasses.fields(a)])
    return False


def readings(sa, sb, exact, delta):
    """{reading name: True / False} for the pair of recipes; a reading that does not exist (unhashable values as a set)
    is left out; ac.Ambiguous (dict keys equal only approximately) propagates."""
    d = ac.DEFAULT_DELTA if delta is None else delta
    present = view_kinds_in(sa) | view_kinds_in(sb)
    out = {}
    for bytes_as in (("exact", "text") if "bytes" in present else ("exact",)):
        for dc_as in (("python", "fields") if "dc" in present else ("python",)):
            env = {}
            a, b = build(sa, env), build(sb, env)
            tag = "/bytes-%s/dataclass-%s" % (bytes_as, dc_as)
            out["python" + tag] = bool(o_eq(a, b, exact, d, bytes_as, dc_as))
            for values_as in (("list", "set") if "values" in present else ("list",)):
                for items_as in (("dict", "set") if "items" in present else ("dict",)):
                    try:
                        ca, cb = content(sa, values_as, items_as), content(sb, values_as, items_as)
                    except Unavailable:
                        continue
                    out["content/values-%s/items-%s%s" % (values_as, items_as, tag)] = bool(
                        o_eq(ca, cb, exact, d, bytes_as, dc_as))
    return out


UNEVALUABLE = "unevaluable"


def keys_ambiguous(sa, sb, exact=False, delta=None):
    """the oracle abstains because two dicts have key sets that are equal only approximately (ac.Ambiguous)"""
    try:
        readings(sa, sb, exact, delta)
    except ac.Ambiguous:
        return True
    except TypeError:
        return False
    return False


def want_equal(sa, sb, exact=False, delta=None):
    """True / False when every reading agrees, None when the property leaves the verdict open"""
    try:
        r = set(readings(sa, sb, exact, delta).values())
    except ac.Ambiguous:
        return None
    except TypeError:
        # Python's own == raises (an items() view with unhashable values against another set-like view): the relation
        # cannot be evaluated, nothing is demanded of the pair
        return UNEVALUABLE
    return r.pop() if len(r) == 1 else None


# --------------------------------------------------------------------------------------
# spec helpers

def I(v):
    return {"t": "int", "v": v}


def S(v):
    return {"t": "str", "v": v}


def FL(steps, base=1):
    """the float base + steps * 2^-20"""
    return ac.spec_of(f20(base * ONE + steps))


def L(*xs):
    return {"t": "list", "v": list(xs)}


def T(*xs):
    return {"t": "tuple", "v": list(xs)}


def lazy(kind, elems):
    return {"t": "lazy", "k": kind, "v": list(elems)}


def view(kind, pairs):
    return {"t": "view", "k": kind, "v": [list(p) for p in pairs]}


NONE = {"t": "none"}
EPS = 500          # 500 * 2^-20 = 0.00048: inside the documented tolerance
FAR = 1100         # outside

# element lists and how they relate: (name, xs, ys, equal when lazy objects stand for their elements?)
SEQ_RELATIONS = [
    ("same", [I(1), FL(0, 2), S("a")], [I(1), FL(0, 2), S("a")]),
    ("same-ints", [I(3), I(2), I(1)], [I(3), I(2), I(1)]),
    ("approx", [I(1), FL(0, 2), S("Ab.")], [I(1), FL(EPS, 2), S("ab")]),
    ("approx-num", [FL(0), I(2)], [FL(EPS), I(2)]),
    ("far", [I(1), FL(0, 2)], [I(1), FL(FAR, 2)]),
    ("differ", [I(1), I(2), I(3)], [I(1), I(2), I(4)]),
    ("shorter", [I(1), I(2), I(3)], [I(1), I(2)]),
    ("reordered", [I(1), I(2)], [I(2), I(1)]),
    ("empty", [], []),
    ("empty-vs-one", [], [NONE]),
    ("falsy", [I(0), S(""), NONE], [I(0), S(""), NONE]),
    ("nested", [L(I(1), FL(0)), T(S("a"))], [L(I(1), FL(EPS)), T(S("A"))]),
]
RANGE_RELATIONS = [
    ("same", [3, 0, -1], [3, 0, -1]),
    ("same-elements", [0, 6, 2], [0, 5, 2]),
    ("empty", [0, 0, 1], [5, 5, 1]),
    ("shorter", [0, 3, 1], [0, 4, 1]),
    ("reordered", [0, 3, 1], [2, -1, -1]),
    ("differ", [0, 6, 2], [0, 6, 3]),
    ("same-one", [7, 8, 1], [7, 9, 5]),
]
DICT_RELATIONS = [
    ("same", [(S("ada"), I(1)), (S("bob"), I(2))], [(S("ada"), I(1)), (S("bob"), I(2))]),
    ("same-other-order", [(S("ada"), I(1)), (S("bob"), I(2))], [(S("bob"), I(2)), (S("ada"), I(1))]),
    ("same-keys", [(S("ada"), I(1)), (S("bob"), I(2))], [(S("bob"), I(7)), (S("ada"), I(9))]),
    ("same-values", [(S("ada"), I(1)), (S("bob"), I(2))], [(S("x"), I(1)), (S("y"), I(2))]),
    ("swapped-values", [(S("ada"), I(1)), (S("bob"), I(2))], [(S("ada"), I(2)), (S("bob"), I(1))]),
    ("duplicate-values", [(S("ada"), I(1)), (S("bob"), I(1))], [(S("ada"), I(1))]),
    ("approx-values", [(S("ada"), FL(0))], [(S("ada"), FL(EPS))]),
    ("far-values", [(S("ada"), FL(0))], [(S("ada"), FL(FAR))]),
    ("approx-keys", [(S("Ada"), I(1))], [(S("ada"), I(1))]),
    ("shorter", [(S("ada"), I(1)), (S("bob"), I(2))], [(S("ada"), I(1))]),
    ("differ", [(S("ada"), I(1))], [(S("bob"), I(2))]),
    ("empty", [], []),
    ("int-keys", [(I(1), S("x")), (I(2), S("y"))], [(I(2), S("y")), (I(1), S("x"))]),
]
# values that cannot be put into a set: equality_test's set(...) of a values()/items() view raises on them
DICT_RELATIONS_UNHASHABLE = [
    ("unhashable-values", [(S("ada"), L(I(1)))], [(S("ada"), L(I(1)))]),
    ("unhashable-values-differ", [(S("ada"), L(I(1)))], [(S("ada"), L(I(2)))]),
]


def concrete_of(kind_spec):
    """the plain container with the same elements as a lazy recipe (what the 'other side' would write)"""
    c = content(kind_spec)
    return _spec_of(c)


def _spec_of(v):
    if isinstance(v, list):
        return {"t": "list", "v": [_spec_of(x) for x in v]}
    if isinstance(v, tuple):
        return {"t": "tuple", "v": [_spec_of(x) for x in v]}
    if isinstance(v, frozenset):
        return {"t": "frozenset", "v": [_spec_of(x) for x in v]}
    if isinstance(v, set):
        return {"t": "set", "v": [_spec_of(x) for x in v]}
    if isinstance(v, dict):
        return {"t": "dict", "v": [[_spec_of(k), _spec_of(x)] for k, x in v.items()]}
    if isinstance(v, collections.deque):
        return {"t": "list", "v": [_spec_of(x) for x in v]}
    return ac.spec_of(v)


def make(kind, elems_or_args):
    """recipe of class `kind` from an element list (sequence-like kinds), range arguments or dict pairs"""
    if kind == "range":
        return {"t": "range", "v": list(elems_or_args)}
    if kind in VIEW_KINDS:
        return view(kind, elems_or_args)
    if kind in ("deque", "frozenset", "list", "tuple", "set"):
        return {"t": kind, "v": list(elems_or_args)}
    return lazy(kind, elems_or_args)


def family(kind):
    return "range" if kind == "range" else ("view" if kind in VIEW_KINDS else "seq")


# input families on which the UNCHANGED tree breaks the property (open findings, see family_of); generated by default,
# VERIF_C07_LAZY_EXTRA=none (or a comma list) leaves them out
GATES = ("unhashable-views", "same-iterator", "decimal-proxy", "hashed-iterators")


def relations_for(kind, extra):
    if kind == "range":
        return RANGE_RELATIONS
    if kind in VIEW_KINDS:
        return DICT_RELATIONS + (DICT_RELATIONS_UNHASHABLE if "unhashable-views" in extra and not kind.endswith("keys") else [])
    return SEQ_RELATIONS


# positions: how the pair (X, Y) is embedded in the two operands
def _pos_top(x, y):
    return x, y


def _pos_list(x, y):
    return L(x), L(y)


def _pos_list_tol(x, y):
    # next to a float that needs the tolerance: the lists are not `==`, so the comparison has to go element by element
    return L(x, FL(0)), L(y, FL(EPS))


def _pos_tuple_tol(x, y):
    return T(S("Ab."), x), T(S("ab"), y)


def _pos_dict_tol(x, y):
    return ({"t": "dict", "v": [[S("k"), x], [S("t"), FL(0)]]}, {"t": "dict", "v": [[S("k"), y], [S("t"), FL(EPS)]]})


def _pos_deep(x, y):
    return L(L(I(0), T(x))), L(L(I(0), T(y)))


def _pos_in_map(x, y):
    return lazy("map", [x, FL(0)]), lazy("map", [y, FL(EPS)])


def _pos_in_zip(x, y):
    return lazy("zip", [x]), lazy("zip", [y])


def _pos_set(x, y):
    return {"t": "set", "v": [x, I(5)]}, {"t": "set", "v": [y, I(5)]}


def _pos_dict_key(x, y):
    return {"t": "dict", "v": [[x, I(1)]]}, {"t": "dict", "v": [[y, I(1)]]}


POSITIONS = [("top", _pos_top), ("list", _pos_list), ("list+tolerance", _pos_list_tol), ("tuple+normalisation", _pos_tuple_tol),
             ("dict-value+tolerance", _pos_dict_tol), ("deep", _pos_deep), ("inside-map", _pos_in_map),
             ("inside-zip", _pos_in_zip)]
HASHED_POSITIONS = [("set-element", _pos_set), ("dict-key", _pos_dict_key)]


def hashable_kind(kind):
    return kind not in VIEW_KINDS and kind not in ("deque", "list", "set")


# --------------------------------------------------------------------------------------
# which kinds exist, and which of them the tree's tables name

ALL_KINDS = ["range"] + list(SEQ_KINDS) + list(VIEW_KINDS) + ["deque"]


def kind_types():
    """{kind: class of the object its recipe builds}"""
    out = {}
    for k in ALL_KINDS:
        rel = relations_for(k, ())[0]
        out[k] = type_of(make(k, rel[1]))
    return out


def classify_kinds():
    """(kinds whose class is in one of the tree's tables - {kind: table name} -, kinds outside, table classes without a
    recipe, isinstance-tested classes without a recipe)"""
    tables, tested = tree_tables()
    kt = kind_types()
    in_table, missing = {}, []
    for tname, classes in tables.items():
        for c in classes:
            ks = [k for k, t in kt.items() if t is c]
            if not ks:
                missing.append("%s: %s" % (tname, c.__name__))
            for k in ks:
                in_table[k] = tname
    if not in_table:
        # no table of classes was recognised in the module: every kind gets the full treatment
        in_table = {k: "(no table found)" for k in ALL_KINDS}
    outside = [k for k in ALL_KINDS if k not in in_table]
    have = set(kt.values()) | {bool, int, float, complex, str, bytes, list, tuple, set, frozenset, dict,
                               fractions.Fraction, decimal.Decimal}
    untested = sorted(c.__name__ for c in tested
                      if c not in have and not any(issubclass(h, c) for h in have))
    return in_table, outside, missing, untested


# --------------------------------------------------------------------------------------
# case generation (equality family)

QUICK_OUTSIDE_RELATIONS = ("same", "approx", "differ", "empty", "same-keys", "approx-values")
QUICK_PARTNER_RELATIONS = ("same", "same-ints", "approx", "differ", "empty", "same-keys", "same-values", "approx-values",
                           "same-elements", "shorter")
BOTH_ORDERS = ("lr", "rl")


def core_pairs(extra, tier="thorough"):
    """deterministic part, every tier: for every kind, every relation of its family, partner = the same kind (BOTH sides
    lazy), the plain container with the same elements (ONE side lazy; the other order gives the other side), another
    kind of the same family; at top level, nested next to a value that needs the tolerance, and one more position.
    Quick tier: all of it for (kind, kind) pairs of the kinds whose class is in the tree's tables, a subset of the
    relations for the other partners and for the kinds outside the tables, fewer wrappings below the top level.
    -> [(how, spec X, spec Y, wrappings, orders)]"""
    in_table, outside, _, _ = classify_kinds()
    order = [k for k in ALL_KINDS if k in in_table] + [k for k in ALL_KINDS if k not in in_table]
    quick = tier == "quick"
    out = []
    for ki, kind in enumerate(order):
        fam = family(kind)
        listed = kind in in_table
        same_family = [k for k in order if family(k) == fam and k != kind]
        for ri, (rel, xs, ys) in enumerate(relations_for(kind, extra)):
            if quick and not listed and rel not in QUICK_OUTSIDE_RELATIONS:
                continue
            x, y = make(kind, xs), make(kind, ys)
            partners = [("both:" + kind, y)]
            if not quick or rel in QUICK_PARTNER_RELATIONS:
                try:
                    partners.append(("one-side:" + kind + "/plain", concrete_of(y)))
                except Unavailable:
                    pass
                if fam == "range":
                    other = order[1 + (ri % (len(order) - 1))]
                    if family(other) == "seq":
                        partners.append(("both:%s/%s" % (kind, other), make(other, [I(v) for v in range(*ys)])))
                elif same_family and (listed or not quick):
                    other = same_family[(ki + ri) % len(same_family)]
                    partners.append(("both:%s/%s" % (kind, other), make(other, ys)))
                if fam == "seq" and all(e["t"] == "int" for e in ys) and len(ys) >= 2 and \
                        len(set(b["v"] - a["v"] for a, b in zip(ys, ys[1:]))) == 1:
                    step = ys[1]["v"] - ys[0]["v"]
                    if step:
                        partners.append(("both:%s/range" % kind, make("range", [ys[0]["v"], ys[-1]["v"] + step, step])))
            for pi, (how, partner) in enumerate(partners):
                rot = POSITIONS[3 + (ki + ri + pi) % (len(POSITIONS) - 3)]
                one = WRAPS[1 + (ki + ri + pi) % 3]
                if not quick:
                    plan = [(p, WRAPS, BOTH_ORDERS) for p in POSITIONS]
                elif listed:
                    plan = [(POSITIONS[0], WRAPS, BOTH_ORDERS), (POSITIONS[2], ("rr", one), BOTH_ORDERS)]
                    if pi == 0:
                        plan.append((rot, ("rr", one), BOTH_ORDERS[(ki + ri) % 2:][:1]))
                else:
                    plan = [(POSITIONS[0], ("rr", one), BOTH_ORDERS), (POSITIONS[2], (one,), BOTH_ORDERS[(ki + ri) % 2:][:1])]
                for (pname, pos), wraps, orders in plan:
                    a, b = pos(x, partner)
                    out.append(("%s %s @%s" % (how, rel, pname), a, b, wraps, orders))
    return out


def shared_pairs(extra):
    """the SAME object on both sides (top level), and one lazy object shared by two different containers"""
    out = []
    for kind in ALL_KINDS:
        oneshot = kind in SEQ_KINDS
        if oneshot and "same-iterator" not in extra:
            continue
        rel = relations_for(kind, extra)[0]
        x = {"t": "ref", "id": 1, "of": make(kind, rel[1])}
        out.append(("same-object:%s @top" % kind, x, x))
        out.append(("shared-object:%s @list+tolerance" % kind, L(x, FL(0)), L(x, FL(EPS))))
    for kind in ALL_KINDS:
        # an EMPTY one-shot object is the same before and after it was consumed
        if kind in SEQ_KINDS:
            x = {"t": "ref", "id": 1, "of": make(kind, [])}
            out.append(("same-object:%s empty @top" % kind, x, x))
    return out


PLAIN_EXTRA = [
    ("frozenset", {"t": "frozenset", "v": [I(1), I(2)]}, {"t": "frozenset", "v": [I(2), I(1)]}),
    ("frozenset-approx", {"t": "frozenset", "v": [FL(0), S("Ab.")]}, {"t": "frozenset", "v": [FL(EPS), S("ab")]}),
    ("frozenset-far", {"t": "frozenset", "v": [FL(0)]}, {"t": "frozenset", "v": [FL(FAR)]}),
    ("frozenset/set", {"t": "frozenset", "v": [I(1)]}, {"t": "set", "v": [I(1)]}),
    ("frozenset/set-approx", {"t": "frozenset", "v": [FL(0)]}, {"t": "set", "v": [FL(EPS)]}),
    ("frozenset-differ", {"t": "frozenset", "v": [I(1)]}, {"t": "frozenset", "v": [I(2)]}),
    ("bytes/bytearray", {"t": "bytes", "v": "abc"}, {"t": "bytearray", "v": "abc"}),
    ("bytearray", {"t": "bytearray", "v": "abc"}, {"t": "bytearray", "v": "abc"}),
    ("bytearray-differ", {"t": "bytearray", "v": "abc"}, {"t": "bytearray", "v": "abd"}),
    ("bytes/str", {"t": "bytes", "v": "abc"}, S("abc")),
    ("bytes/list", {"t": "bytes", "v": "ab"}, L(I(97), I(98))),
    ("complex/int", {"t": "complex", "v": [1, 0]}, I(1)),
    ("complex/float", {"t": "complex", "v": [1, 0]}, FL(0)),
    ("complex", {"t": "complex", "v": [1, 2]}, {"t": "complex", "v": [1, 2]}),
    ("complex-differ", {"t": "complex", "v": [1, 2]}, {"t": "complex", "v": [1, 3]}),
    ("fraction/float", {"t": "fraction", "v": [1, 2]}, ac.spec_of(0.5)),
    ("fraction/int", {"t": "fraction", "v": [4, 2]}, I(2)),
    ("fraction", {"t": "fraction", "v": [1, 3]}, {"t": "fraction", "v": [2, 6]}),
    ("fraction-differ", {"t": "fraction", "v": [1, 3]}, {"t": "fraction", "v": [1, 4]}),
    ("decimal", {"t": "decimal", "v": "1.50"}, {"t": "decimal", "v": "1.5"}),
    ("decimal-differ", {"t": "decimal", "v": "1.5"}, {"t": "decimal", "v": "1.6"}),
    ("deque/list", {"t": "deque", "v": [I(1)]}, L(I(1))),
    ("tuple/list", T(I(1), I(2)), L(I(1), I(2))),
    ("list/tuple-nested", L(T(I(1)), FL(0)), L(L(I(1)), FL(EPS))),
]
def DC(cls, x, y):
    return {"t": "dc", "c": cls, "v": [x, y]}


# dataclass instances and classes (before /repo 8334b76 instances that are not == made equality_test raise: its dataclass
# branch read __name__, which only classes have)
DATACLASS_PAIRS = [
    ("dataclass-same", DC("Point", FL(0), I(2)), DC("Point", FL(0), I(2))),
    ("dataclass-int/float", DC("Point", I(1), I(2)), DC("Point", FL(0), I(2))),
    ("dataclass-class", {"t": "dcclass", "c": "Point"}, {"t": "dcclass", "c": "Point"}),
    ("dataclass-classes-differ", {"t": "dcclass", "c": "Point"}, {"t": "dcclass", "c": "Pair"}),
    ("dataclass-class/instance", {"t": "dcclass", "c": "Point"}, I(1)),
    ("dataclass/int", DC("Point", FL(0), I(2)), I(1)),
    ("dataclass/tuple", DC("Point", I(1), I(2)), T(I(1), I(2))),
]
DATACLASS_PAIRS_UNEQUAL = [
    ("dataclass-differ", DC("Point", I(1), I(2)), DC("Point", I(1), I(3))),
    ("dataclass-approx", DC("Point", FL(0), I(2)), DC("Point", FL(EPS), I(2))),
    ("dataclass-other-class", DC("Point", I(1), I(2)), DC("Pair", I(1), I(2))),
    ("dataclass/class", DC("Point", I(1), I(2)), {"t": "dcclass", "c": "Point"}),
]
# Decimal.__eq__ rejects a proxied int (its C code wants a real int): gated
DECIMAL_PAIRS = [("decimal/int", {"t": "decimal", "v": "2"}, I(2)), ("decimal/float", {"t": "decimal", "v": "0.5"}, ac.spec_of(0.5))]
# bytes against bytes
BYTES_PAIRS = [
    ("bytes", {"t": "bytes", "v": "abc"}, {"t": "bytes", "v": "abc"}),
    ("bytes-differ", {"t": "bytes", "v": "abc"}, {"t": "bytes", "v": "abd"}),
    ("bytes-normalised", {"t": "bytes", "v": "Ab."}, {"t": "bytes", "v": "ab"}),
    ("bytes-nested", L({"t": "bytes", "v": "abc"}, FL(0)), L({"t": "bytes", "v": "abc"}, FL(EPS))),
    ("bytes-empty", {"t": "bytes", "v": ""}, {"t": "bytes", "v": ""}),
]


def _pos_set1(x, y):
    return {"t": "set", "v": [x]}, {"t": "set", "v": [y]}


def hashed_pairs(extra):
    """one-shot iterators as the only element of a set / frozenset and as a dict key (deterministic: with more elements
    the outcome depends on the iteration order of the set, i.e. on addresses)"""
    if "hashed-iterators" not in extra:
        return []
    out = []
    for kind in ("map", "zip2", "enumerate", "gen"):
        x, y = make(kind, [I(3), I(2), I(1)]), make(kind, [I(3), I(2), I(1)])
        out.append(("hashed:%s same-ints @set-element" % kind,) + _pos_set1(x, y))
        out.append(("hashed:%s same-ints @dict-key" % kind,) + _pos_dict_key(x, y))
        out.append(("hashed:%s same-ints @frozenset-element" % kind, {"t": "frozenset", "v": [x]}, {"t": "frozenset", "v": [y]}))
    return out


# --------------------------------------------------------------------------------------
# families of INPUTS behind the open findings: a failure on such an input carries the family as its whole signature

def _walk(spec, inside_hashed=False):
    """(spec, is it an element of a set / frozenset or a dict key?) for every node of a recipe"""
    yield spec, inside_hashed
    t = spec["t"]
    if t == "ref":
        for x in _walk(spec["of"], inside_hashed):
            yield x
    elif t in ("set", "frozenset"):
        for e in spec["v"]:
            for x in _walk(e, True):
                yield x
    elif t in ("list", "tuple", "deque", "lazy", "dc"):
        # a tuple inside a set is hashed with its elements
        for e in spec["v"]:
            for x in _walk(e, inside_hashed and t == "tuple"):
                yield x
    elif t in ("dict", "view"):
        for k, v in spec["v"]:
            for x in _walk(k, True):
                yield x
            for x in _walk(v, False):
                yield x


def _oneshot(spec):
    return spec["t"] == "lazy" and spec["k"] in SEQ_KINDS


def _unhashable(spec):
    try:
        hash(build(spec))
        return False
    except TypeError:
        return True


NUMBER_SPECS = ("bool", "int", "float", "complex", "fraction", "decimal")


def family_of(sl, sr, wrap):
    """None, or the family of known-defective inputs the operand pair belongs to (decided on the INPUT alone):
    same-iterator    - one non-empty one-shot iterator object is (part of) both operands
    hashed-iterators - a one-shot iterator is an element of a set / frozenset or a dict key
    unhashable-views - a values() / items() view of a dict with an unhashable value
    decimal-proxy    - one operand is a Decimal, the other a PROXIED number"""
    def shared_ids(spec):
        return {n["id"] for n, _ in _walk(spec) if n["t"] == "ref" and _oneshot(n["of"]) and n["of"]["v"]}
    if shared_ids(sl) & shared_ids(sr):
        return "same-iterator"
    for spec in (sl, sr):
        if any(hashed and _oneshot(n) for n, hashed in _walk(spec)):
            return "hashed-iterators"
    for spec in (sl, sr):
        for n, _ in _walk(spec):
            if n["t"] == "view" and n["k"].lstrip("o") in ("values", "items") and any(_unhashable(v) for _, v in n["v"]):
                return "unhashable-views"
    for a, b, wb in ((sl, sr, wrap[1:2]), (sr, sl, wrap[0:1])):
        if a["t"] == "decimal" and b["t"] in NUMBER_SPECS and wb == "p":
            return "decimal-proxy"
    return None


def plain_pairs(extra):
    table = (PLAIN_EXTRA + DATACLASS_PAIRS + DATACLASS_PAIRS_UNEQUAL + (DECIMAL_PAIRS if "decimal-proxy" in extra else []))
    out = [("plain:" + n, a, b) for n, a, b in table]
    for n, a, b in table:
        x, y = _pos_list_tol(a, b)
        out.append(("plain:%s @list+tolerance" % n, x, y))
    return out


def bytes_cases(extra):
    """bytes vs bytes, with and without exact_strings (before /repo 9a7ee60 the latter raised in the normaliser)"""
    out = []
    for n, a, b in BYTES_PAIRS:
        out.append(("plain:" + n, a, b, {"exact": True}))
        out.append(("plain:" + n, a, b, {}))
    return out


def random_pair(rng, extra, in_table, depth=0):
    """one random pair over ALL kinds x kinds (not only the same family), random relation and position, nesting"""
    kinds = ALL_KINDS + ["list", "tuple", "frozenset"]
    weights = [4 if k in in_table else 1 for k in kinds]
    ka, kb = rng.choices(kinds, weights)[0], rng.choices(kinds, weights)[0]
    if rng.random() < 0.45:
        kb = ka
    rel = rng.choice(SEQ_RELATIONS if rng.random() < 0.7 else [r for r in SEQ_RELATIONS if r[0] in ("same", "same-ints", "empty", "differ")])
    name, xs, ys = rel

    def inst(kind, elems):
        if kind == "range":
            vals = [e["v"] for e in elems if e["t"] == "int"]
            if len(vals) == len(elems) and len(vals) >= 2 and len(set(b - a for a, b in zip(vals, vals[1:]))) == 1 \
                    and vals[1] != vals[0]:
                st = vals[1] - vals[0]
                return make("range", [vals[0], vals[-1] + st, st])
            if not elems:
                return make("range", [rng.randrange(3), 0, 1])
            r = rng.choice(RANGE_RELATIONS)
            return make("range", r[1 + rng.randrange(2)])
        if kind in VIEW_KINDS:
            r = rng.choice(DICT_RELATIONS)
            return make(kind, r[1 + rng.randrange(2)])
        if kind in ("frozenset", "set"):
            try:
                hash(tuple(build(e) for e in elems))
            except TypeError:
                return make(kind, [I(1), I(2)])
        return make(kind, elems)
    if depth == 0 and rng.random() < 0.25:
        # lazy objects inside lazy objects
        (h1, a1, b1) = random_pair(rng, extra, in_table, depth + 1)
        xs, ys = [a1] + xs[:1], [b1] + ys[:1]
        name = "nested(%s)" % h1
        if ka in ("range",) + VIEW_KINDS + ("frozenset",):
            ka = "map"
        if kb in ("range",) + VIEW_KINDS + ("frozenset",):
            kb = ka
    x, y = inst(ka, xs), inst(kb, ys)
    positions = POSITIONS + (HASHED_POSITIONS if "hashed-iterators" in extra and hashable_kind(ka) and hashable_kind(kb)
                             else [])
    pname, pos = rng.choice(positions) if depth == 0 else ("top", _pos_top)
    a, b = pos(x, y)
    try:
        build(a), build(b)
    except TypeError:
        # an unhashable element would have to be hashed (a tuple holding a list as a set element, ...)
        pname, (a, b) = "list", _pos_list(x, y)
    return "random:%s/%s %s @%s" % (ka, kb, name, pname), a, b


def equality_cases(rng, tier, extra):
    """-> [(how, left recipe, right recipe, {exact / delta}, wrappings, orders)]"""
    in_table = classify_kinds()[0]
    core = core_pairs(extra, tier)
    out = [(h, a, b, {}, w, o) for h, a, b, w, o in core]
    out += [(h, a, b, {}, WRAPS, BOTH_ORDERS) for h, a, b in shared_pairs(extra) + plain_pairs(extra) + hashed_pairs(extra)]
    out += [(h, a, b, kw, WRAPS, BOTH_ORDERS) for h, a, b, kw in bytes_cases(extra)]
    # explicit parameters on a slice of the core
    every = 11 if tier == "quick" else 5
    for i, (h, a, b, w, o) in enumerate(core):
        if i % every == 0:
            out.append((h, a, b, {"exact": True}, w[:2], o))
        elif i % every == 3:
            out.append((h, a, b, {"delta": 0.5 if i % 2 else 0.0001}, w[:2], o))
    n = 250 if tier == "quick" else 6000
    for _ in range(n):
        h, a, b = random_pair(rng, extra, in_table)
        kw = {}
        r = rng.random()
        if r < 0.15:
            kw["exact"] = True
        elif r < 0.25:
            kw["delta"] = rng.choice([0.5, 0.125, 0.0001])
        out.append((h, a, b, kw, ("rr", rng.choice(WRAPS[1:])), BOTH_ORDERS))
    return out


# --------------------------------------------------------------------------------------
# running the equality family

WRAPS = ("rr", "pr", "rp", "pp")


def proxy(obj, slot="l"):
    """a real SandboxResult of `obj` itself.  Unlike ac.proxy_of the student namespace does not grow (two fixed names):
    pedal's call() scans the whole namespace for functions on every execution."""
    name = "_c07_lazy_" + slot
    ac.get_sandbox().data[name] = obj
    p = ac.evaluate(name)
    if not ac.is_sandbox_result(p) or p._actual_value is not obj:
        raise RuntimeError("could not proxy %r" % (obj,))
    return p


def operands(sl, sr, wrap, via_call=False):
    """fresh operands for ONE assertion call"""
    env = {}
    lo, ro = build(sl, env), build(sr, env)
    px = (lambda o: ac.call("ident", o)) if via_call else proxy
    a = px(lo) if wrap[0] == "p" else lo
    b = (a if ro is lo and wrap[0] == "p" else px(ro)) if wrap[1] == "p" else ro
    return a, b


def run_pair(sl, sr, wrap, kw, names=("assert_equal", "assert_not_equal"), via_call=False):
    out = []
    for name in names:
        a, b = operands(sl, sr, wrap, via_call)
        out.append(ac.run_real(name, a, b, exact=kw.get("exact", False), delta=kw.get("delta")))
    return tuple(out)


def kind_of_failure(pos_real, neg_real, want):
    """None, or (assertion-is-negated?, kind) for a pair of outcomes of (assert_equal, assert_not_equal) against the
    definite verdict `want` (True: equal)"""
    for neg, real in ((False, pos_real), (True, neg_real)):
        if real.startswith("escapes"):
            return neg, "escapes"
        if real == "inconsistent":
            return neg, "inconsistent"
    demanded = ("silent", "fires") if want else ("fires", "silent")
    if pos_real != demanded[0]:
        return False, "false-pass" if pos_real == "silent" else "false-fail"
    if neg_real != demanded[1]:
        return True, "false-pass" if neg_real == "silent" else "false-fail"
    return None


def run_equality(rng, tier, extra, counts):
    """-> (rows, model requests).  row = dict(how, l, r, kw, wrap, order, real=(eq, ne), want)"""
    from assertions_gen import end_history
    end_history()
    rows, requests = [], []
    cases = equality_cases(rng, tier, extra)
    for ci, (how, sl, sr, kw, wraps, orders) in enumerate(cases):
        exact, delta = kw.get("exact", False), kw.get("delta")
        want = want_equal(sl, sr, exact, delta)
        counts["lazy:python-==-raises" if want == UNEVALUABLE else
               "lazy:definite" if want is not None else "lazy:oracle-abstains"] += 1
        for k in set(kinds_in(sl) + kinds_in(sr)):
            counts["lazy-class:" + k] += 1
        counts["lazy-shape:" + how.split(" ")[0].split(":")[0]] += 1
        shared = has_ref(sl) or has_ref(sr)
        # both orders always; the wrappings the generator chose (all four at top level)
        fam = ("assert_almost_equal", "assert_not_almost_equal") if ci % 9 == 4 else ("assert_equal", "assert_not_equal")
        for order, (x, y) in (("lr", (sl, sr)), ("rl", (sr, sl))):
            if order not in orders or (order == "rl" and x is y):
                continue
            for wrap in wraps:
                real = run_pair(x, y, wrap, kw, fam, via_call=(ci % 23 == 2))
                row = {"how": how, "l": x, "r": y, "kw": kw, "wrap": wrap, "order": order, "real": real, "want": want,
                       "names": fam, "case": ci}
                rows.append(row)
                if not shared:
                    try:
                        requests.append((row, model_value(x), model_value(y)))
                    except Unavailable:
                        counts["lazy:unencodable"] += 1
    return rows, requests


def direct_equality(rng, tier, extra):
    """equality_test itself on fresh raw operands -> [(how, l, r, exact, delta, real, model values or None)]"""
    out = []
    for how, sl, sr, _, _ in core_pairs(extra, tier):
        for exact in (False, True):
            for x, y in ((sl, sr), (sr, sl)):
                try:
                    mv = (model_value(x), model_value(y))
                except Unavailable:
                    continue
                try:
                    real = "true" if comparisons.equality_test(build(x), build(y), exact, ac.DEFAULT_DELTA) else "false"
                except Exception:
                    real = "raised"
                out.append((how, x, y, exact, ac.DEFAULT_DELTA, real, mv))
    return out


# --------------------------------------------------------------------------------------
# the other assertion families on lazy operands: plain Python is the oracle

def other_cases(extra):
    """-> [(assertion, left recipe, right recipe or None)]; the oracle is the Python relation itself on fresh raw objects"""
    out = []
    for kind in ALL_KINDS:
        fam = family(kind)
        if fam == "range":
            full, empty, probe_in, probe_out = make(kind, [0, 3, 1]), make(kind, [0, 0, 1]), I(1), I(7)
            sub, notsub = L(I(0), I(2)), L(I(0), I(9))
        elif fam == "view":
            pairs = [(S("ada"), I(1)), (S("bob"), I(2))]
            full, empty = make(kind, pairs), make(kind, [])
            k = kind.lstrip("o")
            probe_in = {"keys": S("ada"), "values": I(2), "items": T(S("bob"), I(2))}[k]
            probe_out = {"keys": S("eve"), "values": I(7), "items": T(S("bob"), I(1))}[k]
            sub, notsub = L(probe_in), L(probe_in, probe_out)
        else:
            full, empty, probe_in, probe_out = make(kind, [I(0), I(1), I(2)]), make(kind, []), I(1), I(7)
            if kind == "zip":
                probe_in, probe_out = T(I(1)), T(I(7))
            elif kind == "zip2":
                probe_in, probe_out = T(I(1), I(1)), T(I(1), I(2))
            elif kind == "enumerate":
                probe_in, probe_out = T(I(1), I(1)), T(I(1), I(2))
            sub, notsub = L(probe_in), L(probe_in, probe_out)
        for name in ("assert_in", "assert_not_in"):
            out += [(name, probe_in, full), (name, probe_out, full), (name, probe_in, empty)]
        for name in ("assert_contains_subset", "assert_not_contains_subset"):
            out += [(name, sub, full), (name, notsub, full), (name, full, concrete_of(full)),
                    (name, full, L(probe_in)), (name, empty, L())]
        for name in ac.LENGTH:
            out += [(name, full, I(len(content(full)))), (name, full, I(0)), (name, empty, I(0)), (name, full, I(5))]
        for name in ("assert_true", "assert_false", "assert_is_none", "assert_is_not_none"):
            out += [(name, full, None), (name, empty, None)]
        ref = {"t": "ref", "id": 1, "of": full}
        for name in ac.IDENT:
            out += [(name, ref, ref), (name, full, full), (name, full, concrete_of(full))]
        for name in ac.ORDER:
            out += [(name, full, full), (name, empty, full), (name, full, concrete_of(full)), (name, full, I(1))]
    return out


def py_relation(name, a, b):
    """the plain Python relation (ac.oracle) - the operands are fresh raw objects"""
    return ac.oracle(name, a, b)


def run_other(rng, tier, extra, counts):
    from assertions_gen import end_history
    end_history()
    rows = []
    for name, sl, sr in other_cases(extra):
        unary = sr is None
        env = {}
        oa, ob = build(sl, env), (None if unary else build(sr, env))
        want = "silent" if py_relation(name, oa, ob) else "fires"
        counts["lazy-other:" + name] += 1
        for wrap in (("r", "p") if unary else WRAPS):
            env = {}
            lo = build(sl, env)
            a = proxy(lo) if wrap[0] == "p" else lo
            b = None
            if not unary:
                ro = build(sr, env)
                b = (a if ro is lo and wrap[0] == "p" else proxy(ro, "r")) if wrap[1] == "p" else ro
            real = ac.run_real(name, a, b)
            rows.append({"a": name, "l": sl, "r": sr, "wrap": wrap, "real": real, "want": want})
    return rows


# --------------------------------------------------------------------------------------
# unit_test whose stored / expected values are lazy

def unit_cases(rng, tier, extra):
    core = [c[:3] for c in core_pairs(extra, tier) if "@top" in c[0] or "@list+tolerance" in c[0]]
    n = 40 if tier == "quick" else 600
    out = []
    for _ in range(n):
        rows = [rng.choice(core) for _ in range(rng.randrange(1, 4))]
        out.append({"rows": [[j, a, b] for j, (_, a, b) in enumerate(rows)], "partial": rng.random() < 0.3})
    return out


def run_unit(case):
    """the student's table(key) returns the stored (lazy) object, the instructor's expected value is the other recipe"""
    from assertions_gen import end_history
    end_history()
    sb = ac.get_sandbox()
    sb.data["TABLE"] = {j: build(s) for j, s, _ in case["rows"]}
    ac.clear_report()
    try:
        extra = {"partial_credit": True} if case.get("partial") else {}
        ok = ac.unit_test("table", *[([j], build(e)) for j, _, e in case["rows"]], **extra)
        groups = [f for f in ac.MAIN_REPORT.feedback + ac.MAIN_REPORT.ignored_feedback if type(f).__name__ == "unit_test"]
        if len(groups) != 1:
            return {"error": "found %d unit_test feedbacks" % len(groups)}
        g = groups[0]
        return {"passed": bool(ok), "succ": g.fields.get("success_count"), "total": g.fields.get("total_count"),
                "reported": any(f is g for f in ac.MAIN_REPORT.feedback)}
    except Exception as e:
        return {"error": "escapes:" + type(e).__name__}
    finally:
        ac.clear_report()


def oracle_unit(case):
    good = 0
    for _, s, e in case["rows"]:
        w = want_equal(s, e)
        if w is None or w == UNEVALUABLE:
            return None
        good += bool(w)
    n = len(case["rows"])
    return {"passed": good == n, "succ": good, "total": n, "reported": good != n}


def short(spec, limit=60):
    try:
        r = repr(build(spec))
    except Exception as e:       # pragma: no cover
        r = "<%s>" % type(e).__name__
    if spec["t"] in ("lazy", "view", "ref") or "object at 0x" in r:
        r = describe(spec)
    return r if len(r) <= limit else r[:limit - 3] + "..."


def describe(spec):
    """readable source-like text of a recipe"""
    t = spec["t"]
    if t == "ref":
        return "<same object #%d: %s>" % (spec["id"], describe(spec["of"]))
    if t == "list":
        return "[" + ", ".join(describe(x) for x in spec["v"]) + "]"
    if t == "tuple":
        return "(" + ", ".join(describe(x) for x in spec["v"]) + ("," if len(spec["v"]) == 1 else "") + ")"
    if t in ("set", "frozenset", "deque"):
        return t + "([" + ", ".join(describe(x) for x in spec["v"]) + "])"
    if t == "dict":
        return "{" + ", ".join(describe(k) + ": " + describe(v) for k, v in spec["v"]) + "}"
    if t == "range":
        return "range(%s)" % ", ".join(str(v) for v in spec["v"])
    if t == "lazy":
        inner = "[" + ", ".join(describe(x) for x in spec["v"]) + "]"
        return {"map": "map(f, %s)", "filter": "filter(f, %s)", "zip": "zip(%s)", "zip2": "zip(%s, <the same>)",
                "enumerate": "enumerate(%s)", "reversed": "reversed(<reversed> %s)", "gen": "(x for x in %s)",
                "iter": "iter(%s)", "tupleiter": "iter(tuple(%s))", "revtuple": "reversed(tuple(<reversed> %s))",
                "chain": "itertools.chain(%s)", "islice": "itertools.islice(%s, None)"}[spec["k"]] % inner
    if t == "view":
        d = "{" + ", ".join(describe(k) + ": " + describe(v) for k, v in spec["v"]) + "}"
        return ("OrderedDict(%s)" % d if spec["k"].startswith("o") else d) + "." + spec["k"].lstrip("o") + "()"
    return repr(build(spec))
